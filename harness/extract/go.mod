module hwverif/extract

go 1.22
