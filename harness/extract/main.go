// extract regenerates lean/HW/Generated/Facts.lean from the repository source (go/ast only):
// the constants the Lean model is parametric in, and the locking-shape facts that no dynamic
// run can observe reliably. HW/Props/Facts.lean proves Generated = Expected by `decide`.
package main

import (
	"flag"
	"fmt"
	"go/ast"
	"go/parser"
	"go/token"
	"os"
	"path/filepath"
	"sort"
	"strconv"
	"strings"
)

var fset = token.NewFileSet()

func parse(path string) *ast.File {
	f, err := parser.ParseFile(fset, path, nil, 0)
	if err != nil {
		fmt.Fprintln(os.Stderr, "parse:", err)
		os.Exit(1)
	}
	return f
}

// constant values (integer literals / products of literals / iota enumerations)
func evalInt(e ast.Expr) (int64, bool) {
	switch v := e.(type) {
	case *ast.BasicLit:
		if v.Kind == token.INT {
			n, err := strconv.ParseInt(v.Value, 0, 64)
			return n, err == nil
		}
	case *ast.BinaryExpr:
		a, ok1 := evalInt(v.X)
		b, ok2 := evalInt(v.Y)
		if ok1 && ok2 {
			switch v.Op {
			case token.MUL:
				return a * b, true
			case token.ADD:
				return a + b, true
			case token.SUB:
				return a - b, true
			}
		}
	case *ast.ParenExpr:
		return evalInt(v.X)
	}
	return 0, false
}

func consts(f *ast.File) (ints map[string]int64, enums [][]string) {
	ints = map[string]int64{}
	for _, d := range f.Decls {
		gd, ok := d.(*ast.GenDecl)
		if !ok || gd.Tok != token.CONST {
			continue
		}
		var enum []string
		isIota := false
		for i, s := range gd.Specs {
			vs := s.(*ast.ValueSpec)
			if i == 0 && len(vs.Values) == 1 {
				if id, ok := vs.Values[0].(*ast.Ident); ok && id.Name == "iota" {
					isIota = true
				}
			}
			if isIota {
				for _, n := range vs.Names {
					enum = append(enum, n.Name)
				}
				continue
			}
			for j, n := range vs.Names {
				if j < len(vs.Values) {
					if v, ok := evalInt(vs.Values[j]); ok {
						ints[n.Name] = v
					}
				}
			}
		}
		if isIota {
			enums = append(enums, enum)
		}
	}
	return
}

func exprString(e ast.Expr) string {
	switch v := e.(type) {
	case *ast.Ident:
		return v.Name
	case *ast.SelectorExpr:
		return exprString(v.X) + "." + v.Sel.Name
	case *ast.CallExpr:
		return exprString(v.Fun) + "()"
	case *ast.UnaryExpr:
		return v.Op.String() + exprString(v.X)
	case *ast.IndexExpr:
		return exprString(v.X) + "[" + exprString(v.Index) + "]"
	case *ast.StarExpr:
		return "*" + exprString(v.X)
	}
	return "?"
}

// callName returns e.g. "rb.mu.Lock" for the statement `rb.mu.Lock()`.
func callName(s ast.Stmt) string {
	if es, ok := s.(*ast.ExprStmt); ok {
		if c, ok := es.X.(*ast.CallExpr); ok {
			return exprString(c.Fun)
		}
	}
	return ""
}

func deferName(s ast.Stmt) string {
	if ds, ok := s.(*ast.DeferStmt); ok {
		return exprString(ds.Call.Fun)
	}
	return ""
}

func recvName(fd *ast.FuncDecl) string {
	if fd.Recv == nil || len(fd.Recv.List) == 0 || len(fd.Recv.List[0].Names) == 0 {
		return ""
	}
	return fd.Recv.List[0].Names[0].Name
}

func recvType(fd *ast.FuncDecl) string {
	if fd.Recv == nil || len(fd.Recv.List) == 0 {
		return ""
	}
	t := fd.Recv.List[0].Type
	if s, ok := t.(*ast.StarExpr); ok {
		t = s.X
	}
	switch v := t.(type) {
	case *ast.Ident:
		return v.Name
	case *ast.IndexExpr:
		return exprString(v.X)
	case *ast.IndexListExpr:
		return exprString(v.X)
	}
	return ""
}

// ---------------------------------------------------------------------------------------------
// Critical-section analysis (semantic rather than syntactic, so that harmless rewrites — a deferred
// unlock, a local declared before the lock, a helper that holds the lock, an alias of a field used
// inside the section — do not change the facts).
//
// A method "is one critical section" iff on every path through its body
//   * the receiver's mutex is acquired at most once and, if acquired, released (explicitly before
//     the path ends, or by a deferred unlock), never twice;
//   * every access to a field of the receiver other than the mutex, and every use of a local that
//     aliases such a field, happens while the mutex is held;
//   * a call of another method of the receiver while the mutex is held goes to a method that does
//     not lock; a call while it is not held goes to a method that is itself one critical section
//     and then counts as this method's section;
//   * exactly one section in total.

type csState int

const (
	csBefore csState = iota
	csHeld
	csAfter
)

type csEvent struct {
	kind string // "read:<field>", "write:<field>", "call:<name>"
	st   csState
}

type csAn struct {
	recv     string
	meths    map[string]*ast.FuncDecl
	ok       bool
	deferred bool
	sections int
	unlock   string
	rlocked  bool // the section is held with RLock: shared state may be read, not written
	tainted  map[string]bool
	events   []csEvent
	depth    int
	mutable  map[string]bool // fields written by some method; others are set once at construction
}

// mutableFields: the receiver fields that some method of the type writes (assignment through the field or
// through a local alias of it, ++/--, delete, an atomic update through its address) or aliases into a local.
func mutableFields(meths map[string]*ast.FuncDecl) map[string]bool {
	out := map[string]bool{}
	for _, fd := range meths {
		a := &csAn{recv: recvName(fd), tainted: map[string]bool{}}
		alias := map[string]string{}
		root := func(e ast.Expr) string {
			f := a.rootField(e)
			if strings.HasPrefix(f, "~") {
				return alias[f[1:]]
			}
			return f
		}
		ast.Inspect(fd.Body, func(x ast.Node) bool {
			switch v := x.(type) {
			case *ast.AssignStmt:
				for i, l := range v.Lhs {
					if id, isId := l.(*ast.Ident); isId {
						if i < len(v.Rhs) && len(v.Lhs) == len(v.Rhs) && a.pureAlias(v.Rhs[i]) {
							f := root(v.Rhs[i])
							a.tainted[id.Name] = true
							alias[id.Name] = f
							out[f] = true
						}
						continue
					}
					if f := root(l); f != "" {
						out[f] = true
					}
				}
			case *ast.IncDecStmt:
				if f := root(v.X); f != "" {
					out[f] = true
				}
			case *ast.CallExpr:
				n := exprString(v.Fun)
				if n == "delete" && len(v.Args) > 0 {
					if f := root(v.Args[0]); f != "" {
						out[f] = true
					}
				}
				if strings.HasPrefix(n, "atomic.") && len(v.Args) > 0 {
					if u, ok := v.Args[0].(*ast.UnaryExpr); ok && u.Op == token.AND {
						if f := root(u.X); f != "" {
							out[f] = true
						}
					}
				}
				if se, ok := v.Fun.(*ast.SelectorExpr); ok { // typed atomics: r.f.Add / Store / Swap / CompareAndSwap
					switch se.Sel.Name {
					case "Add", "Store", "Swap", "CompareAndSwap":
						if f := root(se.X); f != "" {
							out[f] = true
						}
					}
				}
			}
			return true
		})
	}
	delete(out, "mu")
	return out
}

func (a *csAn) isLock(name string) (string, bool) {
	switch name {
	case a.recv + ".mu.Lock":
		return a.recv + ".mu.Unlock", true
	case a.recv + ".mu.RLock":
		return a.recv + ".mu.RUnlock", true
	}
	return "", false
}

// rootField returns the receiver field an expression is rooted at ("content" for rb.content.items[i]),
// or a tainted local's name prefixed with "~".
func (a *csAn) rootField(e ast.Expr) string {
	switch v := e.(type) {
	case *ast.SelectorExpr:
		if id, ok := v.X.(*ast.Ident); ok && id.Name == a.recv {
			return v.Sel.Name
		}
		return a.rootField(v.X)
	case *ast.IndexExpr:
		return a.rootField(v.X)
	case *ast.StarExpr:
		return a.rootField(v.X)
	case *ast.ParenExpr:
		return a.rootField(v.X)
	case *ast.UnaryExpr:
		return a.rootField(v.X)
	case *ast.Ident:
		if a.tainted[v.Name] {
			return "~" + v.Name
		}
	}
	return ""
}

// pureAlias: the expression is a selector chain (no index, no call) rooted at a receiver field or a
// tainted local: assigning it to a local makes that local an alias of shared state.
func (a *csAn) pureAlias(e ast.Expr) bool {
	switch v := e.(type) {
	case *ast.SelectorExpr:
		if id, ok := v.X.(*ast.Ident); ok && id.Name == a.recv {
			return v.Sel.Name != "mu" && (a.mutable == nil || a.mutable[v.Sel.Name])
		}
		return a.pureAlias(v.X)
	case *ast.Ident:
		return a.tainted[v.Name]
	case *ast.ParenExpr:
		return a.pureAlias(v.X)
	case *ast.UnaryExpr:
		return v.Op == token.AND && a.pureAlias(v.X)
	}
	return false
}

// check records every shared access inside node n made in state st.
func (a *csAn) check(n ast.Node, st csState) {
	if n == nil {
		return
	}
	ast.Inspect(n, func(x ast.Node) bool {
		switch v := x.(type) {
		case *ast.CallExpr:
			name := exprString(v.Fun)
			if se, ok := v.Fun.(*ast.SelectorExpr); ok {
				if id, ok := se.X.(*ast.Ident); ok && id.Name == a.recv {
					if callee, isM := a.meths[se.Sel.Name]; isM {
						a.callMethod(callee, st)
						for _, arg := range v.Args {
							a.check(arg, st)
						}
						return false
					}
				}
			}
			if _, isL := a.isLock(name); isL || name == a.recv+".mu.Unlock" || name == a.recv+".mu.RUnlock" {
				// a lock operation buried in an expression or nested statement we do not understand
				a.ok = false
				return false
			}
			if name == "delete" && len(v.Args) > 0 && a.rootField(v.Args[0]) != "" {
				a.events = append(a.events, csEvent{"write:" + a.rootField(v.Args[0]), st})
				if st != csHeld || a.rlocked {
					a.ok = false // delete(map, key) on shared state outside the section, or under a read lock
				}
			}
			a.events = append(a.events, csEvent{"call:" + name, st})
		case *ast.SelectorExpr:
			if id, ok := v.X.(*ast.Ident); ok && id.Name == a.recv {
				if v.Sel.Name != "mu" && a.mutable[v.Sel.Name] {
					a.events = append(a.events, csEvent{"read:" + v.Sel.Name, st})
					if st != csHeld {
						a.ok = false
					}
				}
				return false
			}
		case *ast.Ident:
			if a.tainted[v.Name] {
				if st != csHeld {
					a.ok = false
				}
			}
		}
		return true
	})
}

func hasLockCall(fd *ast.FuncDecl) bool {
	found := false
	ast.Inspect(fd.Body, func(x ast.Node) bool {
		if c, ok := x.(*ast.CallExpr); ok {
			n := exprString(c.Fun)
			if strings.HasSuffix(n, ".mu.Lock") || strings.HasSuffix(n, ".mu.RLock") {
				found = true
			}
		}
		return true
	})
	return found
}

func (a *csAn) callMethod(callee *ast.FuncDecl, st csState) {
	if a.depth > 3 {
		a.ok = false
		return
	}
	if st == csHeld {
		if hasLockCall(callee) {
			a.ok = false // would self-deadlock / is not one section
			return
		}
		// the callee runs inside this section: its accesses are accesses made while held
		sub := &csAn{recv: recvName(callee), meths: a.meths, ok: true, tainted: map[string]bool{}, depth: a.depth + 1, mutable: a.mutable}
		sub.walk(callee.Body.List, csHeld)
		for _, e := range sub.events {
			a.events = append(a.events, csEvent{e.kind, csHeld})
		}
		return
	}
	// not held: the callee must be one critical section on its own, which becomes ours
	sub := analyse(callee, a.meths, a.depth+1)
	if !sub.ok || sub.sections != 1 {
		a.ok = false
		return
	}
	if st == csAfter {
		a.ok = false // a second section
		return
	}
	a.sections++
	for _, e := range sub.events {
		a.events = append(a.events, e)
	}
}

// walk interprets a statement list from state st; it returns the state at the end and whether every
// path through the list ended in a return.
func (a *csAn) walk(list []ast.Stmt, st csState) (csState, bool) {
	for _, s := range list {
		switch v := s.(type) {
		case *ast.ExprStmt:
			name := callName(v)
			if un, isL := a.isLock(name); isL {
				if st != csBefore {
					a.ok = false
				}
				st = csHeld
				a.unlock = un
				a.rlocked = strings.HasSuffix(name, ".RLock")
				a.sections++
				continue
			}
			if a.unlock != "" && name == a.unlock {
				if st != csHeld || a.deferred {
					a.ok = false
				}
				st = csAfter
				continue
			}
			if name == a.recv+".mu.Unlock" || name == a.recv+".mu.RUnlock" {
				a.ok = false
				continue
			}
			// a call of a receiver method that is a whole critical section moves us past our section
			before := a.sections
			a.check(v.X, st)
			if a.sections > before && st == csBefore {
				st = csAfter
			}
		case *ast.DeferStmt:
			if a.unlock != "" && exprString(v.Call.Fun) == a.unlock {
				if st != csHeld {
					a.ok = false
				}
				a.deferred = true
				continue
			}
			a.check(v.Call, csAfter) // runs at return: treated as outside the section
		case *ast.ReturnStmt:
			before := a.sections
			for _, r := range v.Results {
				a.check(r, st)
			}
			if a.sections > before && st == csBefore {
				st = csAfter
			}
			if st == csHeld && !a.deferred {
				a.ok = false // returns with the mutex held
			}
			return st, true
		case *ast.AssignStmt:
			before := a.sections
			for _, r := range v.Rhs {
				a.check(r, st)
			}
			for i, l := range v.Lhs {
				if id, isId := l.(*ast.Ident); isId {
					if i < len(v.Rhs) && len(v.Lhs) == len(v.Rhs) && a.pureAlias(v.Rhs[i]) {
						a.tainted[id.Name] = true
					}
					continue
				}
				if f := a.rootField(l); f != "" {
					a.events = append(a.events, csEvent{"write:" + f, st})
					if st != csHeld || a.rlocked {
						a.ok = false // a write outside the section, or under a read lock
					}
				}
				a.check(l, st)
			}
			if a.sections > before && st == csBefore {
				st = csAfter
			}
		case *ast.IncDecStmt:
			if f := a.rootField(v.X); f != "" {
				a.events = append(a.events, csEvent{"write:" + f, st})
				if st != csHeld || a.rlocked {
					a.ok = false
				}
			}
			a.check(v.X, st)
		case *ast.DeclStmt:
			a.check(v, st)
		case *ast.IfStmt:
			if v.Init != nil {
				st, _ = a.walk([]ast.Stmt{v.Init}, st)
			}
			before := a.sections
			a.check(v.Cond, st)
			if a.sections > before && st == csBefore {
				st = csAfter
			}
			s1, t1 := a.walk(v.Body.List, st)
			s2, t2 := st, false
			switch e := v.Else.(type) {
			case *ast.BlockStmt:
				s2, t2 = a.walk(e.List, st)
			case *ast.IfStmt:
				s2, t2 = a.walk([]ast.Stmt{e}, st)
			}
			switch {
			case t1 && t2:
				return st, true
			case t1:
				st = s2
			case t2:
				st = s1
			default:
				if s1 != s2 {
					a.ok = false
				}
				st = s1
			}
		case *ast.ForStmt:
			if v.Init != nil {
				st, _ = a.walk([]ast.Stmt{v.Init}, st)
			}
			a.check(v.Cond, st)
			if v.Post != nil {
				a.walk([]ast.Stmt{v.Post}, st)
			}
			s1, t1 := a.walk(v.Body.List, st)
			if !t1 && s1 != st {
				a.ok = false
			}
		case *ast.RangeStmt:
			a.check(v.X, st)
			s1, t1 := a.walk(v.Body.List, st)
			if !t1 && s1 != st {
				a.ok = false
			}
		case *ast.BlockStmt:
			var t bool
			st, t = a.walk(v.List, st)
			if t {
				return st, true
			}
		case *ast.SwitchStmt:
			if v.Init != nil {
				st, _ = a.walk([]ast.Stmt{v.Init}, st)
			}
			a.check(v.Tag, st)
			st = a.clauses(v.Body.List, st)
		case *ast.TypeSwitchStmt:
			a.check(v.Assign, st)
			st = a.clauses(v.Body.List, st)
		case *ast.BranchStmt, *ast.EmptyStmt:
		default:
			a.check(s, st)
		}
	}
	return st, false
}

func (a *csAn) clauses(list []ast.Stmt, st csState) csState {
	out, have := st, false
	for _, c := range list {
		cc, ok := c.(*ast.CaseClause)
		if !ok {
			a.ok = false
			continue
		}
		for _, e := range cc.List {
			a.check(e, st)
		}
		s1, t1 := a.walk(cc.Body, st)
		if t1 {
			continue
		}
		if have && s1 != out {
			a.ok = false
		}
		out, have = s1, true
	}
	if have && out != st {
		// without a default clause the switch may also be skipped entirely
		a.ok = false
	}
	return st
}

func analyse(fd *ast.FuncDecl, meths map[string]*ast.FuncDecl, depth int) *csAn {
	a := &csAn{recv: recvName(fd), meths: meths, ok: true, tainted: map[string]bool{}, depth: depth, mutable: mutableFields(meths)}
	st, term := a.walk(fd.Body.List, csBefore)
	if !term && st == csHeld && !a.deferred {
		a.ok = false
	}
	return a
}

func lockShapeM(fd *ast.FuncDecl, meths map[string]*ast.FuncDecl) bool {
	a := analyse(fd, meths, 0)
	return a.ok && a.sections == 1
}

func methods(f *ast.File, typ string) map[string]*ast.FuncDecl {
	out := map[string]*ast.FuncDecl{}
	for _, d := range f.Decls {
		if fd, ok := d.(*ast.FuncDecl); ok && fd.Body != nil && recvType(fd) == typ {
			out[fd.Name.Name] = fd
		}
	}
	return out
}

// Len() makes exactly one access to shared state: an atomic load of the counter, without the mutex.
func lenIsAtomicLoad(fd *ast.FuncDecl) bool {
	if fd == nil {
		return false
	}
	r := recvName(fd)
	loads, others := 0, 0
	ast.Inspect(fd.Body, func(x ast.Node) bool {
		switch v := x.(type) {
		case *ast.CallExpr:
			n := exprString(v.Fun)
			if n == "atomic.LoadInt64" && len(v.Args) == 1 && exprString(v.Args[0]) == "&"+r+".len" {
				loads++
				return false
			}
			if n == r+".len.Load" {
				loads++
				return false
			}
		case *ast.SelectorExpr:
			if id, ok := v.X.(*ast.Ident); ok && id.Name == r {
				others++
				return false
			}
		}
		return true
	})
	return loads == 1 && others == 0
}

// every write of rb.len in the file goes through atomic.AddInt64 (no plain assignment).
func lenOnlyAtomicWrites(f *ast.File) bool {
	ok := true
	ast.Inspect(f, func(n ast.Node) bool {
		switch v := n.(type) {
		case *ast.AssignStmt:
			for _, l := range v.Lhs {
				if strings.HasSuffix(exprString(l), ".len") {
					ok = false
				}
			}
		case *ast.IncDecStmt:
			if strings.HasSuffix(exprString(v.X), ".len") {
				ok = false
			}
		}
		return true
	})
	return ok
}

// Registry.add: exactly one critical section, in which the table is both tested and written; the
// process is started after the section (never inside it). The section may be inline or a helper.
func registryAddAtomic(fd *ast.FuncDecl, meths map[string]*ast.FuncDecl) bool {
	if fd == nil {
		return false
	}
	a := analyse(fd, meths, 0)
	if !a.ok || a.sections != 1 {
		return false
	}
	read, write, startAfter, startElsewhere := false, false, false, false
	for _, e := range a.events {
		switch {
		case e.kind == "read:lookup" && e.st == csHeld:
			read = true
		case e.kind == "write:lookup" && e.st == csHeld:
			write = true
		case strings.HasPrefix(e.kind, "call:") && strings.HasSuffix(e.kind, ".Start"):
			if e.st == csAfter {
				startAfter = true
			} else {
				startElsewhere = true
			}
		}
	}
	return read && write && startAfter && !startElsewhere
}

// number of updates of the length counter a call of the method performs syntactically
// (atomic.AddInt64(&<recv>.len, …) or <recv>.len.Add(…)), following calls to other methods of the receiver
func lenAddsM(fd *ast.FuncDecl, meths map[string]*ast.FuncDecl, depth int) int {
	if fd == nil || depth > 3 {
		return -1
	}
	r := recvName(fd)
	n := 0
	ast.Inspect(fd.Body, func(x ast.Node) bool {
		if c, ok := x.(*ast.CallExpr); ok {
			name := exprString(c.Fun)
			if name == "atomic.AddInt64" && len(c.Args) == 2 && exprString(c.Args[0]) == "&"+r+".len" {
				n++
			} else if name == r+".len.Add" {
				n++
			} else if se, ok := c.Fun.(*ast.SelectorExpr); ok {
				if id, ok := se.X.(*ast.Ident); ok && id.Name == r {
					if callee, isM := meths[se.Sel.Name]; isM {
						if k := lenAddsM(callee, meths, depth+1); k > 0 {
							n += k
						}
					}
				}
			}
		}
		return true
	})
	return n
}

// registryMuPrivate: no file of package actor other than registry.go touches the registry's mutex (…Registry.mu…): the
// critical sections of the registry are exactly the methods analysed above, and nobody can hold the lock across other calls.
func registryMuPrivate(dir string) bool {
	entries, err := os.ReadDir(dir)
	if err != nil {
		return false
	}
	ok := true
	for _, e := range entries {
		n := e.Name()
		if e.IsDir() || !strings.HasSuffix(n, ".go") || strings.HasSuffix(n, "_test.go") || n == "registry.go" {
			continue
		}
		f := parse(filepath.Join(dir, n))
		ast.Inspect(f, func(x ast.Node) bool {
			if se, isS := x.(*ast.SelectorExpr); isS && se.Sel.Name == "mu" {
				if strings.HasSuffix(exprString(se.X), "Registry") {
					ok = false
				}
			}
			return true
		})
	}
	return ok
}

func leanStr(s string) string { return strconv.Quote(s) }

func leanBool(b bool) string {
	if b {
		return "true"
	}
	return "false"
}

func shapeList(ms map[string]*ast.FuncDecl, names []string) string {
	var parts []string
	for _, n := range names {
		fd, ok := ms[n]
		parts = append(parts, fmt.Sprintf("(%s, %s)", leanStr(n), leanBool(ok && lockShapeM(fd, ms))))
	}
	return "[" + strings.Join(parts, ", ") + "]"
}

func main() {
	repo := flag.String("repo", "/repo", "repository root")
	out := flag.String("o", "Facts.lean", "output file")
	flag.Parse()

	inbox := parse(filepath.Join(*repo, "actor/inbox.go"))
	opts := parse(filepath.Join(*repo, "actor/opts.go"))
	ring := parse(filepath.Join(*repo, "ringbuffer/ringbuffer.go"))
	reg := parse(filepath.Join(*repo, "actor/registry.go"))
	sm := parse(filepath.Join(*repo, "safemap/safemap.go"))
	sw := parse(filepath.Join(*repo, "remote/stream_writer.go"))

	ic, ienums := consts(inbox)
	oc, _ := consts(opts)
	swc, _ := consts(sw)
	var status []string
	for _, e := range ienums {
		for _, n := range e {
			if n == "stopped" {
				status = e
			}
		}
	}
	var sq []string
	for _, s := range status {
		sq = append(sq, leanStr(s))
	}

	rm := methods(ring, "RingBuffer")
	gm := methods(reg, "Registry")
	mm := methods(sm, "SafeMap")
	var smNames []string
	for n := range mm {
		smNames = append(smNames, n)
	}
	sort.Strings(smNames)

	var b strings.Builder
	b.WriteString("/- GENERATED by harness/extract from the repository source on every check run. Do not edit. -/\n")
	b.WriteString("namespace HW.Generated\n\n")
	fmt.Fprintf(&b, "def messageBatchSize : Nat := %d\n", ic["messageBatchSize"])
	fmt.Fprintf(&b, "def statusOrder : List String := [%s]\n", strings.Join(sq, ", "))
	fmt.Fprintf(&b, "def defaultInboxSize : Nat := %d\n", oc["defaultInboxSize"])
	fmt.Fprintf(&b, "def defaultMaxRestarts : Nat := %d\n", oc["defaultMaxRestarts"])
	fmt.Fprintf(&b, "def streamWriterBatchSize : Nat := %d\n", swc["streamWriterBatchSize"])
	fmt.Fprintf(&b, "/-- every RingBuffer method named here is one critical section of rb.mu -/\n")
	fmt.Fprintf(&b, "def ringLockShape : List (String × Bool) := %s\n", shapeList(rm, []string{"Push", "Pop", "PopN"}))
	fmt.Fprintf(&b, "def ringLenIsAtomicLoad : Bool := %s\n", leanBool(lenIsAtomicLoad(rm["Len"])))
	fmt.Fprintf(&b, "/-- how many times each method updates the length counter (its linearization point) -/\n")
	fmt.Fprintf(&b, "def ringLenAdds : List (String × Nat) := [(\"Push\", %d), (\"Pop\", %d), (\"PopN\", %d)]\n", lenAddsM(rm["Push"], rm, 0), lenAddsM(rm["Pop"], rm, 0), lenAddsM(rm["PopN"], rm, 0))
	fmt.Fprintf(&b, "def ringLenOnlyAtomicWrites : Bool := %s\n", leanBool(lenOnlyAtomicWrites(ring)))
	fmt.Fprintf(&b, "def registryLockShape : List (String × Bool) := %s\n", shapeList(gm, []string{"Remove", "get", "getByID"}))
	fmt.Fprintf(&b, "/-- Registry.add tests and inserts under one critical section and starts the process after it -/\n")
	fmt.Fprintf(&b, "def registryAddAtomic : Bool := %s\n", leanBool(registryAddAtomic(gm["add"], gm)))
	fmt.Fprintf(&b, "/-- no file of package actor other than registry.go touches Registry.mu -/\n")
	fmt.Fprintf(&b, "def registryMuPrivate : Bool := %s\n", leanBool(registryMuPrivate(filepath.Join(*repo, "actor"))))
	fmt.Fprintf(&b, "def safemapLockShape : List (String × Bool) := %s\n", shapeList(mm, smNames))
	b.WriteString("\nend HW.Generated\n")
	if err := os.WriteFile(*out, []byte(b.String()), 0o644); err != nil {
		fmt.Fprintln(os.Stderr, err)
		os.Exit(1)
	}
}
