// extract regenerates lean/HW/Generated/Facts.lean from the repository source (go/ast only):
// the constants the Lean model is parametric in, and the locking-shape facts that no dynamic
// run can observe reliably. HW/Props/Facts.lean proves Generated = Expected by `decide`.
package main

import (
	"flag"
	"fmt"
	"go/ast"
	"go/parser"
	"go/token"
	"os"
	"path/filepath"
	"sort"
	"strconv"
	"strings"
)

var fset = token.NewFileSet()

func parse(path string) *ast.File {
	f, err := parser.ParseFile(fset, path, nil, 0)
	if err != nil {
		fmt.Fprintln(os.Stderr, "parse:", err)
		os.Exit(1)
	}
	return f
}

// constant values (integer literals / products of literals / iota enumerations)
func evalInt(e ast.Expr) (int64, bool) {
	switch v := e.(type) {
	case *ast.BasicLit:
		if v.Kind == token.INT {
			n, err := strconv.ParseInt(v.Value, 0, 64)
			return n, err == nil
		}
	case *ast.BinaryExpr:
		a, ok1 := evalInt(v.X)
		b, ok2 := evalInt(v.Y)
		if ok1 && ok2 {
			switch v.Op {
			case token.MUL:
				return a * b, true
			case token.ADD:
				return a + b, true
			case token.SUB:
				return a - b, true
			}
		}
	case *ast.ParenExpr:
		return evalInt(v.X)
	}
	return 0, false
}

func consts(f *ast.File) (ints map[string]int64, enums [][]string) {
	ints = map[string]int64{}
	for _, d := range f.Decls {
		gd, ok := d.(*ast.GenDecl)
		if !ok || gd.Tok != token.CONST {
			continue
		}
		var enum []string
		isIota := false
		for i, s := range gd.Specs {
			vs := s.(*ast.ValueSpec)
			if i == 0 && len(vs.Values) == 1 {
				if id, ok := vs.Values[0].(*ast.Ident); ok && id.Name == "iota" {
					isIota = true
				}
			}
			if isIota {
				for _, n := range vs.Names {
					enum = append(enum, n.Name)
				}
				continue
			}
			for j, n := range vs.Names {
				if j < len(vs.Values) {
					if v, ok := evalInt(vs.Values[j]); ok {
						ints[n.Name] = v
					}
				}
			}
		}
		if isIota {
			enums = append(enums, enum)
		}
	}
	return
}

func exprString(e ast.Expr) string {
	switch v := e.(type) {
	case *ast.Ident:
		return v.Name
	case *ast.SelectorExpr:
		return exprString(v.X) + "." + v.Sel.Name
	case *ast.CallExpr:
		return exprString(v.Fun) + "()"
	case *ast.UnaryExpr:
		return v.Op.String() + exprString(v.X)
	case *ast.IndexExpr:
		return exprString(v.X) + "[" + exprString(v.Index) + "]"
	case *ast.StarExpr:
		return "*" + exprString(v.X)
	}
	return "?"
}

// callName returns e.g. "rb.mu.Lock" for the statement `rb.mu.Lock()`.
func callName(s ast.Stmt) string {
	if es, ok := s.(*ast.ExprStmt); ok {
		if c, ok := es.X.(*ast.CallExpr); ok {
			return exprString(c.Fun)
		}
	}
	return ""
}

func deferName(s ast.Stmt) string {
	if ds, ok := s.(*ast.DeferStmt); ok {
		return exprString(ds.Call.Fun)
	}
	return ""
}

func recvName(fd *ast.FuncDecl) string {
	if fd.Recv == nil || len(fd.Recv.List) == 0 || len(fd.Recv.List[0].Names) == 0 {
		return ""
	}
	return fd.Recv.List[0].Names[0].Name
}

func recvType(fd *ast.FuncDecl) string {
	if fd.Recv == nil || len(fd.Recv.List) == 0 {
		return ""
	}
	t := fd.Recv.List[0].Type
	if s, ok := t.(*ast.StarExpr); ok {
		t = s.X
	}
	switch v := t.(type) {
	case *ast.Ident:
		return v.Name
	case *ast.IndexExpr:
		return exprString(v.X)
	case *ast.IndexListExpr:
		return exprString(v.X)
	}
	return ""
}

// lockShape: the body starts with <recv>.mu.Lock()/RLock() and either defers the matching unlock
// right away, or every return statement is immediately preceded by the unlock (and a body that
// falls off its end finishes with the unlock), with no other unlock anywhere.
func lockShape(fd *ast.FuncDecl) bool {
	r := recvName(fd)
	body := fd.Body.List
	// a leading `if param == nil { return ... }` guard touches no shared state
	for len(body) > 0 {
		is, ok := body[0].(*ast.IfStmt)
		if !ok || is.Init != nil || is.Else != nil || len(is.Body.List) != 1 {
			break
		}
		be, ok := is.Cond.(*ast.BinaryExpr)
		if !ok || be.Op != token.EQL || exprString(be.Y) != "nil" {
			break
		}
		if _, isRet := is.Body.List[0].(*ast.ReturnStmt); !isRet {
			break
		}
		body = body[1:]
	}
	if len(body) == 0 {
		return false
	}
	var unlock string
	switch callName(body[0]) {
	case r + ".mu.Lock":
		unlock = r + ".mu.Unlock"
	case r + ".mu.RLock":
		unlock = r + ".mu.RUnlock"
	default:
		return false
	}
	if len(body) > 1 && deferName(body[1]) == unlock {
		// no explicit unlock may follow
		ok := true
		ast.Inspect(&ast.BlockStmt{List: body}, func(n ast.Node) bool {
			if es, isE := n.(*ast.ExprStmt); isE && callName(es) == unlock {
				ok = false
			}
			return true
		})
		return ok
	}
	unlocks, good := 0, 0
	ok := true
	var walk func(list []ast.Stmt, top bool)
	walk = func(list []ast.Stmt, top bool) {
		for i, s := range list {
			if callName(s) == unlock {
				unlocks++
				// must be followed by a return, or be the last statement of the top-level body
				if i+1 < len(list) {
					if _, isRet := list[i+1].(*ast.ReturnStmt); isRet {
						good++
					} else if isVarDeclOnly(list[i+1:]) {
						good++
					}
				} else if top {
					good++
				}
			}
			if _, isRet := s.(*ast.ReturnStmt); isRet {
				if !precededByUnlock(list, i, unlock) {
					ok = false
				}
			}
			switch v := s.(type) {
			case *ast.IfStmt:
				walk(v.Body.List, false)
				if eb, isB := v.Else.(*ast.BlockStmt); isB {
					walk(eb.List, false)
				}
			case *ast.ForStmt:
				walk(v.Body.List, false)
			case *ast.RangeStmt:
				walk(v.Body.List, false)
			case *ast.BlockStmt:
				walk(v.List, false)
			}
		}
	}
	walk(body, true)
	if _, endsInReturn := body[len(body)-1].(*ast.ReturnStmt); !endsInReturn {
		if callName(body[len(body)-1]) != unlock {
			ok = false
		}
	}
	return ok && unlocks > 0 && unlocks == good
}

// `var t T` declarations between the unlock and the return do not touch shared state.
func isVarDeclOnly(list []ast.Stmt) bool {
	for i, s := range list {
		if _, isRet := s.(*ast.ReturnStmt); isRet {
			return i > 0
		}
		ds, ok := s.(*ast.DeclStmt)
		if !ok {
			return false
		}
		gd, ok := ds.Decl.(*ast.GenDecl)
		if !ok || gd.Tok != token.VAR {
			return false
		}
		for _, sp := range gd.Specs {
			if len(sp.(*ast.ValueSpec).Values) != 0 {
				return false
			}
		}
	}
	return false
}

func precededByUnlock(list []ast.Stmt, i int, unlock string) bool {
	for j := i - 1; j >= 0; j-- {
		if callName(list[j]) == unlock {
			return true
		}
		ds, ok := list[j].(*ast.DeclStmt)
		if !ok {
			return false
		}
		gd, ok := ds.Decl.(*ast.GenDecl)
		if !ok || gd.Tok != token.VAR {
			return false
		}
	}
	return false
}

func methods(f *ast.File, typ string) map[string]*ast.FuncDecl {
	out := map[string]*ast.FuncDecl{}
	for _, d := range f.Decls {
		if fd, ok := d.(*ast.FuncDecl); ok && fd.Body != nil && recvType(fd) == typ {
			out[fd.Name.Name] = fd
		}
	}
	return out
}

// Len() is exactly `return atomic.LoadInt64(&rb.len)`.
func lenIsAtomicLoad(fd *ast.FuncDecl) bool {
	if fd == nil || len(fd.Body.List) != 1 {
		return false
	}
	rs, ok := fd.Body.List[0].(*ast.ReturnStmt)
	if !ok || len(rs.Results) != 1 {
		return false
	}
	c, ok := rs.Results[0].(*ast.CallExpr)
	if !ok || exprString(c.Fun) != "atomic.LoadInt64" || len(c.Args) != 1 {
		return false
	}
	return exprString(c.Args[0]) == "&"+recvName(fd)+".len"
}

// every write of rb.len in the file goes through atomic.AddInt64 (no plain assignment).
func lenOnlyAtomicWrites(f *ast.File) bool {
	ok := true
	ast.Inspect(f, func(n ast.Node) bool {
		switch v := n.(type) {
		case *ast.AssignStmt:
			for _, l := range v.Lhs {
				if strings.HasSuffix(exprString(l), ".len") {
					ok = false
				}
			}
		case *ast.IncDecStmt:
			if strings.HasSuffix(exprString(v.X), ".len") {
				ok = false
			}
		}
		return true
	})
	return ok
}

// Registry.add: Lock first; the duplicate test and the insertion are both before the first
// top-level Unlock; proc.Start() is after it.
func registryAddAtomic(fd *ast.FuncDecl) bool {
	if fd == nil {
		return false
	}
	r := recvName(fd)
	body := fd.Body.List
	if len(body) == 0 || callName(body[0]) != r+".mu.Lock" {
		return false
	}
	firstUnlock, check, insert, start := -1, -1, -1, -1
	for i, s := range body {
		if callName(s) == r+".mu.Unlock" && firstUnlock < 0 {
			firstUnlock = i
		}
		if is, ok := s.(*ast.IfStmt); ok && check < 0 {
			// `if _, ok := r.lookup[id]; ok {`
			if as, ok := is.Init.(*ast.AssignStmt); ok && len(as.Rhs) == 1 && strings.HasPrefix(exprString(as.Rhs[0]), r+".lookup[") {
				check = i
			}
		}
		if as, ok := s.(*ast.AssignStmt); ok && len(as.Lhs) == 1 && strings.HasPrefix(exprString(as.Lhs[0]), r+".lookup[") {
			insert = i
		}
		if strings.HasSuffix(callName(s), ".Start") {
			start = i
		}
	}
	return check > 0 && insert > check && firstUnlock > insert && start > firstUnlock
}

// number of atomic.AddInt64(&<recv>.len, …) calls in a method body
func lenAdds(fd *ast.FuncDecl) int {
	if fd == nil {
		return -1
	}
	n := 0
	ast.Inspect(fd.Body, func(x ast.Node) bool {
		if c, ok := x.(*ast.CallExpr); ok && exprString(c.Fun) == "atomic.AddInt64" && len(c.Args) == 2 &&
			exprString(c.Args[0]) == "&"+recvName(fd)+".len" {
			n++
		}
		return true
	})
	return n
}

func leanStr(s string) string { return strconv.Quote(s) }

func leanBool(b bool) string {
	if b {
		return "true"
	}
	return "false"
}

func shapeList(ms map[string]*ast.FuncDecl, names []string) string {
	var parts []string
	for _, n := range names {
		fd, ok := ms[n]
		parts = append(parts, fmt.Sprintf("(%s, %s)", leanStr(n), leanBool(ok && lockShape(fd))))
	}
	return "[" + strings.Join(parts, ", ") + "]"
}

func main() {
	repo := flag.String("repo", "/repo", "repository root")
	out := flag.String("o", "Facts.lean", "output file")
	flag.Parse()

	inbox := parse(filepath.Join(*repo, "actor/inbox.go"))
	opts := parse(filepath.Join(*repo, "actor/opts.go"))
	ring := parse(filepath.Join(*repo, "ringbuffer/ringbuffer.go"))
	reg := parse(filepath.Join(*repo, "actor/registry.go"))
	sm := parse(filepath.Join(*repo, "safemap/safemap.go"))
	sw := parse(filepath.Join(*repo, "remote/stream_writer.go"))

	ic, ienums := consts(inbox)
	oc, _ := consts(opts)
	swc, _ := consts(sw)
	var status []string
	for _, e := range ienums {
		for _, n := range e {
			if n == "stopped" {
				status = e
			}
		}
	}
	var sq []string
	for _, s := range status {
		sq = append(sq, leanStr(s))
	}

	rm := methods(ring, "RingBuffer")
	gm := methods(reg, "Registry")
	mm := methods(sm, "SafeMap")
	var smNames []string
	for n := range mm {
		smNames = append(smNames, n)
	}
	sort.Strings(smNames)

	var b strings.Builder
	b.WriteString("/- GENERATED by harness/extract from the repository source on every check run. Do not edit. -/\n")
	b.WriteString("namespace HW.Generated\n\n")
	fmt.Fprintf(&b, "def messageBatchSize : Nat := %d\n", ic["messageBatchSize"])
	fmt.Fprintf(&b, "def statusOrder : List String := [%s]\n", strings.Join(sq, ", "))
	fmt.Fprintf(&b, "def defaultInboxSize : Nat := %d\n", oc["defaultInboxSize"])
	fmt.Fprintf(&b, "def defaultMaxRestarts : Nat := %d\n", oc["defaultMaxRestarts"])
	fmt.Fprintf(&b, "def streamWriterBatchSize : Nat := %d\n", swc["streamWriterBatchSize"])
	fmt.Fprintf(&b, "/-- every RingBuffer method named here is one critical section of rb.mu -/\n")
	fmt.Fprintf(&b, "def ringLockShape : List (String × Bool) := %s\n", shapeList(rm, []string{"Push", "Pop", "PopN"}))
	fmt.Fprintf(&b, "def ringLenIsAtomicLoad : Bool := %s\n", leanBool(lenIsAtomicLoad(rm["Len"])))
	fmt.Fprintf(&b, "/-- how many times each method updates the length counter (its linearization point) -/\n")
	fmt.Fprintf(&b, "def ringLenAdds : List (String × Nat) := [(\"Push\", %d), (\"Pop\", %d), (\"PopN\", %d)]\n", lenAdds(rm["Push"]), lenAdds(rm["Pop"]), lenAdds(rm["PopN"]))
	fmt.Fprintf(&b, "def ringLenOnlyAtomicWrites : Bool := %s\n", leanBool(lenOnlyAtomicWrites(ring)))
	fmt.Fprintf(&b, "def registryLockShape : List (String × Bool) := %s\n", shapeList(gm, []string{"Remove", "get", "getByID"}))
	fmt.Fprintf(&b, "/-- Registry.add tests and inserts under one critical section and starts the process after it -/\n")
	fmt.Fprintf(&b, "def registryAddAtomic : Bool := %s\n", leanBool(registryAddAtomic(gm["add"])))
	fmt.Fprintf(&b, "def safemapLockShape : List (String × Bool) := %s\n", shapeList(mm, smNames))
	b.WriteString("\nend HW.Generated\n")
	if err := os.WriteFile(*out, []byte(b.String()), 0o644); err != nil {
		fmt.Fprintln(os.Stderr, err)
		os.Exit(1)
	}
}
