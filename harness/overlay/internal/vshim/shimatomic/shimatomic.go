// Package shimatomic replaces sync/atomic in the shimmed copies of the code under test:
// every operation is a scheduling point of vsched.
package shimatomic

import (
	"strconv"
	"sync/atomic"

	"github.com/anthdm/hollywood/internal/vshim/vsched"
)

func i(v int32) string { return strconv.Itoa(int(v)) }

func CompareAndSwapInt32(addr *int32, old, new int32) bool {
	vsched.Yield("cas(" + i(old) + "," + i(new) + ")")
	ok := atomic.CompareAndSwapInt32(addr, old, new)
	vsched.Result(strconv.FormatBool(ok))
	return ok
}

func LoadInt32(addr *int32) int32 {
	vsched.Yield("load")
	v := atomic.LoadInt32(addr)
	vsched.Result(i(v))
	return v
}

func SwapInt32(addr *int32, new int32) int32 {
	vsched.Yield("swap(" + i(new) + ")")
	v := atomic.SwapInt32(addr, new)
	vsched.Result(i(v))
	return v
}

func StoreInt32(addr *int32, v int32) {
	vsched.Yield("store(" + i(v) + ")")
	atomic.StoreInt32(addr, v)
	vsched.Result("")
}

func AddInt64(addr *int64, d int64) int64 {
	vsched.Yield("add(" + strconv.FormatInt(d, 10) + ")")
	v := atomic.AddInt64(addr, d)
	vsched.Result(strconv.FormatInt(v, 10))
	return v
}

func LoadInt64(addr *int64) int64 {
	vsched.Yield("len")
	v := atomic.LoadInt64(addr)
	vsched.Result(strconv.FormatInt(v, 10))
	return v
}


// typed atomics: the same scheduling points and labels as the function forms

type Int32 struct{ v int32 }

func (x *Int32) Load() int32                        { return LoadInt32(&x.v) }
func (x *Int32) Store(v int32)                      { StoreInt32(&x.v, v) }
func (x *Int32) Swap(v int32) int32                 { return SwapInt32(&x.v, v) }
func (x *Int32) CompareAndSwap(o, n int32) bool     { return CompareAndSwapInt32(&x.v, o, n) }

type Int64 struct{ v int64 }

func (x *Int64) Load() int64       { return LoadInt64(&x.v) }
func (x *Int64) Add(d int64) int64 { return AddInt64(&x.v, d) }

// passed through unchanged (no scheduling point)
type Bool = atomic.Bool
type Uint32 = atomic.Uint32
type Uint64 = atomic.Uint64
type Value = atomic.Value
