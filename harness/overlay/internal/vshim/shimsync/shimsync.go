// Package shimsync replaces sync in the shimmed copy of ringbuffer.go. Coarse granularity:
// acquiring the mutex is the scheduling point, the critical section runs without further yields
// (a thread is never parked while it holds the mutex).
package shimsync

import (
	"sync"

	"github.com/anthdm/hollywood/internal/vshim/vsched"
)

type Mutex struct{ mu sync.Mutex }

func (m *Mutex) Lock() {
	if vsched.IsFine() {
		for {
			vsched.Yield("lock")
			if m.mu.TryLock() {
				vsched.Result("ok")
				return
			}
			vsched.Result("busy")
		}
	}
	vsched.Yield("lock")
	m.mu.Lock()
	vsched.NoYieldEnter()
}

func (m *Mutex) Unlock() {
	if vsched.IsFine() {
		vsched.Yield("unlock")
		m.mu.Unlock()
		vsched.Result("")
		return
	}
	vsched.NoYieldExit()
	m.mu.Unlock()
	vsched.Result("")
	vsched.AfterUnlock()
}

// RWMutex: acquisition (read or write) is the scheduling point; the critical section runs
// without further yields.
type RWMutex struct{ mu sync.RWMutex }

func (m *RWMutex) Lock() {
	vsched.Yield("lock")
	m.mu.Lock()
	vsched.NoYieldEnter()
}

func (m *RWMutex) Unlock() {
	vsched.NoYieldExit()
	m.mu.Unlock()
	vsched.Result("")
	vsched.AfterUnlock()
}

func (m *RWMutex) RLock() {
	vsched.Yield("rlock")
	m.mu.RLock()
	vsched.NoYieldEnter()
}

func (m *RWMutex) RUnlock() {
	vsched.NoYieldExit()
	m.mu.RUnlock()
	vsched.Result("")
	vsched.AfterUnlock()
}
// everything else of package sync is passed through unchanged (no scheduling point)
type WaitGroup = sync.WaitGroup
type Once = sync.Once
type Pool = sync.Pool
type Map = sync.Map
type Cond = sync.Cond
type Locker = sync.Locker

func NewCond(l Locker) *Cond { return sync.NewCond(l) }
