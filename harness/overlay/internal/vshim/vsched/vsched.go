// Package vsched is a deterministic scheduler for goroutines of the code under test.
// Injected by /verif with `go test -overlay`; the shimmed copies of inbox.go / ringbuffer.go call
// Yield before every atomic operation and mutex acquisition. Goroutines that were not started
// through Controller.Go pass straight through.
package vsched

import (
	"runtime"
	"sync"
	"sync/atomic"
)

const (
	stRunning = iota
	stParked
	stDone
)

type thread struct {
	id      int
	wake    chan struct{}
	op      string // operation the thread is parked in front of
	res     string // result of the last operation it performed
	state   int
	noYield int
}

// Controller owns a set of controlled goroutines; exactly one of them runs at a time.
type Controller struct {
	mu      sync.Mutex
	cond    *sync.Cond
	byGoid  map[uint64]*thread
	threads []*thread
	trapped int
	// YieldAfterUnlock adds a scheduling point right after every mutex release ("unlocked"), so that whatever a
	// method still does after leaving its critical section can interleave with other threads. Set before Install.
	YieldAfterUnlock bool
	// Fine makes the mutex shim yield at every attempt to take the mutex (reporting ok / busy), at the release, and lets
	// the atomic operations INSIDE a critical section yield too (coarse mode runs a critical section as one step).
	Fine bool
}

// IsFine reports whether the calling goroutine is controlled by a controller in fine mode.
func IsFine() bool {
	c, th := self()
	return th != nil && c != nil && c.Fine
}

var current atomic.Pointer[Controller]

func New() *Controller {
	c := &Controller{byGoid: map[uint64]*thread{}, trapped: -1}
	c.cond = sync.NewCond(&c.mu)
	return c
}

// Install makes c the controller consulted by Yield; Uninstall removes it.
func (c *Controller) Install() { current.Store(c) }
func Uninstall()               { current.Store(nil) }

func goid() uint64 {
	var buf [64]byte
	n := runtime.Stack(buf[:], false)
	// "goroutine 123 ["
	var id uint64
	for i := len("goroutine "); i < n; i++ {
		ch := buf[i]
		if ch < '0' || ch > '9' {
			break
		}
		id = id*10 + uint64(ch-'0')
	}
	return id
}

// Go starts fn as a controlled goroutine and returns its thread id (ids are assigned in call order).
func (c *Controller) Go(fn func()) int {
	c.mu.Lock()
	th := &thread{id: len(c.threads), wake: make(chan struct{}), state: stRunning}
	c.threads = append(c.threads, th)
	c.mu.Unlock()
	go func() {
		g := goid()
		c.mu.Lock()
		c.byGoid[g] = th
		c.mu.Unlock()
		defer func() {
			c.mu.Lock()
			th.state = stDone
			delete(c.byGoid, g)
			c.cond.Broadcast()
			c.mu.Unlock()
		}()
		fn()
	}()
	return th.id
}

func self() (*Controller, *thread) {
	c := current.Load()
	if c == nil {
		return nil, nil
	}
	g := goid()
	c.mu.Lock()
	th := c.byGoid[g]
	c.mu.Unlock()
	return c, th
}

// trap: the next goroutine that is NOT under control and reaches operation `op` is adopted (becomes a
// controlled thread and parks there). Used to hold a goroutine the code under test started itself.
type trapState struct {
	c  *Controller
	op string
}

var trap atomic.Pointer[trapState]

// TrapNext arms the trap for operation op.
func (c *Controller) TrapNext(op string) { trap.Store(&trapState{c: c, op: op}) }

// Trapped returns the id of the adopted thread once a goroutine has been caught (-1 before).
func (c *Controller) Trapped() int {
	c.mu.Lock()
	defer c.mu.Unlock()
	return c.trapped
}

// Release lets an adopted thread run free again (it is no longer under control).
func (c *Controller) Release(id int) {
	c.mu.Lock()
	th := c.threads[id]
	for g, t := range c.byGoid {
		if t == th {
			delete(c.byGoid, g)
		}
	}
	th.state = stDone
	c.mu.Unlock()
	th.wake <- struct{}{}
}

func tryAdopt(op string) (*Controller, *thread) {
	t := trap.Load()
	if t == nil || t.op != op || !trap.CompareAndSwap(t, nil) {
		return nil, nil
	}
	c := t.c
	c.mu.Lock()
	th := &thread{id: len(c.threads), wake: make(chan struct{}), state: stRunning}
	c.threads = append(c.threads, th)
	c.byGoid[goid()] = th
	c.trapped = th.id
	c.mu.Unlock()
	return c, th
}

// Yield parks the calling goroutine in front of operation op until the controller schedules it.
func Yield(op string) {
	c, th := self()
	if th == nil {
		c, th = tryAdopt(op)
	}
	if th == nil || th.noYield > 0 {
		return
	}
	c.mu.Lock()
	th.op = op
	th.state = stParked
	c.cond.Broadcast()
	c.mu.Unlock()
	<-th.wake
}

// Result records the result of the operation just performed (shown in the step log).
func Result(res string) {
	_, th := self()
	if th == nil || th.noYield > 0 {
		return
	}
	th.res = res
}

// NoYieldEnter / NoYieldExit bracket a critical section that must run without scheduling points
// (coarse granularity: acquiring the mutex is the scheduling point).
func NoYieldEnter() {
	if _, th := self(); th != nil {
		th.noYield++
	}
}
func NoYieldExit() {
	if _, th := self(); th != nil {
		th.noYield--
	}
}

// AfterUnlock is called by the mutex shims after a release.
func AfterUnlock() {
	c, th := self()
	if th == nil || c == nil || !c.YieldAfterUnlock || th.noYield > 0 {
		return
	}
	Yield("unlocked")
	Result("")
}

// WaitSettled blocks until no controlled goroutine is running.
func (c *Controller) WaitSettled() {
	c.mu.Lock()
	for {
		running := false
		for _, th := range c.threads {
			if th.state == stRunning {
				running = true
				break
			}
		}
		if !running {
			break
		}
		c.cond.Wait()
	}
	c.mu.Unlock()
}

// Enabled returns the ids of the parked threads (all are enabled at coarse granularity).
func (c *Controller) Enabled() []int {
	c.mu.Lock()
	defer c.mu.Unlock()
	var out []int
	for _, th := range c.threads {
		if th.state == stParked {
			out = append(out, th.id)
		}
	}
	return out
}

// PendingOp returns the operation thread id is parked in front of ("" if not parked).
func (c *Controller) PendingOp(id int) string {
	c.mu.Lock()
	defer c.mu.Unlock()
	if id < len(c.threads) && c.threads[id].state == stParked {
		return c.threads[id].op
	}
	return ""
}

// CountParkedAt counts threads parked in front of one of the given operations.
func (c *Controller) CountParkedAt(ops ...string) int {
	c.mu.Lock()
	defer c.mu.Unlock()
	n := 0
	for _, th := range c.threads {
		if th.state == stParked {
			for _, o := range ops {
				if th.op == o {
					n++
				}
			}
		}
	}
	return n
}

// Step lets thread id perform exactly the operation it is parked in front of and run on to its
// next scheduling point (or its end). Returns the operation and its recorded result.
func (c *Controller) Step(id int) (op, res string) {
	c.mu.Lock()
	th := c.threads[id]
	if th.state != stParked {
		c.mu.Unlock()
		return "", "not-parked"
	}
	op = th.op
	th.res = ""
	th.state = stRunning
	c.mu.Unlock()
	th.wake <- struct{}{}
	c.WaitSettled()
	return op, th.res
}

// NumThreads returns how many threads were ever created.
func (c *Controller) NumThreads() int {
	c.mu.Lock()
	defer c.mu.Unlock()
	return len(c.threads)
}
