// Package vgen is injected into the repository under test with `go test -overlay`
// (it does not exist in /repo). It holds what every verification harness shares:
// one splitmix64 PRNG derived from VERIF_SEED, the case-file writer of the
// hwdriver line protocol, and small helpers.
package vgen

import (
	"bufio"
	"fmt"
	"os"
	"path/filepath"
	"strconv"
	"strings"
	"sync"
)

// Rng is splitmix64; every random choice of a harness derives from one Rng.
type Rng struct{ s uint64 }

func NewRng(seed uint64) *Rng { return &Rng{s: seed} }

func (r *Rng) Next() uint64 {
	r.s += 0x9e3779b97f4a7c15
	z := r.s
	z = (z ^ (z >> 30)) * 0xbf58476d1ce4e5b9
	z = (z ^ (z >> 27)) * 0x94d049bb133111eb
	return z ^ (z >> 31)
}

// Intn returns a value in [0,n).
func (r *Rng) Intn(n int) int {
	if n <= 0 {
		return 0
	}
	return int(r.Next() % uint64(n))
}

// Chance is true with probability num/den.
func (r *Rng) Chance(num, den int) bool { return r.Intn(den) < num }

// Pick returns one of xs.
func Pick[T any](r *Rng, xs []T) T { return xs[r.Intn(len(xs))] }

// Fork derives an independent stream (for per-case replay).
func (r *Rng) Fork() *Rng { return NewRng(r.Next()) }

// Seed returns VERIF_SEED (default 1).
func Seed() uint64 {
	if s := os.Getenv("VERIF_SEED"); s != "" {
		if v, err := strconv.ParseUint(s, 10, 64); err == nil {
			return v
		}
		if v, err := strconv.ParseInt(s, 10, 64); err == nil {
			return uint64(v)
		}
	}
	return 1
}

// Thorough reports whether VERIF_TIER=thorough.
func Thorough() bool { return os.Getenv("VERIF_TIER") == "thorough" }

// Scale returns q in the quick tier and t in the thorough tier.
func Scale(q, t int) int {
	if Thorough() {
		return t
	}
	return q
}

// Writer writes one hwdriver case file: "stream <name>" then case/in/impl triples.
type Writer struct {
	mu sync.Mutex
	f  *os.File
	w  *bufio.Writer
	n  int
}

// OutDir is where the harness writes its files (VERIF_OUT, default ".").
func OutDir() string {
	if d := os.Getenv("VERIF_OUT"); d != "" {
		return d
	}
	return "."
}

func NewWriter(stream string) (*Writer, error) {
	if err := os.MkdirAll(OutDir(), 0o755); err != nil {
		return nil, err
	}
	f, err := os.Create(filepath.Join(OutDir(), stream+".cases"))
	if err != nil {
		return nil, err
	}
	w := &Writer{f: f, w: bufio.NewWriterSize(f, 1<<20)}
	fmt.Fprintf(w.w, "stream %s\n", stream)
	return w, nil
}

// Case appends one case. id must not contain spaces; in/impl are single lines.
func (w *Writer) Case(id, in, impl string) {
	w.mu.Lock()
	defer w.mu.Unlock()
	w.n++
	fmt.Fprintf(w.w, "case %s\nin %s\nimpl %s\n", id, oneLine(in), oneLine(impl))
}

func (w *Writer) Count() int { return w.n }

func (w *Writer) Close() error {
	w.mu.Lock()
	defer w.mu.Unlock()
	if err := w.w.Flush(); err != nil {
		return err
	}
	return w.f.Close()
}

func oneLine(s string) string {
	return strings.NewReplacer("\n", " ", "\r", " ").Replace(s)
}

// ReplayInput returns the `in` line to replay (VERIF_REPLAY_IN), if any.
func ReplayInput() (string, bool) {
	s := os.Getenv("VERIF_REPLAY_IN")
	return s, s != ""
}

// KV extracts key=value from a space separated line.
func KV(line, key string) (string, bool) {
	for _, w := range strings.Fields(line) {
		if strings.HasPrefix(w, key+"=") {
			return w[len(key)+1:], true
		}
	}
	return "", false
}

func KVInt(line, key string, def int) int {
	if s, ok := KV(line, key); ok {
		if v, err := strconv.Atoi(s); err == nil {
			return v
		}
	}
	return def
}

// CorpusInputs reads `in` lines from VERIF_CORPUS (a file with one input per line, # comments).
func CorpusInputs() []string {
	p := os.Getenv("VERIF_CORPUS")
	if p == "" {
		return nil
	}
	b, err := os.ReadFile(p)
	if err != nil {
		return nil
	}
	var out []string
	for _, l := range strings.Split(string(b), "\n") {
		l = strings.TrimSpace(l)
		if l == "" || strings.HasPrefix(l, "#") {
			continue
		}
		out = append(out, l)
	}
	return out
}
