package remote

// Injected by /verif (go test -overlay). H-sys harness for C17 (stream "remote"): real engines with real
// remotes over loopback TCP. Kinds of cases: order (concurrent senders -> several targets on the peer),
// reqresp, unreach (peer down, then up on the same address), state (Start/Stop sequences).

import (
	"math/big"
	"crypto/x509/pkix"
	"crypto/x509"
	"crypto/tls"
	"crypto/rand"
	"crypto/elliptic"
	"crypto/ecdsa"
	"fmt"
	"net"
	"sort"
	"strconv"
	"strings"
	"sync"
	"testing"
	"time"

	"github.com/anthdm/hollywood/actor"
	"github.com/anthdm/hollywood/internal/vgen"
	"google.golang.org/protobuf/proto"
	"google.golang.org/protobuf/reflect/protodesc"
	"google.golang.org/protobuf/reflect/protoreflect"
	"google.golang.org/protobuf/types/descriptorpb"
	"google.golang.org/protobuf/types/dynamicpb"
)

func vFreeAddr() string {
	l, err := net.Listen("tcp", "127.0.0.1:0")
	if err != nil {
		return "127.0.0.1:39999"
	}
	a := l.Addr().String()
	l.Close()
	return a
}

// vTLSConfig: one self-signed certificate for 127.0.0.1, used for listening and (unverified) for dialing
var vTLSOnce sync.Once
var vTLSConf *tls.Config

func vTLSConfig() *tls.Config {
	vTLSOnce.Do(func() {
		key, err := ecdsa.GenerateKey(elliptic.P256(), rand.Reader)
		if err != nil {
			return
		}
		tmpl := &x509.Certificate{SerialNumber: big.NewInt(1), Subject: pkix.Name{CommonName: "verif"},
			NotBefore: time.Now().Add(-time.Hour), NotAfter: time.Now().Add(24 * time.Hour),
			KeyUsage: x509.KeyUsageDigitalSignature | x509.KeyUsageCertSign, ExtKeyUsage: []x509.ExtKeyUsage{x509.ExtKeyUsageServerAuth},
			IPAddresses: []net.IP{net.ParseIP("127.0.0.1")}, BasicConstraintsValid: true, IsCA: true}
		der, err := x509.CreateCertificate(rand.Reader, tmpl, tmpl, &key.PublicKey, key)
		if err != nil {
			return
		}
		vTLSConf = &tls.Config{Certificates: []tls.Certificate{{Certificate: [][]byte{der}, PrivateKey: key}}, InsecureSkipVerify: true}
	})
	return vTLSConf
}

func vRemoteEngineTLS(addr string, useTLS bool) (*actor.Engine, *Remote, error) {
	if !useTLS {
		return vRemoteEngine(addr)
	}
	r := New(addr, NewConfig().WithTLS(vTLSConfig()))
	e, err := actor.NewEngine(actor.NewEngineConfig().WithRemote(r))
	return e, r, err
}

func vRemoteEngine(addr string) (*actor.Engine, *Remote, error) {
	r := New(addr, NewConfig())
	e, err := actor.NewEngine(actor.NewEngineConfig().WithRemote(r))
	return e, r, err
}

type vRecv struct {
	mu   sync.Mutex
	logs map[string][]string
	n    int
}

func (r *vRecv) add(target, entry string) {
	r.mu.Lock()
	r.logs[target] = append(r.logs[target], entry)
	r.n++
	r.mu.Unlock()
}

func vWaitFor(cond func() bool, d time.Duration) bool {
	deadline := time.Now().Add(d)
	for time.Now().Before(deadline) {
		if cond() {
			return true
		}
		time.Sleep(2 * time.Millisecond)
	}
	return cond()
}

// order: k sender goroutines on A, each sends m tagged messages to targets on B chosen by plan
func runRemoteOrder(t testing.TB, k, m, nt int, rr *vgen.Rng) string {
	a, ra, err := vRemoteEngine(vFreeAddr())
	if err != nil {
		return "setup-error"
	}
	bAddr := vFreeAddr()
	b, rb, err := vRemoteEngine(bAddr)
	if err != nil {
		return "setup-error"
	}
	defer func() { ra.Stop().Wait(); rb.Stop().Wait() }()
	rec := &vRecv{logs: map[string][]string{}}
	for ti := 0; ti < nt; ti++ {
		name := "t" + strconv.Itoa(ti)
		b.SpawnFunc(func(c *actor.Context) {
			if msg, ok := c.Message().(*TestMessage); ok {
				snd := "-"
				if c.Sender() != nil {
					snd = c.Sender().Address + "/" + c.Sender().ID
				}
				rec.add(name, string(msg.Data)+"<"+snd)
			}
		}, "tgt", actor.WithID(name))
		// a namesake with the same id on the SENDING engine: a PID that names the peer must never end up here
		a.SpawnFunc(func(c *actor.Context) {
			if msg, ok := c.Message().(*TestMessage); ok {
				rec.add(name, "MISROUTED-TO-LOCAL-NAMESAKE:"+string(msg.Data))
			}
		}, "tgt", actor.WithID(name))
	}
	// plan: for sender s, message j goes to target plan[s][j]; odd senders attach a sender PID
	plan := make([][]int, k)
	for s := range plan {
		plan[s] = make([]int, m)
		for j := range plan[s] {
			plan[s][j] = rr.Intn(nt)
		}
	}
	var wg sync.WaitGroup
	for s := 0; s < k; s++ {
		s := s
		wg.Add(1)
		go func() {
			defer wg.Done()
			var self *actor.PID
			if s%2 == 1 {
				// all attached sender PIDs share one ID and differ in their address only (what the response PIDs
				// of requests from different nodes look like when a relay forwards them with the original sender)
				addr := a.Address()
				if s > 1 {
					addr = "n" + strconv.Itoa(s) + ":1"
				}
				self = actor.NewPID(addr, "snd/same")
			}
			for j := 0; j < m; j++ {
				pid := actor.NewPID(bAddr, "tgt/t"+strconv.Itoa(plan[s][j]))
				msg := &TestMessage{Data: []byte(fmt.Sprintf("s%dm%d", s, j))}
				if self != nil {
					a.SendWithSender(pid, msg, self)
				} else {
					a.Send(pid, msg)
				}
			}
		}()
	}
	wg.Wait()
	ok := vWaitFor(func() bool { rec.mu.Lock(); defer rec.mu.Unlock(); return rec.n >= k*m }, 15*time.Second)
	time.Sleep(20 * time.Millisecond) // duplicates, if any, would trail in
	rec.mu.Lock()
	defer rec.mu.Unlock()
	var parts []string
	for ti := 0; ti < nt; ti++ {
		name := "t" + strconv.Itoa(ti)
		parts = append(parts, name+"="+strings.Join(rec.logs[name], "|"))
	}
	var plans []string
	for s := range plan {
		xs := make([]string, m)
		for j, v := range plan[s] {
			xs[j] = strconv.Itoa(v)
		}
		plans = append(plans, strings.Join(xs, ""))
	}
	res := "complete"
	if !ok {
		res = "INCOMPLETE"
	}
	return res + " self=" + a.Address() + " plan=" + strings.Join(plans, "/") + " " + strings.Join(parts, " ")
}

// multi: one engine sends to actors on TWO peers, alternating as the plan says (one goroutine: the sends are ordered by
// happens-before); every message must arrive at the peer it was addressed to, once, in order
func runRemoteMulti(t testing.TB, n int, rr *vgen.Rng) string {
	x, rx, err := vRemoteEngine(vFreeAddr())
	if err != nil {
		return "setup-error"
	}
	defer func() { rx.Stop().Wait() }()
	rec := &vRecv{logs: map[string][]string{}}
	var addrs []string
	for _, name := range []string{"a", "b"} {
		name := name
		addr := vFreeAddr()
		pe, pr, err := vRemoteEngine(addr)
		if err != nil {
			return "setup-error"
		}
		defer func() { pr.Stop().Wait() }()
		pe.SpawnFunc(func(c *actor.Context) {
			if msg, ok := c.Message().(*TestMessage); ok {
				rec.add(name, string(msg.Data))
			}
		}, "tgt", actor.WithID("x"))
		addrs = append(addrs, addr)
	}
	plan := make([]byte, n)
	for i := range plan {
		plan[i] = byte('0' + rr.Intn(2))
	}
	if n >= 4 { // the pattern a, b, a, a is always there
		copy(plan, "0100")
	}
	for i := 0; i < n; i++ {
		x.Send(actor.NewPID(addrs[plan[i]-'0'], "tgt/x"), &TestMessage{Data: []byte("m" + strconv.Itoa(i))})
		if i%3 == 0 {
			time.Sleep(time.Millisecond) // spaced: several writer batches
		}
	}
	ok := vWaitFor(func() bool { rec.mu.Lock(); defer rec.mu.Unlock(); return rec.n >= n }, 10*time.Second)
	time.Sleep(20 * time.Millisecond)
	rec.mu.Lock()
	defer rec.mu.Unlock()
	res := "complete"
	if !ok {
		res = "INCOMPLETE"
	}
	return res + " plan=" + string(plan) + " a=" + strings.Join(rec.logs["a"], "|") + " b=" + strings.Join(rec.logs["b"], "|")
}

func runRemoteReqResp(t testing.TB, n int) string {
	a, ra, err := vRemoteEngine(vFreeAddr())
	if err != nil {
		return "setup-error"
	}
	bAddr := vFreeAddr()
	b, rb, err := vRemoteEngine(bAddr)
	if err != nil {
		return "setup-error"
	}
	defer func() { ra.Stop().Wait(); rb.Stop().Wait() }()
	b.SpawnFunc(func(c *actor.Context) {
		if msg, ok := c.Message().(*TestMessage); ok {
			c.Respond(&TestMessage{Data: append([]byte("re:"), msg.Data...)})
		}
	}, "echo", actor.WithID("1"))
	var wg sync.WaitGroup
	var mu sync.Mutex
	okc, bad := 0, 0
	for i := 0; i < n; i++ {
		i := i
		wg.Add(1)
		go func() {
			defer wg.Done()
			resp, err := a.Request(actor.NewPID(bAddr, "echo/1"), &TestMessage{Data: []byte("q" + strconv.Itoa(i))}, 5*time.Second).Result()
			mu.Lock()
			defer mu.Unlock()
			if err == nil {
				if m, ok := resp.(*TestMessage); ok && string(m.Data) == "re:q"+strconv.Itoa(i) {
					okc++
					return
				}
			}
			bad++
		}()
	}
	wg.Wait()
	return fmt.Sprintf("ok=%d bad=%d", okc, bad)
}

type vEvRec struct {
	mu       sync.Mutex
	pid      *actor.PID
	unreach  int
	dead     int
	deadTags []string
}

func (r *vEvRec) Start()                 {}
func (r *vEvRec) PID() *actor.PID        { return r.pid }
func (r *vEvRec) Invoke([]actor.Envelope) {}
func (r *vEvRec) Shutdown()              {}
func (r *vEvRec) Send(_ *actor.PID, msg any, _ *actor.PID) {
	r.mu.Lock()
	defer r.mu.Unlock()
	switch ev := msg.(type) {
	case actor.RemoteUnreachableEvent:
		r.unreach++
	case actor.DeadLetterEvent:
		r.dead++
		if sd, ok := ev.Message.(*streamDeliver); ok {
			if tm, ok := sd.msg.(*TestMessage); ok {
				r.deadTags = append(r.deadTags, string(tm.Data))
			}
		}
	}
}

// unreach: n messages to an address nobody listens on; then the peer comes up on that address
func runRemoteUnreach(t testing.TB, n int, useTLS bool) string {
	if useTLS && vTLSConfig() == nil {
		return "tls-setup-error"
	}
	a, ra, err := vRemoteEngineTLS(vFreeAddr(), useTLS)
	if err != nil {
		return "setup-error"
	}
	defer func() { ra.Stop().Wait() }()
	evs := &vEvRec{pid: actor.NewPID(a.Address(), "verif/evrec")}
	a.SpawnProc(evs)
	a.Subscribe(evs.pid)
	time.Sleep(10 * time.Millisecond)
	bAddr := vFreeAddr()
	target := actor.NewPID(bAddr, "tgt/x")
	for i := 0; i < n; i++ {
		a.Send(target, &TestMessage{Data: []byte("d" + strconv.Itoa(i))})
	}
	okDown := vWaitFor(func() bool { evs.mu.Lock(); defer evs.mu.Unlock(); return evs.unreach >= 1 && evs.dead >= n }, 12*time.Second)
	time.Sleep(50 * time.Millisecond)
	evs.mu.Lock()
	unreach, dead := evs.unreach, evs.dead
	tags := append([]string{}, evs.deadTags...)
	evs.mu.Unlock()
	sort.Strings(tags)
	// peer up on the same address
	b, rb, err := vRemoteEngineTLS(bAddr, useTLS)
	if err != nil {
		return fmt.Sprintf("unreachable=%d dead=%d peer-setup-error", unreach, dead)
	}
	defer func() { rb.Stop().Wait() }()
	var mu sync.Mutex
	got := 0
	b.SpawnFunc(func(c *actor.Context) {
		if _, ok := c.Message().(*TestMessage); ok {
			mu.Lock()
			got++
			mu.Unlock()
		}
	}, "tgt", actor.WithID("x"))
	for i := 0; i < n; i++ {
		a.Send(target, &TestMessage{Data: []byte("u" + strconv.Itoa(i))})
	}
	vWaitFor(func() bool { mu.Lock(); defer mu.Unlock(); return got >= n }, 12*time.Second)
	mu.Lock()
	later := got
	mu.Unlock()
	_ = okDown
	return fmt.Sprintf("unreachable=%d dead=%d deadtags=%s later=%d", unreach, dead, strings.Join(tags, "."), later)
}

// reconnect: a connection that worked is lost because the peer goes away; the peer comes back on the same
// address and later sends must reach it. byName: the peer is addressed by host name ("localhost:<port>").
func runRemoteReconnect(t testing.TB, n int, byName bool) string {
	a, ra, err := vRemoteEngine(vFreeAddr())
	if err != nil {
		return "setup-error"
	}
	defer func() { ra.Stop().Wait() }()
	bAddr := vFreeAddr()
	sendAddr := bAddr
	if byName {
		_, port, _ := net.SplitHostPort(bAddr)
		sendAddr = "localhost:" + port
	}
	var mu sync.Mutex
	got := map[byte]int{}
	mkPeer := func() (*Remote, error) {
		b, rb, err := vRemoteEngine(bAddr)
		if err != nil {
			return nil, err
		}
		b.SpawnFunc(func(c *actor.Context) {
			if m, ok := c.Message().(*TestMessage); ok && len(m.Data) > 0 {
				mu.Lock()
				got[m.Data[0]]++
				mu.Unlock()
			}
		}, "tgt", actor.WithID("x"))
		return rb, nil
	}
	count := func(k byte) int { mu.Lock(); defer mu.Unlock(); return got[k] }
	rb, err := mkPeer()
	if err != nil {
		return "setup-error"
	}
	evs := &vEvRec{pid: actor.NewPID(a.Address(), "verif/evrec")}
	a.SpawnProc(evs)
	a.Subscribe(evs.pid)
	target := actor.NewPID(sendAddr, "tgt/x")
	for i := 0; i < n; i++ {
		a.Send(target, &TestMessage{Data: []byte("a" + strconv.Itoa(i))})
	}
	vWaitFor(func() bool { return count('a') >= n }, 8*time.Second)
	first := count('a')
	rb.Stop().Wait() // the peer goes away: the established connection is lost
	reported := 0
	if vWaitFor(func() bool { evs.mu.Lock(); defer evs.mu.Unlock(); return evs.unreach >= 1 }, 8*time.Second) {
		reported = 1
	}
	time.Sleep(100 * time.Millisecond) // the router has handled the report
	rb2, err := mkPeer()
	if err != nil {
		return fmt.Sprintf("first=%d reported=%d peer-setup-error", first, reported)
	}
	defer func() { rb2.Stop().Wait() }()
	for i := 0; i < n; i++ {
		a.Send(target, &TestMessage{Data: []byte("c" + strconv.Itoa(i))})
	}
	vWaitFor(func() bool { return count('c') >= n }, 8*time.Second)
	return fmt.Sprintf("first=%d reported=%d later=%d", first, reported, count('c'))
}

// abort: the peer's reader ends the stream (a message whose type the receiver does not know) while the TCP
// connection stays up; the writer must give the connection up, report the peer and make a fresh attempt
func runRemoteAbort(t testing.TB) string {
	a, ra, err := vRemoteEngine(vFreeAddr())
	if err != nil {
		return "setup-error"
	}
	defer func() { ra.Stop().Wait() }()
	bAddr := vFreeAddr()
	b, rb, err := vRemoteEngine(bAddr)
	if err != nil {
		return "setup-error"
	}
	defer func() { rb.Stop().Wait() }()
	var mu sync.Mutex
	got := map[string]int{}
	b.SpawnFunc(func(c *actor.Context) {
		if m, ok := c.Message().(*TestMessage); ok {
			mu.Lock()
			got[string(m.Data)]++
			mu.Unlock()
		}
	}, "tgt", actor.WithID("x"))
	evs := &vEvRec{pid: actor.NewPID(a.Address(), "verif/evrec")}
	a.SpawnProc(evs)
	a.Subscribe(evs.pid)
	target := actor.NewPID(bAddr, "tgt/x")
	a.Send(target, &TestMessage{Data: []byte("first")})
	if !vWaitFor(func() bool { mu.Lock(); defer mu.Unlock(); return got["first"] == 1 }, 5*time.Second) {
		return "no-initial-delivery"
	}
	// a message of a type that is not in the receiver's registry: its reader returns an error and ends the stream
	a.Send(target, vUnknownTypeMessage())
	resumed := false
	for i := 0; i < 60 && !resumed; i++ {
		a.Send(target, &TestMessage{Data: []byte("probe")})
		time.Sleep(100 * time.Millisecond)
		mu.Lock()
		resumed = got["probe"] > 0
		mu.Unlock()
	}
	evs.mu.Lock()
	unreach := evs.unreach
	evs.mu.Unlock()
	u := 0
	if unreach > 0 {
		u = 1
	}
	r := 0
	if resumed {
		r = 1
	}
	return fmt.Sprintf("reported=%d resumed=%d", u, r)
}

// a dynamic proto message whose type is registered nowhere
func vUnknownTypeMessage() proto.Message {
	fdp := &descriptorpb.FileDescriptorProto{
		Name:    proto.String("verif_unknown.proto"),
		Package: proto.String("verifunknown"),
		Syntax:  proto.String("proto3"),
		MessageType: []*descriptorpb.DescriptorProto{{
			Name: proto.String("Ghost"),
			Field: []*descriptorpb.FieldDescriptorProto{{
				Name: proto.String("x"), Number: proto.Int32(1),
				Type:  descriptorpb.FieldDescriptorProto_TYPE_STRING.Enum(),
				Label: descriptorpb.FieldDescriptorProto_LABEL_OPTIONAL.Enum(),
			}},
		}},
	}
	fd, err := protodesc.NewFile(fdp, nil)
	if err != nil {
		panic(err)
	}
	m := dynamicpb.NewMessage(fd.Messages().Get(0))
	m.Set(fd.Messages().Get(0).Fields().Get(0), protoreflect.ValueOfString("boo"))
	return m
}

// state: a sequence of start / stop / dial operations on one Remote
func runRemoteState(t testing.TB, ops []string) string {
	addr := vFreeAddr()
	r := New(addr, NewConfig())
	var e *actor.Engine
	var probeCh chan struct{}
	var peerCh chan struct{}
	var peerAddr string
	peerStop := func() {}
	defer func() { peerStop() }()
	var out []string
	for _, op := range ops {
		res := func() (s string) {
			defer func() {
				if v := recover(); v != nil {
					s = "PANIC"
				}
			}()
			switch op {
			case "start":
				if e == nil {
					var err error
					e, err = actor.NewEngine(actor.NewEngineConfig().WithRemote(r))
					if err != nil {
						return "start-error"
					}
					return "started"
				}
				if err := r.Start(e); err != nil {
					return "already"
				}
				return "started"
			case "stop":
				done := make(chan struct{})
				go func() { r.Stop().Wait(); close(done) }()
				select {
				case <-done:
					return "stopped"
				case <-time.After(5 * time.Second):
					return "STOP-BLOCKED"
				}
			case "start2": // Start again with ANOTHER engine: refused, and must not disturb the running remote
				if e == nil {
					return "skip"
				}
				if _, err := actor.NewEngine(actor.NewEngineConfig().WithRemote(r)); err != nil {
					return "already"
				}
				return "started"
			case "out": // a send FROM this node to an actor on a peer: works while the remote runs and also after it was stopped
				if e == nil {
					return "skip"
				}
				if peerCh == nil {
					peerCh = make(chan struct{}, 64)
					ch := peerCh
					pa := vFreeAddr()
					pe, pr, err := vRemoteEngine(pa)
					if err != nil {
						return "setup-error"
					}
					peerStop = func() { pr.Stop().Wait() }
					peerAddr = pa
					pe.SpawnFunc(func(c *actor.Context) {
						if _, ok := c.Message().(*TestMessage); ok {
							ch <- struct{}{}
						}
					}, "sink", actor.WithID("s"))
				}
				e.Send(actor.NewPID(peerAddr, "sink/s"), &TestMessage{Data: []byte("o")})
				select {
				case <-peerCh:
					return "sent-arrived"
				case <-time.After(1500 * time.Millisecond):
					return "sent-lost"
				}
			case "probe": // does a message from another node still reach an actor of the FIRST engine?
				if e == nil {
					return "skip"
				}
				if probeCh == nil {
					probeCh = make(chan struct{}, 16)
					ch := probeCh
					e.SpawnFunc(func(c *actor.Context) {
						if _, ok := c.Message().(*TestMessage); ok {
							ch <- struct{}{}
						}
					}, "probe", actor.WithID("p"))
				}
				other, ro, err := vRemoteEngine(vFreeAddr())
				if err != nil {
					return "setup-error"
				}
				defer func() { ro.Stop().Wait() }()
				other.Send(actor.NewPID(addr, "probe/p"), &TestMessage{Data: []byte("p")})
				select {
				case <-probeCh:
					return "reached"
				case <-time.After(700 * time.Millisecond):
					return "lost"
				}
			case "dial":
				c, err := net.DialTimeout("tcp", addr, 500*time.Millisecond)
				if err != nil {
					return "refused"
				}
				c.Close()
				return "accepted"
			}
			return "?"
		}()
		out = append(out, res)
	}
	if e != nil {
		r.Stop().Wait()
	}
	return strings.Join(out, ",")
}

func TestVerifRemote(t *testing.T) {
	w, err := vgen.NewWriter("remote")
	if err != nil {
		t.Fatal(err)
	}
	defer w.Close()
	run := func(id, in string, seed uint64) {
		kind, _ := vgen.KV(in, "kind")
		switch kind {
		case "order":
			w.Case(id, in, runRemoteOrder(t, vgen.KVInt(in, "senders", 1), vgen.KVInt(in, "msgs", 1), vgen.KVInt(in, "targets", 1), vgen.NewRng(seed)))
		case "multi":
			w.Case(id, in, runRemoteMulti(t, vgen.KVInt(in, "msgs", 4), vgen.NewRng(seed)))
		case "reqresp":
			w.Case(id, in, runRemoteReqResp(t, vgen.KVInt(in, "n", 1)))
		case "unreach":
			w.Case(id, in, runRemoteUnreach(t, vgen.KVInt(in, "msgs", 1), vgen.KVInt(in, "tls", 0) == 1))
		case "abort":
			w.Case(id, in, runRemoteAbort(t))
		case "reconnect":
			h, _ := vgen.KV(in, "host")
			w.Case(id, in, runRemoteReconnect(t, vgen.KVInt(in, "msgs", 1), h == "name"))
		case "state":
			o, _ := vgen.KV(in, "ops")
			w.Case(id, in, runRemoteState(t, strings.Split(o, ",")))
		}
	}
	if in, ok := vgen.ReplayInput(); ok {
		run("replay", in, uint64(vgen.KVInt(in, "seed", 1)))
		return
	}
	for i, in := range vgen.CorpusInputs() {
		run(fmt.Sprintf("corpus%d", i), in, uint64(vgen.KVInt(in, "seed", 1)))
	}
	r := vgen.NewRng(vgen.Seed())
	no := vgen.Scale(12, 150)
	for i := 0; i < no; i++ {
		rr := r.Fork()
		seed := rr.Next() % 100000
		k, m, nt := 1+rr.Intn(6), 1+rr.Intn(60), 1+rr.Intn(4)
		if rr.Chance(1, 6) {
			m = 1500 + rr.Intn(1500) // more than one writer batch (1024)
			k = 1 + rr.Intn(3)
		}
		run(fmt.Sprintf("o%d", i), fmt.Sprintf("kind=order senders=%d msgs=%d targets=%d seed=%d", k, m, nt, seed), seed)
	}
	for i := 0; i < vgen.Scale(3, 20); i++ {
		run(fmt.Sprintf("q%d", i), fmt.Sprintf("kind=reqresp n=%d", 1+r.Intn(24)), 0)
	}
	for i := 0; i < vgen.Scale(1, 4); i++ {
		run(fmt.Sprintf("u%d", i), fmt.Sprintf("kind=unreach msgs=%d", 1+r.Intn(12)), 0)
	}
	run("ab0", "kind=abort", 0)
	run("ut0", fmt.Sprintf("kind=unreach msgs=%d tls=1", 1+r.Intn(6)), 0)
	for i := 0; i < vgen.Scale(2, 12); i++ {
		seed := r.Next() % 100000
		run(fmt.Sprintf("mp%d", i), fmt.Sprintf("kind=multi msgs=%d seed=%d", 6+r.Intn(30), seed), seed)
	}
	run("rc0", fmt.Sprintf("kind=reconnect host=name msgs=%d", 1+r.Intn(5)), 0)
	run("rc1", fmt.Sprintf("kind=reconnect host=ip msgs=%d", 1+r.Intn(5)), 0)
	stateSeqs := []string{"start,dial,start,dial,stop,dial,stop,dial", "stop,start,dial,stop,stop,start,dial", "dial,start,stop,dial",
		"start,probe,start2,probe,dial", "start,start2,start2,probe,stop,probe", "start,out,stop,out,out,start,out"}
	for i := 0; i < vgen.Scale(4, 20); i++ {
		var ops []string
		for j := 0; j < 3+r.Intn(6); j++ {
			ops = append(ops, vgen.Pick(r, []string{"start", "stop", "dial", "dial", "start2", "probe", "out"}))
		}
		stateSeqs = append(stateSeqs, strings.Join(ops, ","))
	}
	for i, s := range stateSeqs {
		run(fmt.Sprintf("s%d", i), "kind=state ops="+s, 0)
	}
}
