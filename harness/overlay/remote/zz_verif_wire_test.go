package remote

// Injected by /verif (go test -overlay). Correspondence harnesses for C15 (stream "wire") and
// C16 (stream "hostile"): the real streamWriter.Invoke builds the Envelope, a fake
// DRPCRemote_ReceiveStream marshals and unmarshals it with the real drpc encoding, and the real
// streamReader.Receive resolves it into SendLocal calls that land in recording processes.

import (
	"google.golang.org/protobuf/reflect/protodesc"
	"google.golang.org/protobuf/types/descriptorpb"
	"google.golang.org/protobuf/types/dynamicpb"
	"google.golang.org/protobuf/reflect/protoregistry"
	"google.golang.org/protobuf/reflect/protoreflect"
	"context"
	"encoding/hex"
	"fmt"
	"net"
	"strconv"
	"strings"
	"sync"
	"testing"
	"time"

	"github.com/anthdm/hollywood/actor"
	"github.com/anthdm/hollywood/internal/vgen"
	"google.golang.org/protobuf/proto"
	"storj.io/drpc"
)

type vPid struct{ addr, id string }

var vPidPool = []vPid{
	{"n1:4000", "a"}, {"n1:4000", "b"}, {"n2:4000", "a"}, {"ab", "c"}, {"a", "bc"}, {"", "abc"}, {"abc", ""}, {"n1:4000", "a/b"},
	{"n/a", "w/1"}, {"n", "a/w/1"}, // differ only in where the "/" between address and id falls
	{"n1:4000", "\xff\xfe-bin"}, // an id that is not valid UTF-8 (raw hash bytes): ids are arbitrary Go strings
}

func vPayload(k int) any {
	switch k {
	case 0:
		return &actor.PID{Address: "pa", ID: "pb"}
	case 1:
		return &actor.Ping{From: &actor.PID{Address: "x", ID: "y"}}
	case 2:
		return &TestMessage{Data: []byte("hello")}
	case 3:
		return &TestMessage{}
	case 4:
		return &actor.PID{Address: "\xff\xfe", ID: "bad"} // invalid UTF-8 in a proto3 string: Marshal fails
	case 5:
		return "raw" // not a proto.Message
	case 6:
		return &actor.Pong{From: &actor.PID{Address: "x", ID: "y"}}
	case 7:
		return &TestMessage{Data: []byte("zzz")}
	case 8:
		return struct{ X int }{7} // not a proto.Message
	case 9:
		return &actor.Ping{From: &actor.PID{Address: "\xff", ID: "y"}} // nested invalid UTF-8
	case 10, 11: // two message types described at run time: different proto types, ONE Go type (*dynamicpb.Message)
		vDynOnce.Do(vDynRegister)
		if vDynA == nil {
			return nil
		}
		if k == 10 {
			m := dynamicpb.NewMessage(vDynA)
			m.Set(vDynA.Fields().Get(0), protoreflect.ValueOfString("overheating"))
			return m
		}
		m := dynamicpb.NewMessage(vDynB)
		m.Set(vDynB.Fields().Get(0), protoreflect.ValueOfString("order-7"))
		return m
	}
	return nil
}

var (
	vDynOnce   sync.Once
	vDynA, vDynB protoreflect.MessageDescriptor
)

// vDynRegister describes verifdyn.Alarm{text} and verifdyn.Order{ref} and registers them in the global registries,
// which is all ProtoSerializer needs to carry them.
func vDynRegister() {
	str := func(name string) *descriptorpb.FieldDescriptorProto {
		return &descriptorpb.FieldDescriptorProto{Name: proto.String(name), Number: proto.Int32(1),
			Type: descriptorpb.FieldDescriptorProto_TYPE_STRING.Enum(), Label: descriptorpb.FieldDescriptorProto_LABEL_OPTIONAL.Enum()}
	}
	fdp := &descriptorpb.FileDescriptorProto{Name: proto.String("verifdyn.proto"), Package: proto.String("verifdyn"), Syntax: proto.String("proto3"),
		MessageType: []*descriptorpb.DescriptorProto{
			{Name: proto.String("Alarm"), Field: []*descriptorpb.FieldDescriptorProto{str("text")}},
			{Name: proto.String("Order"), Field: []*descriptorpb.FieldDescriptorProto{str("ref")}}}}
	fd, err := protodesc.NewFile(fdp, protoregistry.GlobalFiles)
	if err != nil {
		return
	}
	if err := protoregistry.GlobalFiles.RegisterFile(fd); err != nil {
		return
	}
	a, b := fd.Messages().Get(0), fd.Messages().Get(1)
	if protoregistry.GlobalTypes.RegisterMessage(dynamicpb.NewMessageType(a)) != nil || protoregistry.GlobalTypes.RegisterMessage(dynamicpb.NewMessageType(b)) != nil {
		return
	}
	vDynA, vDynB = a, b
}

const vNumPayloads = 12

func vPayloadIndex(m any) string {
	pm, ok := m.(proto.Message)
	if !ok {
		return "p?"
	}
	for k := 0; k < vNumPayloads; k++ {
		if c, ok := vPayload(k).(proto.Message); ok && proto.MessageName(c) == proto.MessageName(pm) && proto.Equal(c, pm) {
			return "p" + strconv.Itoa(k)
		}
	}
	return "p?" + string(proto.MessageName(pm))
}

func vPidIndex(p *actor.PID) string {
	if p == nil {
		return "-"
	}
	for i, q := range vPidPool {
		if q.addr == p.Address && q.id == p.ID {
			return strconv.Itoa(i)
		}
	}
	return "?" + hex.EncodeToString([]byte(p.Address)) + "/" + hex.EncodeToString([]byte(p.ID))
}

// fake stream: what is Sent is marshalled and unmarshalled with the real encoding and queued for Recv.
type vStream struct {
	mu    sync.Mutex
	queue []*Envelope
	sent  []*Envelope
}

func (s *vStream) Context() context.Context               { return context.Background() }
func (s *vStream) MsgSend(drpc.Message, drpc.Encoding) error { return nil }
func (s *vStream) MsgRecv(drpc.Message, drpc.Encoding) error { return nil }
func (s *vStream) CloseSend() error                       { return nil }
func (s *vStream) Close() error                           { return nil }
func (s *vStream) Send(e *Envelope) error {
	b, err := drpcEncoding_File_remote_proto{}.Marshal(e)
	if err != nil {
		return err
	}
	out := &Envelope{}
	if err := (drpcEncoding_File_remote_proto{}).Unmarshal(b, out); err != nil {
		return err
	}
	s.mu.Lock()
	s.sent = append(s.sent, e)
	s.queue = append(s.queue, out)
	s.mu.Unlock()
	return nil
}
func (s *vStream) Recv() (*Envelope, error) {
	s.mu.Lock()
	defer s.mu.Unlock()
	if len(s.queue) == 0 {
		return nil, context.Canceled
	}
	e := s.queue[0]
	s.queue = s.queue[1:]
	return e, nil
}

type vConn struct{ net.Conn }

func (vConn) SetDeadline(time.Time) error { return nil }
func (vConn) Close() error                { return nil }

// recording process registered under every target id of the pool
type vDelivery struct {
	target, sender *actor.PID
	msg            any
}
type vLog struct {
	mu  sync.Mutex
	dls []vDelivery
}
type vRecorder struct {
	pid *actor.PID
	log *vLog
}

func (r *vRecorder) Start()               {}
func (r *vRecorder) PID() *actor.PID      { return r.pid }
func (r *vRecorder) Invoke([]actor.Envelope) {}
func (r *vRecorder) Shutdown()            {}
func (r *vRecorder) Send(pid *actor.PID, msg any, sender *actor.PID) {
	r.log.mu.Lock()
	r.log.dls = append(r.log.dls, vDelivery{pid, sender, msg})
	r.log.mu.Unlock()
}

var vKnownIDs = map[string]bool{}

// a live stream writer of the receiving node (what exists as soon as the node has sent anything to a peer):
// a network peer can name its id as a target like any other. Its Invoke runs on an inbox goroutine; a panic
// there would end the process, so the wrapper records it instead.
type vSysWriterProc struct {
	*streamWriter
	log        *vLog
	mu         sync.Mutex
	sent, done int
	panicked   bool
}

const vSysWriterID = "stream/sys:1"
const vSysDialingID = "stream/sys:2" // a writer that is still dialing its peer: inbox open, no stream yet

func (w *vSysWriterProc) Start() { w.streamWriter.inbox.Start(w) }
func (w *vSysWriterProc) Send(pid *actor.PID, msg any, sender *actor.PID) {
	w.log.mu.Lock()
	w.log.dls = append(w.log.dls, vDelivery{pid, sender, msg})
	w.log.mu.Unlock()
	w.mu.Lock()
	w.sent++
	w.mu.Unlock()
	w.streamWriter.Send(pid, msg, sender)
}
func (w *vSysWriterProc) Invoke(msgs []actor.Envelope) {
	defer func() {
		v := recover()
		w.mu.Lock()
		if v != nil {
			w.panicked = true
		}
		w.done += len(msgs)
		w.mu.Unlock()
	}()
	w.streamWriter.Invoke(msgs)
}

// settle waits until the writer has handled what it was sent and reports whether it panicked since the last call.
func (w *vSysWriterProc) settle() bool {
	deadline := time.Now().Add(3 * time.Second)
	for time.Now().Before(deadline) {
		w.mu.Lock()
		ok := w.done >= w.sent
		w.mu.Unlock()
		if ok {
			break
		}
		time.Sleep(time.Millisecond)
	}
	w.mu.Lock()
	defer w.mu.Unlock()
	p := w.panicked
	w.panicked = false
	return p
}

var vSysWriter, vSysDialing *vSysWriterProc

var (
	vOnce   sync.Once
	vEngine *actor.Engine
	vTheLog = &vLog{}
)

func vSetup(t testing.TB) {
	vOnce.Do(func() {
		e, err := actor.NewEngine(actor.NewEngineConfig())
		if err != nil {
			t.Fatal(err)
		}
		vEngine = e
		seen := map[string]bool{}
		for _, p := range vPidPool {
			if !seen[p.id] {
				seen[p.id] = true
				vKnownIDs[p.id] = true
				e.SpawnProc(&vRecorder{pid: actor.NewPID(e.Address(), p.id), log: vTheLog})
			}
		}
		sw := newStreamWriter(e, actor.NewPID("local", "router"), "sys:1", nil, 0).(*streamWriter)
		sw.stream = &vStream{}
		sw.rawconn = vConn{}
		vSysWriter = &vSysWriterProc{streamWriter: sw, log: vTheLog}
		vKnownIDs[vSysWriterID] = true
		e.SpawnProc(vSysWriter)
		// the state streamWriter.Start leaves the writer in while init() is still dialing: inbox started, stream and connection nil
		sw2 := newStreamWriter(e, actor.NewPID("local", "router"), "sys:2", nil, 0).(*streamWriter)
		vSysDialing = &vSysWriterProc{streamWriter: sw2, log: vTheLog}
		vKnownIDs[vSysDialingID] = true
		e.SpawnProc(vSysDialing)
	})
	vTheLog.mu.Lock()
	vTheLog.dls = nil
	vTheLog.mu.Unlock()
}

func vMkPid(k int) *actor.PID { return actor.NewPID(vPidPool[k].addr, vPidPool[k].id) } // fresh object every time

type vItem struct{ s, t, p int } // s = -1: no sender

func vParseBatch(s string) []vItem {
	var out []vItem
	if s == "" {
		return out
	}
	for _, w := range strings.Split(s, ",") {
		// s<k|->t<k>p<k>
		var it vItem
		ti := strings.Index(w, "t")
		pi := strings.Index(w, "p")
		if w[1:ti] == "-" {
			it.s = -1
		} else {
			it.s, _ = strconv.Atoi(w[1:ti])
		}
		it.t, _ = strconv.Atoi(w[ti+1 : pi])
		it.p, _ = strconv.Atoi(w[pi+1:])
		out = append(out, it)
	}
	return out
}

func vShowBatch(b []vItem) string {
	ss := make([]string, len(b))
	for i, it := range b {
		s := "-"
		if it.s >= 0 {
			s = strconv.Itoa(it.s)
		}
		ss[i] = fmt.Sprintf("s%st%dp%d", s, it.t, it.p)
	}
	return strings.Join(ss, ",")
}

func vReadAll(fs *vStream) (outcome string) {
	defer func() {
		if v := recover(); v != nil {
			outcome = "panic-reader"
		}
	}()
	rd := newStreamReader(&Remote{engine: vEngine})
	if err := rd.Receive(fs); err != nil {
		return "err"
	}
	return "ok"
}

func vShowDeliveries() string {
	vTheLog.mu.Lock()
	defer vTheLog.mu.Unlock()
	ss := make([]string, len(vTheLog.dls))
	for i, d := range vTheLog.dls {
		ss[i] = "t" + vPidIndex(d.target) + vPayloadIndex(d.msg) + "s" + vPidIndex(d.sender)
	}
	return strings.Join(ss, ",")
}

// runWire pushes one batch through writer -> encoding -> reader.
func runWire(t testing.TB, batch []vItem) string {
	vSetup(t)
	fs := &vStream{}
	sw := newStreamWriter(vEngine, actor.NewPID("local", "router"), "peer:1", nil, 0).(*streamWriter)
	sw.stream = fs
	sw.rawconn = vConn{}
	msgs := make([]actor.Envelope, len(batch))
	for i, it := range batch {
		d := &streamDeliver{target: vMkPid(it.t), msg: vPayload(it.p)}
		if it.s >= 0 {
			d.sender = vMkPid(it.s)
		}
		msgs[i] = actor.Envelope{Msg: d}
	}
	wout := func() (o string) {
		defer func() {
			if v := recover(); v != nil {
				o = "panic-writer"
			}
		}()
		sw.Invoke(msgs)
		return ""
	}()
	var envs string
	if len(fs.sent) == 1 {
		e := fs.sent[0]
		var g, s, m []string
		for _, p := range e.Targets {
			g = append(g, vPidIndex(p))
		}
		for _, p := range e.Senders {
			s = append(s, vPidIndex(p))
		}
		for _, x := range e.Messages {
			if x == nil {
				m = append(m, "nil")
			} else {
				m = append(m, fmt.Sprintf("%d.%d.%d", x.TypeNameIndex, x.SenderIndex, x.TargetIndex))
			}
		}
		envs = fmt.Sprintf("T=%s;G=%s;S=%s;M=%s", strings.Join(e.TypeNames, "|"), strings.Join(g, "."), strings.Join(s, "."), strings.Join(m, "/"))
	} else {
		envs = fmt.Sprintf("sent=%d", len(fs.sent))
	}
	out := wout
	if out == "" {
		out = vReadAll(fs)
	}
	return envs + ";out=" + out + ";dl=" + vShowDeliveries()
}

func genWireBatch(r *vgen.Rng) []vItem {
	n := 1 + r.Intn(12)
	if r.Chance(1, 10) {
		n = 1
	}
	// pools narrowed per case so that repeats (table hits) are frequent
	npid := 1 + r.Intn(len(vPidPool))
	goodOnly := r.Chance(1, 3)
	nilRate := r.Intn(4) // 0: never nil
	b := make([]vItem, n)
	for i := range b {
		it := vItem{s: r.Intn(npid), t: r.Intn(npid), p: r.Intn(vNumPayloads)}
		if r.Chance(1, 3) { // address/id split collisions
			it.s = 3 + r.Intn(8)
			it.t = 3 + r.Intn(8)
		}
		if nilRate > 0 && r.Intn(4) < nilRate {
			it.s = -1
		}
		if goodOnly {
			it.p = []int{0, 1, 2, 3, 6, 7}[r.Intn(6)]
		}
		b[i] = it
	}
	return b
}

func TestVerifWire(t *testing.T) {
	w, err := vgen.NewWriter("wire")
	if err != nil {
		t.Fatal(err)
	}
	defer w.Close()
	emit := func(id string, b []vItem) {
		w.Case(id, "batch="+vShowBatch(b), runWire(t, b))
	}
	if in, ok := vgen.ReplayInput(); ok {
		s, _ := vgen.KV(in, "batch")
		emit("replay", vParseBatch(s))
		return
	}
	for i, in := range vgen.CorpusInputs() {
		s, _ := vgen.KV(in, "batch")
		emit(fmt.Sprintf("corpus%d", i), vParseBatch(s))
	}
	// exhaustive: all batches of length <= 2 over senders {-,3,4} x targets {3,4} x payloads {0,2,4,5}
	ss, ts, ps := []int{-1, 3, 4}, []int{3, 4}, []int{0, 2, 4, 5}
	var one []vItem
	for _, s := range ss {
		for _, tg := range ts {
			for _, p := range ps {
				one = append(one, vItem{s, tg, p})
			}
		}
	}
	k := 0
	for _, a := range one {
		emit(fmt.Sprintf("ex1_%d", k), []vItem{a})
		k++
		for _, b := range one {
			emit(fmt.Sprintf("ex2_%d", k), []vItem{a, b})
			k++
		}
	}
	r := vgen.NewRng(vgen.Seed())
	n := vgen.Scale(3000, 60000)
	for i := 0; i < n; i++ {
		emit(fmt.Sprintf("g%d", i), genWireBatch(r.Fork()))
	}
	// batches larger than the writer's inbox size (1024) and as large as one PopN (4096): the ring grows, Invoke gets them all
	for i, size := range []int{1025, 1500, 4096} {
		rr := r.Fork()
		var big []vItem
		for len(big) < size {
			big = append(big, genWireBatch(rr)...)
		}
		emit(fmt.Sprintf("big%d", i), big[:size])
	}
}

// ---------------------------------------------------------------------------------------------
// C16: hostile envelopes
// ---------------------------------------------------------------------------------------------

func hx(s string) string {
	if s == "" {
		return "_"
	}
	return hex.EncodeToString([]byte(s))
}

func hxPid(p *actor.PID) string {
	if p == nil {
		return "nil"
	}
	return hx(p.Address) + "/" + hx(p.ID)
}

// describe renders an Envelope as the model input; dz is the deserialisation oracle: whether the
// real Deserializer accepts (data, typeName) for each message whose type index is valid.
func vDescribe(e *Envelope) string {
	var tn, g, s, m []string
	for _, x := range e.TypeNames {
		tn = append(tn, hx(x))
	}
	for _, p := range e.Targets {
		g = append(g, hxPid(p))
	}
	for _, p := range e.Senders {
		s = append(s, hxPid(p))
	}
	for _, x := range e.Messages {
		if x == nil {
			m = append(m, "nil")
			continue
		}
		dz := "-"
		if x.TypeNameIndex >= 0 && int(x.TypeNameIndex) < len(e.TypeNames) {
			dz = "0"
			if vIndependentDecode(x.Data, e.TypeNames[x.TypeNameIndex]) != nil {
				dz = "1"
			}
		}
		m = append(m, fmt.Sprintf("%d:%d:%d:%s", x.TypeNameIndex, x.SenderIndex, x.TargetIndex, dz))
	}
	return fmt.Sprintf("tn=%s G=%s S=%s msgs=%s", strings.Join(tn, "."), strings.Join(g, "."), strings.Join(s, "."), strings.Join(m, ","))
}

// vIndependentDecode is the decodability oracle, independent of remote/serialize.go: the type name must be EXACTLY the
// full name of a message registered in the global proto registry and the bytes must unmarshal into a fresh instance.
func vIndependentDecode(data []byte, tname string) (m proto.Message) {
	defer func() {
		if recover() != nil {
			m = nil
		}
	}()
	if !protoreflect.FullName(tname).IsValid() {
		return nil
	}
	mt, err := protoregistry.GlobalTypes.FindMessageByName(protoreflect.FullName(tname))
	if err != nil {
		return nil
	}
	msg := mt.New().Interface()
	if err := proto.Unmarshal(data, msg); err != nil {
		return nil
	}
	return msg
}

func runHostile(t testing.TB, e *Envelope) string {
	vSetup(t)
	// every id a target names gets a recording process, so that each SendLocal is observed
	for _, p := range e.Targets {
		if p != nil && !vKnownIDs[p.ID] {
			vKnownIDs[p.ID] = true
			vEngine.SpawnProc(&vRecorder{pid: actor.NewPID(vEngine.Address(), p.ID), log: vTheLog})
		}
	}
	fs := &vStream{queue: []*Envelope{e}}
	out := vReadAll(fs)
	p1, p2 := vSysWriter.settle(), vSysDialing.settle()
	if p1 || p2 {
		out = "panic-in-stream-writer(" + out + ")" // on an inbox goroutine: the node would have exited
	}
	vTheLog.mu.Lock()
	defer vTheLog.mu.Unlock()
	ss := make([]string, len(vTheLog.dls))
	for i, d := range vTheLog.dls {
		tname := "?"
		if pm, ok := d.msg.(proto.Message); ok {
			tname = hx(string(proto.MessageName(pm)))
		}
		ss[i] = hxPid(d.target) + ":" + tname + ":" + hxPid(d.sender)
	}
	// content: what a target holds must be what SOME message of this envelope addressed to it says (decoded independently):
	// nothing left over from another message, another stream or another peer
	bad := 0
	for _, d := range vTheLog.dls {
		pm, isProto := d.msg.(proto.Message)
		if !isProto {
			bad++
			continue
		}
		ok := false
		for _, x := range e.Messages {
			if x == nil || x.TypeNameIndex < 0 || int(x.TypeNameIndex) >= len(e.TypeNames) || x.TargetIndex < 0 || int(x.TargetIndex) >= len(e.Targets) {
				continue
			}
			if tg := e.Targets[x.TargetIndex]; tg == nil || d.target == nil || tg.ID != d.target.ID {
				continue
			}
			if want := vIndependentDecode(x.Data, e.TypeNames[x.TypeNameIndex]); want != nil && proto.Equal(want, pm) {
				ok = true
				break
			}
		}
		if !ok {
			bad++
		}
	}
	content := "ok"
	if bad > 0 {
		content = fmt.Sprintf("BAD(%d)", bad)
	}
	return "out=" + out + ";content=" + content + ";dl=" + strings.Join(ss, ",")
}

// includes names that are registered in the global proto registry but are not messages (an enum, a nested enum)
var vTypeNamePool = []string{"actor.PID", "remote.TestMessage", "actor.Ping", "nope.Missing", "",
	"google.protobuf.FieldDescriptorProto.Type", "google.protobuf.Edition", "remote.Remote",
	// not names of registered messages, although a suffix is: a type URL, a leading slash, a trailing dot
	"type.googleapis.com/actor.PID", "/remote.TestMessage", "evil.example/remote.TestMessage", "actor.PID."}

func vDataChoice(k int) []byte {
	switch k {
	case 0:
		b, _ := proto.Marshal(&actor.PID{Address: "pa", ID: "pb"})
		return b
	case 1:
		b, _ := proto.Marshal(&TestMessage{Data: []byte("hello")})
		return b
	case 2:
		return []byte{0xff, 0xff, 0xff, 0xff}
	case 3:
		return nil
	case 4:
		return []byte{0x0a, 0x05, 'a'} // truncated length-delimited field
	}
	return nil
}

func vIndexChoice(r *vgen.Rng, n int) int32 {
	switch r.Intn(10) {
	case 0:
		return -1
	case 1:
		return int32(n)
	case 2:
		return int32(n + 1 + r.Intn(5))
	case 3:
		return []int32{-2147483648, 2147483647, -2, 1 << 20}[r.Intn(4)]
	default:
		if n == 0 {
			return 0
		}
		return int32(r.Intn(n))
	}
}

func genHostile(r *vgen.Rng) *Envelope {
	e := &Envelope{}
	nt, ng, ns := r.Intn(4), r.Intn(4), r.Intn(3)
	if r.Chance(2, 3) { // mostly well-formed tables
		nt, ng = 1+r.Intn(3), 1+r.Intn(3)
	}
	for i := 0; i < nt; i++ {
		if r.Chance(2, 3) {
			e.TypeNames = append(e.TypeNames, vTypeNamePool[r.Intn(3)])
		} else {
			e.TypeNames = append(e.TypeNames, vgen.Pick(r, vTypeNamePool))
		}
	}
	for i := 0; i < ng; i++ {
		if r.Chance(1, 8) { // one of the node's own system processes: a live stream writer, or one that is still dialing
			e.Targets = append(e.Targets, actor.NewPID("local", vgen.Pick(r, []string{vSysWriterID, vSysDialingID})))
			continue
		}
		e.Targets = append(e.Targets, vMkPid(r.Intn(len(vPidPool))))
	}
	for i := 0; i < ns; i++ {
		e.Senders = append(e.Senders, vMkPid(r.Intn(len(vPidPool))))
	}
	nm := r.Intn(6)
	wild := r.Intn(4) // 0: all indices valid
	for i := 0; i < nm; i++ {
		m := &Message{}
		pick := func(n int) int32 {
			if wild == 0 || r.Chance(2, 3) {
				if n == 0 {
					return 0
				}
				return int32(r.Intn(n))
			}
			return vIndexChoice(r, n)
		}
		m.TypeNameIndex = pick(nt)
		m.TargetIndex = pick(ng)
		m.SenderIndex = pick(ns)
		if r.Chance(1, 3) {
			m.SenderIndex = -1
		}
		m.Data = vDataChoice(r.Intn(5))
		if r.Chance(2, 3) && m.TypeNameIndex >= 0 && int(m.TypeNameIndex) < nt { // data matching the type
			switch e.TypeNames[m.TypeNameIndex] {
			case "actor.PID":
				m.Data = vDataChoice(0)
			case "remote.TestMessage":
				m.Data = vDataChoice(1)
			}
		}
		e.Messages = append(e.Messages, m)
	}
	return e
}

func TestVerifHostile(t *testing.T) {
	w, err := vgen.NewWriter("hostile")
	if err != nil {
		t.Fatal(err)
	}
	defer w.Close()
	if in, ok := vgen.ReplayInput(); ok {
		if raw, isRaw := vgen.KV(in, "raw"); isRaw { // crafted wire bytes: only the envelope decoder is exercised
			b, _ := hex.DecodeString(raw)
			res := func() (o string) {
				defer func() {
					if recover() != nil {
						o = "out=panic-decoder"
					}
				}()
				if err := (drpcEncoding_File_remote_proto{}).Unmarshal(b, &Envelope{}); err != nil {
					return "out=rejected"
				}
				return "out=decoded"
			}()
			w.Case("replay", in, res)
			return
		}
		e, err := vParseHostile(in)
		if err != nil {
			t.Fatal(err)
		}
		w.Case("replay", vDescribe(e), runHostile(t, e))
		return
	}
	for i, in := range vgen.CorpusInputs() {
		if e, err := vParseHostile(in); err == nil {
			w.Case(fmt.Sprintf("corpus%d", i), vDescribe(e), runHostile(t, e))
		}
	}
	// crafted wire bytes: length prefixes at the edge of the integer range, at every length-delimited field of Message and
	// Envelope (random byte mutations never produce them). The decoder must reject them (or decode them), never panic.
	uvar := func(v uint64) []byte {
		var b []byte
		for v >= 0x80 {
			b = append(b, byte(v)|0x80)
			v >>= 7
		}
		return append(b, byte(v))
	}
	k := 0
	for _, huge := range []uint64{1<<63 - 1, 1<<63 - 2, 1<<63 - 9, 1<<63 - 40, 1 << 63, 1<<64 - 1, 1<<62 + 5, 1<<31 - 1, 1 << 31, 1 << 32} {
		// Message{ data: <declared length huge, nothing follows> } inside Envelope.messages, with and without a type name first
		msg := append([]byte{0x0a}, uvar(huge)...)
		for _, prefix := range [][]byte{nil, {0x0a, 0x01, 'x'}} {
			env := append(append([]byte{}, prefix...), 0x22)
			env = append(env, uvar(uint64(len(msg)))...)
			env = append(env, msg...)
			raws := [][]byte{env,
				append(append([]byte{}, prefix...), append([]byte{0x22}, uvar(huge)...)...),   // messages: declared length huge
				append(append([]byte{}, prefix...), append([]byte{0x0a}, uvar(huge)...)...)}   // typeNames: declared length huge
			for _, b := range raws {
				res := func() (o string) {
					defer func() {
						if recover() != nil {
							o = "out=panic-decoder"
						}
					}()
					dec := &Envelope{}
					if err := (drpcEncoding_File_remote_proto{}).Unmarshal(b, dec); err != nil {
						return "out=rejected"
					}
					return "out=decoded"
				}()
				w.Case(fmt.Sprintf("raw%d", k), "raw="+hex.EncodeToString(b), res)
				k++
			}
		}
	}
	r := vgen.NewRng(vgen.Seed())
	n := vgen.Scale(4000, 80000)
	decoded := 0
	for i := 0; i < n; i++ {
		rr := r.Fork()
		e := genHostile(rr)
		// go through the real envelope encoder/decoder so that what the reader sees is what a peer can send
		b, err := drpcEncoding_File_remote_proto{}.Marshal(e)
		if err != nil {
			continue
		}
		if rr.Chance(1, 3) && len(b) > 0 { // raw byte mutations of the wire form
			for k := 0; k < 1+rr.Intn(3); k++ {
				switch rr.Intn(3) {
				case 0:
					b[rr.Intn(len(b))] = byte(rr.Intn(256))
				case 1:
					b = b[:rr.Intn(len(b)+1)]
				case 2:
					p := rr.Intn(len(b) + 1)
					b = append(b[:p:p], append([]byte{byte(rr.Intn(256))}, b[p:]...)...)
				}
				if len(b) == 0 {
					break
				}
			}
		}
		dec := &Envelope{}
		if err := (drpcEncoding_File_remote_proto{}).Unmarshal(b, dec); err != nil {
			continue // rejected by the envelope decoder: never reaches the reader
		}
		decoded++
		w.Case(fmt.Sprintf("h%d", i), vDescribe(dec), runHostile(t, dec))
	}
	t.Logf("hostile: %d generated, %d accepted by the envelope decoder", n, decoded)
}

func unhx(s string) string {
	if s == "_" {
		return ""
	}
	b, _ := hex.DecodeString(s)
	return string(b)
}

func vParseHostile(in string) (*Envelope, error) {
	e := &Envelope{}
	split := func(key string) []string {
		s, _ := vgen.KV(in, key)
		if s == "" {
			return nil
		}
		return strings.Split(s, ".")
	}
	for _, x := range split("tn") {
		e.TypeNames = append(e.TypeNames, unhx(x))
	}
	pid := func(x string) *actor.PID {
		if x == "nil" {
			return nil
		}
		parts := strings.SplitN(x, "/", 2)
		if len(parts) != 2 {
			return &actor.PID{}
		}
		return &actor.PID{Address: unhx(parts[0]), ID: unhx(parts[1])}
	}
	for _, x := range split("G") {
		e.Targets = append(e.Targets, pid(x))
	}
	for _, x := range split("S") {
		e.Senders = append(e.Senders, pid(x))
	}
	ms, _ := vgen.KV(in, "msgs")
	if ms != "" {
		for _, x := range strings.Split(ms, ",") {
			if x == "nil" {
				e.Messages = append(e.Messages, nil)
				continue
			}
			f := strings.Split(x, ":")
			if len(f) != 4 {
				return nil, fmt.Errorf("bad message %q", x)
			}
			ti, _ := strconv.Atoi(f[0])
			si, _ := strconv.Atoi(f[1])
			gi, _ := strconv.Atoi(f[2])
			m := &Message{TypeNameIndex: int32(ti), SenderIndex: int32(si), TargetIndex: int32(gi)}
			// replay data: something the deserialiser accepts (dz=1) or rejects (dz=0) for that type
			if f[3] == "1" && ti >= 0 && ti < len(e.TypeNames) {
				switch e.TypeNames[ti] {
				case "actor.PID":
					m.Data = vDataChoice(0)
				case "remote.TestMessage":
					m.Data = vDataChoice(1)
				}
			} else {
				m.Data = vDataChoice(2)
			}
			e.Messages = append(e.Messages, m)
		}
	}
	return e, nil
}
