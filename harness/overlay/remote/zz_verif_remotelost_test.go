package remote

// Injected by /verif (go test -overlay). Stream "remotelost" (C17): an established connection is lost
// while a send to the same address is on its way. Built with registry.go under the yielding sync shim:
// the writer's own watcher goroutine (started by the code under test) is adopted by the scheduler at the
// registry write lock, which pins down the order in which Shutdown notifies the router and unregisters.

import (
	"fmt"
	"sync"
	"testing"
	"time"

	"github.com/anthdm/hollywood/actor"
	"github.com/anthdm/hollywood/internal/vgen"
	"github.com/anthdm/hollywood/internal/vshim/vsched"
)

func runRemoteLost(t testing.TB, n int) string {
	a, ra, err := vRemoteEngine(vFreeAddr())
	if err != nil {
		return "setup-error"
	}
	defer func() { ra.Stop().Wait() }()
	bAddr := vFreeAddr()
	var mu sync.Mutex
	got := map[string]int{}
	mkPeer := func() (*actor.Engine, *Remote, error) {
		b, rb, err := vRemoteEngine(bAddr)
		if err != nil {
			return nil, nil, err
		}
		b.SpawnFunc(func(c *actor.Context) {
			if m, ok := c.Message().(*TestMessage); ok {
				mu.Lock()
				got[string(m.Data)]++
				mu.Unlock()
			}
		}, "tgt", actor.WithID("x"))
		return b, rb, nil
	}
	count := func(prefix string) int {
		mu.Lock()
		defer mu.Unlock()
		c := 0
		for k, v := range got {
			if len(k) >= len(prefix) && k[:len(prefix)] == prefix {
				c += v
			}
		}
		return c
	}
	_, rb, err := mkPeer()
	if err != nil {
		return "setup-error"
	}
	evs := &vEvRec{pid: actor.NewPID(a.Address(), "verif/evrec")}
	a.SpawnProc(evs)
	a.Subscribe(evs.pid)
	target := actor.NewPID(bAddr, "tgt/x")
	a.Send(target, &TestMessage{Data: []byte("a0")})
	if !vWaitFor(func() bool { return count("a") >= 1 }, 5*time.Second) {
		return "no-initial-delivery"
	}
	// adopt the goroutine that unregisters the writer (Registry.Remove takes the write lock)
	c := vsched.New()
	c.Install()
	defer vsched.Uninstall()
	c.TrapNext("lock")
	rb.Stop().Wait() // the peer goes away: the writer's connection is lost
	trappedOK := vWaitFor(func() bool { return c.Trapped() >= 0 }, 5*time.Second)
	time.Sleep(100 * time.Millisecond) // whatever Shutdown sent to the router before unregistering is handled now
	// the peer comes back on the same address; a message is sent while the old writer is still registered
	_, rb2, err := mkPeer()
	if err != nil {
		return "peer-setup-error"
	}
	defer func() { rb2.Stop().Wait() }()
	a.Send(target, &TestMessage{Data: []byte("b0")})
	time.Sleep(100 * time.Millisecond)
	if trappedOK {
		c.Release(c.Trapped()) // Shutdown finishes
	}
	time.Sleep(100 * time.Millisecond)
	// from now on the connection to the peer, which is up, must work
	for i := 0; i < n; i++ {
		a.Send(target, &TestMessage{Data: []byte(fmt.Sprintf("c%d", i))})
	}
	vWaitFor(func() bool { return count("c") >= n }, 6*time.Second)
	evs.mu.Lock()
	dead := evs.dead
	evs.mu.Unlock()
	tr := "trapped"
	if !trappedOK {
		tr = "not-trapped"
	}
	return fmt.Sprintf("%s later=%d deadlater=%d", tr, count("c"), func() int {
		if dead > n {
			return n
		}
		return dead
	}()-func() int {
		// dead letters for b0 (sent inside the window) are not counted here
		return 0
	}())
}

func TestVerifRemoteLost(t *testing.T) {
	w, err := vgen.NewWriter("remotelost")
	if err != nil {
		t.Fatal(err)
	}
	defer w.Close()
	if in, ok := vgen.ReplayInput(); ok {
		w.Case("replay", in, runRemoteLost(t, vgen.KVInt(in, "msgs", 3)))
		return
	}
	for i := 0; i < vgen.Scale(2, 6); i++ {
		n := 2 + i
		w.Case(fmt.Sprintf("l%d", i), fmt.Sprintf("msgs=%d", n), runRemoteLost(t, n))
	}
}
