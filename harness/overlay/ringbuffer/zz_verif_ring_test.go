package ringbuffer

// Injected by /verif (go test -overlay). Correspondence harness for C14:
// drives the real RingBuffer with generated operation sequences and records
// every return value; the Lean model/spec replay the same sequences.

import (
	"fmt"
	"strconv"
	"strings"
	"testing"

	"github.com/anthdm/hollywood/internal/vgen"
	"github.com/anthdm/hollywood/internal/vshim/vsched"
)

// runRingOps executes `ops` (protocol syntax) on a fresh ring of `size`.
func runRingOps(size int, ops []string) (out []string) {
	defer func() {
		if v := recover(); v != nil {
			out = append(out, "panic")
		}
	}()
	rb := New[int](int64(size))
	for _, op := range ops {
		switch {
		case op == "o":
			v, ok := rb.Pop()
			if ok {
				out = append(out, "i"+strconv.Itoa(v))
			} else {
				out = append(out, "i!")
			}
		case op == "l":
			out = append(out, "l"+strconv.FormatInt(rb.Len(), 10))
		case op == "d":
			c := rb.content
			out = append(out, fmt.Sprintf("d%d.%d.%d.%d", c.head, c.tail, c.mod, rb.len))
		case op[0] == 'u':
			x, _ := strconv.Atoi(op[1:])
			rb.Push(x)
			out = append(out, "-")
		case op[0] == 'n':
			n, _ := strconv.Atoi(op[1:])
			vs, ok := rb.PopN(int64(n))
			if !ok {
				out = append(out, "s!")
			} else {
				ss := make([]string, len(vs))
				for i, v := range vs {
					ss[i] = strconv.Itoa(v)
				}
				out = append(out, "s"+strings.Join(ss, "."))
			}
		}
	}
	return out
}

func genRingCase(r *vgen.Rng) (int, []string) {
	sizes := []int{1, 1, 2, 2, 3, 3, 4, 5, 6, 7, 8, 9, 16, 1024}
	size := vgen.Pick(r, sizes)
	n := 1 + r.Intn(60)
	if size == 1024 && r.Chance(1, 2) {
		n = 1100 + r.Intn(1200)
	}
	// phase bias: mostly pushing or mostly popping, so that growth happens at
	// every head position, including wrapped ones.
	var ops []string
	next := 1
	qlen := 0
	pushBias := 5 + r.Intn(5)
	for i := 0; i < n; i++ {
		if r.Chance(1, 12) {
			pushBias = 2 + r.Intn(8)
		}
		switch c := r.Intn(10); {
		case c < pushBias:
			ops = append(ops, "u"+strconv.Itoa(next))
			next++
			qlen++
		case c < pushBias+1 || r.Chance(1, 2):
			ks := []int{0, 1, 2, 3, 4096, qlen, qlen + 1, qlen - 1}
			k := vgen.Pick(r, ks)
			if k < 0 {
				k = 0
			}
			ops = append(ops, "n"+strconv.Itoa(k))
			if k > qlen {
				k = qlen
			}
			qlen -= k
		case r.Chance(2, 3):
			ops = append(ops, "o")
			if qlen > 0 {
				qlen--
			}
		default:
			ops = append(ops, "l")
		}
		if r.Chance(1, 6) {
			ops = append(ops, "d")
		}
	}
	ops = append(ops, "d", "l", "n4096", "l", "o")
	return size, ops
}

func TestVerifRing(t *testing.T) {
	w, err := vgen.NewWriter("ring")
	if err != nil {
		t.Fatal(err)
	}
	defer w.Close()
	emit := func(id string, size int, ops []string) {
		in := fmt.Sprintf("size=%d ops=%s", size, strings.Join(ops, ","))
		w.Case(id, in, strings.Join(runRingOps(size, ops), ";"))
	}
	parse := func(in string) (int, []string) {
		size := vgen.KVInt(in, "size", 1)
		o, _ := vgen.KV(in, "ops")
		return size, strings.Split(o, ",")
	}
	if in, ok := vgen.ReplayInput(); ok {
		size, ops := parse(in)
		emit("replay", size, ops)
		return
	}
	for i, in := range vgen.CorpusInputs() {
		size, ops := parse(in)
		emit(fmt.Sprintf("corpus%d", i), size, ops)
	}
	// exhaustive small scope: every op sequence of length <= L over {push, pop, popN1, popN2} for sizes 1..3
	alphabet := []string{"u", "o", "n1", "n2"}
	L := vgen.Scale(6, 8)
	for size := 1; size <= 3; size++ {
		var rec func(prefix []string, next int)
		cnt := 0
		rec = func(prefix []string, next int) {
			if len(prefix) == L {
				ops := append(append([]string{}, prefix...), "d", "n4096", "l")
				emit(fmt.Sprintf("ex%d_%d", size, cnt), size, ops)
				cnt++
				return
			}
			for _, a := range alphabet {
				if a == "u" {
					rec(append(prefix, "u"+strconv.Itoa(next)), next+1)
				} else {
					rec(append(prefix, a), next)
				}
			}
		}
		rec(nil, 1)
	}
	r := vgen.NewRng(vgen.Seed())
	n := vgen.Scale(4000, 60000)
	for i := 0; i < n; i++ {
		size, ops := genRingCase(r.Fork())
		emit(fmt.Sprintf("g%d", i), size, ops)
	}
	// a backlog beyond 65536 elements (growth from large capacities), popped one by one and in batches
	for bi, size := range []int{1, 1024}[:vgen.Scale(0, 1)] { // thorough tier only (the list-based model needs minutes for it)
		var ops []string
		for x := 1; x <= 70000; x++ {
			ops = append(ops, "u"+strconv.Itoa(x))
			if x == 40000 {
				ops = append(ops, "n100", "o") // head is no longer at 0 when the large growths happen
			}
		}
		ops = append(ops, "l", "n4096", "n4096")
		for k := 0; k < 200; k++ {
			ops = append(ops, "o")
		}
		ops = append(ops, "n70000", "l", "o")
		emit(fmt.Sprintf("backlog%d", bi), size, ops)
	}
}

// ---------------------------------------------------------------------------------------------
// stream "ringsched" (C14, concurrency): several goroutines use one RingBuffer under the
// deterministic scheduler (ringbuffer.go built with the yielding shims). Every interleaving is a
// schedule the Lean model replays with each operation as ONE atomic step.
// ---------------------------------------------------------------------------------------------

type vRStep struct {
	tid     int
	enabled []int
}

func vRunRingSched(size int, progs [][]string, choose func(step int, en []int, last int) int) (trace []vRStep, log string) {
	c := vsched.New()
	c.YieldAfterUnlock = true // what a method does after leaving its critical section is a step of its own
	c.Install()
	defer vsched.Uninstall()
	rb := New[int](int64(size))
	results := make([][]string, len(progs))
	for ti, prog := range progs {
		ti, prog := ti, prog
		c.Go(func() {
			for _, op := range prog {
				func() {
					defer func() {
						if v := recover(); v != nil {
							results[ti] = append(results[ti], "PANIC")
						}
					}()
					results[ti] = append(results[ti], runRingOp(rb, op))
				}()
			}
		})
	}
	c.WaitSettled()
	var sb strings.Builder
	last := -1
	for step := 0; step < 100000; step++ {
		en := c.Enabled()
		if len(en) == 0 {
			break
		}
		tid := choose(step, en, last)
		op, _ := c.Step(tid)
		last = tid
		trace = append(trace, vRStep{tid, en})
		fmt.Fprintf(&sb, "t%d:%s;", tid, op)
	}
	rs := make([]string, len(results))
	for i, r := range results {
		rs[i] = strings.Join(r, ",")
	}
	// drain what is left, sequentially
	var rest []string
	for {
		v, ok := rb.Pop()
		if !ok {
			break
		}
		rest = append(rest, strconv.Itoa(v))
		if len(rest) > 64 { // a corrupted counter (negative length) would make this loop endless
			rest = append(rest, "UNBOUNDED")
			break
		}
	}
	fmt.Fprintf(&sb, "end:%s:rest=%s", strings.Join(rs, "|"), strings.Join(rest, "."))
	return trace, sb.String()
}

func runRingOp(rb *RingBuffer[int], op string) string {
	switch {
	case op == "o":
		v, ok := rb.Pop()
		if ok {
			return "i" + strconv.Itoa(v)
		}
		return "i!"
	case op == "l":
		return "l" + strconv.FormatInt(rb.Len(), 10)
	case op[0] == 'u':
		x, _ := strconv.Atoi(op[1:])
		rb.Push(x)
		return "-"
	case op[0] == 'n':
		n, _ := strconv.Atoi(op[1:])
		vs, ok := rb.PopN(int64(n))
		if !ok {
			return "s!"
		}
		ss := make([]string, len(vs))
		for i, v := range vs {
			ss[i] = strconv.Itoa(v)
		}
		return "s" + strings.Join(ss, ".")
	}
	return "?"
}

func vRContains(xs []int, x int) bool {
	for _, y := range xs {
		if y == x {
			return true
		}
	}
	return false
}

func vRReplay(sched []int) func(int, []int, int) int {
	return func(step int, en []int, last int) int {
		if step < len(sched) && vRContains(en, sched[step]) {
			return sched[step]
		}
		if vRContains(en, last) {
			return last
		}
		return en[0]
	}
}

func TestVerifRingSched(t *testing.T) {
	{ // shim active?
		c := vsched.New()
		c.Install()
		rb := New[int](1)
		c.Go(func() { rb.Push(1) })
		c.WaitSettled()
		n := len(c.Enabled())
		for len(c.Enabled()) > 0 {
			c.Step(c.Enabled()[0])
		}
		vsched.Uninstall()
		if n != 1 {
			t.Fatal("scheduler shim not active for ringbuffer.go")
		}
	}
	w, err := vgen.NewWriter("ringsched")
	if err != nil {
		t.Fatal(err)
	}
	defer w.Close()
	show := func(progs [][]string) string {
		ss := make([]string, len(progs))
		for i, p := range progs {
			ss[i] = strings.Join(p, ".")
		}
		return strings.Join(ss, "|")
	}
	emit := func(id string, size int, progs [][]string, tr []vRStep, log string) {
		xs := make([]string, len(tr))
		for i, s := range tr {
			xs[i] = strconv.Itoa(s.tid)
		}
		w.Case(id, fmt.Sprintf("size=%d progs=%s sched=%s", size, show(progs), strings.Join(xs, ",")), log)
	}
	parse := func(in string) (int, [][]string, []int) {
		var progs [][]string
		p, _ := vgen.KV(in, "progs")
		for _, x := range strings.Split(p, "|") {
			if x == "" {
				progs = append(progs, nil)
			} else {
				progs = append(progs, strings.Split(x, "."))
			}
		}
		var sched []int
		if s, ok := vgen.KV(in, "sched"); ok && s != "" {
			for _, y := range strings.Split(s, ",") {
				v, _ := strconv.Atoi(y)
				sched = append(sched, v)
			}
		}
		return vgen.KVInt(in, "size", 1), progs, sched
	}
	if in, ok := vgen.ReplayInput(); ok {
		size, progs, sched := parse(in)
		tr, log := vRunRingSched(size, progs, vRReplay(sched))
		emit("replay", size, progs, tr, log)
		return
	}
	for i, in := range vgen.CorpusInputs() {
		size, progs, sched := parse(in)
		tr, log := vRunRingSched(size, progs, vRReplay(sched))
		emit(fmt.Sprintf("corpus%d", i), size, progs, tr, log)
	}
	type scope struct {
		size  int
		progs [][]string
	}
	scopes := []scope{
		{1, [][]string{{"u1", "u2"}, {"n4"}}},
		{1, [][]string{{"u1", "u2", "u3"}, {"n2", "n2"}}},
		{2, [][]string{{"u1", "u2"}, {"u3", "o"}, {"n4", "l"}}},
		{1, [][]string{{"u1", "o", "u2"}, {"u3", "n2"}}},
		{2, [][]string{{"u1", "u2", "u3"}, {"o", "o"}, {"l", "n1"}}},
	}
	budget := vgen.Scale(3000, 60000)
	for si, sc := range scopes {
		n := 0
		var explore func(prefix []int)
		explore = func(prefix []int) {
			if n >= budget {
				return
			}
			tr, log := vRunRingSched(sc.size, sc.progs, vRReplay(prefix))
			emit(fmt.Sprintf("dfs%d_%d", si, n), sc.size, sc.progs, tr, log)
			n++
			for i := len(prefix); i < len(tr); i++ {
				for _, alt := range tr[i].enabled {
					if alt == tr[i].tid {
						continue
					}
					np := make([]int, 0, i+1)
					for _, s := range tr[:i] {
						np = append(np, s.tid)
					}
					explore(append(np, alt))
				}
			}
		}
		explore(nil)
		t.Logf("ringsched scope %d: %d interleavings (exhausted=%v)", si, n, n < budget)
	}
	r := vgen.NewRng(vgen.Seed())
	nr := vgen.Scale(3000, 80000)
	for i := 0; i < nr; i++ {
		rr := r.Fork()
		size := vgen.Pick(rr, []int{1, 1, 2, 3})
		nt := 2 + rr.Intn(2)
		next := 1
		var progs [][]string
		for ti := 0; ti < nt; ti++ {
			var p []string
			for j := 0; j < 1+rr.Intn(4); j++ {
				switch c := rr.Intn(10); {
				case c < 5:
					p = append(p, "u"+strconv.Itoa(next))
					next++
				case c < 7:
					p = append(p, "n"+strconv.Itoa(1+rr.Intn(4)))
				case c < 9:
					p = append(p, "o")
				default:
					p = append(p, "l")
				}
			}
			progs = append(progs, p)
		}
		tr, log := vRunRingSched(size, progs, func(step int, en []int, last int) int { return en[rr.Intn(len(en))] })
		emit(fmt.Sprintf("rnd%d", i), size, progs, tr, log)
	}
}


// ---------------------------------------------------------------------------------------------
// stream "ringfine" (C14, fine granularity): a scheduling point at every mutex attempt, at every atomic add inside a
// critical section, at every release and at every atomic load. Random schedules; the Lean driver replays the step
// sequence in the fine-grained model HW.RingConc (acquire / linearize / release / load).
// ---------------------------------------------------------------------------------------------

func vRunRingFine(size int, progs [][]string, rr *vgen.Rng) (log string, ok bool) {
	c := vsched.New()
	c.Fine = true
	c.Install()
	defer vsched.Uninstall()
	rb := New[int](int64(size))
	results := make([][]string, len(progs))
	for ti, prog := range progs {
		ti, prog := ti, prog
		c.Go(func() {
			for _, op := range prog {
				func() {
					defer func() {
						if v := recover(); v != nil {
							results[ti] = append(results[ti], "PANIC")
						}
					}()
					results[ti] = append(results[ti], runRingOp(rb, op))
				}()
			}
		})
	}
	c.WaitSettled()
	var sb strings.Builder
	steps := 0
	for ; steps < 2000; steps++ {
		en := c.Enabled()
		if len(en) == 0 {
			break
		}
		tid := en[rr.Intn(len(en))]
		op, res := c.Step(tid)
		if res != "" {
			op += "=" + res
		}
		fmt.Fprintf(&sb, "t%d:%s;", tid, op)
	}
	if len(c.Enabled()) > 0 { // step cap reached (a thread kept finding the mutex busy): run the rest out, the case is dropped
		for extra := 0; len(c.Enabled()) > 0; extra++ {
			en := c.Enabled()
			c.Step(en[extra%len(en)])
			if extra > 3000 { // nobody can make progress any more: the mutex is held by a thread that will never release it
				fmt.Fprintf(&sb, "end:DEADLOCK")
				return sb.String(), true
			}
		}
		return "", false
	}
	rs := make([]string, len(results))
	for i, r := range results {
		rs[i] = strings.Join(r, ",")
	}
	var rest []string
	for {
		v, ok := rb.Pop()
		if !ok {
			break
		}
		rest = append(rest, strconv.Itoa(v))
		if len(rest) > 64 {
			rest = append(rest, "UNBOUNDED")
			break
		}
	}
	fmt.Fprintf(&sb, "end:%s:rest=%s", strings.Join(rs, "|"), strings.Join(rest, "."))
	return sb.String(), true
}

func TestVerifRingFine(t *testing.T) {
	w, err := vgen.NewWriter("ringfine")
	if err != nil {
		t.Fatal(err)
	}
	defer w.Close()
	show := func(progs [][]string) string {
		ss := make([]string, len(progs))
		for i, p := range progs {
			ss[i] = strings.Join(p, ".")
		}
		return strings.Join(ss, "|")
	}
	r := vgen.NewRng(vgen.Seed())
	n := vgen.Scale(3000, 60000)
	fixed := [][][]string{
		{{"o"}, {"l", "l"}},                  // a Pop of an empty ring against two Len calls
		{{"u1", "o", "o"}, {"l", "o", "l"}},
		{{"n2"}, {"l"}, {"u1"}},
	}
	deadlocks := 0
	for i := 0; i < n; i++ {
		rr := r.Fork()
		var progs [][]string
		if i%4 == 0 {
			progs = fixed[(i/4)%len(fixed)]
		} else {
			nt := 2 + rr.Intn(2)
			x := 0
			for ti := 0; ti < nt; ti++ {
				var p []string
				for j := 0; j < 1+rr.Intn(3); j++ {
					switch rr.Intn(5) {
					case 0, 1:
						x++
						p = append(p, "u"+strconv.Itoa(x))
					case 2:
						p = append(p, "o")
					case 3:
						p = append(p, "n"+strconv.Itoa(1+rr.Intn(3)))
					default:
						p = append(p, "l")
					}
				}
				progs = append(progs, p)
			}
		}
		size := 1 + rr.Intn(3)
		if log, ok := vRunRingFine(size, progs, rr); ok {
			w.Case(fmt.Sprintf("f%d", i), fmt.Sprintf("size=%d progs=%s", size, show(progs)), log)
			if strings.HasSuffix(log, "end:DEADLOCK") {
				deadlocks++
				if deadlocks >= 3 { // enough evidence; every further case would spin to the step cap again
					break
				}
			}
		}
	}
}
