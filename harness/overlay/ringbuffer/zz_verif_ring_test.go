package ringbuffer

// Injected by /verif (go test -overlay). Correspondence harness for C14:
// drives the real RingBuffer with generated operation sequences and records
// every return value; the Lean model/spec replay the same sequences.

import (
	"fmt"
	"strconv"
	"strings"
	"testing"

	"github.com/anthdm/hollywood/internal/vgen"
)

// runRingOps executes `ops` (protocol syntax) on a fresh ring of `size`.
func runRingOps(size int, ops []string) (out []string) {
	defer func() {
		if v := recover(); v != nil {
			out = append(out, "panic")
		}
	}()
	rb := New[int](int64(size))
	for _, op := range ops {
		switch {
		case op == "o":
			v, ok := rb.Pop()
			if ok {
				out = append(out, "i"+strconv.Itoa(v))
			} else {
				out = append(out, "i!")
			}
		case op == "l":
			out = append(out, "l"+strconv.FormatInt(rb.Len(), 10))
		case op == "d":
			c := rb.content
			out = append(out, fmt.Sprintf("d%d.%d.%d.%d", c.head, c.tail, c.mod, rb.len))
		case op[0] == 'u':
			x, _ := strconv.Atoi(op[1:])
			rb.Push(x)
			out = append(out, "-")
		case op[0] == 'n':
			n, _ := strconv.Atoi(op[1:])
			vs, ok := rb.PopN(int64(n))
			if !ok {
				out = append(out, "s!")
			} else {
				ss := make([]string, len(vs))
				for i, v := range vs {
					ss[i] = strconv.Itoa(v)
				}
				out = append(out, "s"+strings.Join(ss, "."))
			}
		}
	}
	return out
}

func genRingCase(r *vgen.Rng) (int, []string) {
	sizes := []int{1, 1, 2, 2, 3, 3, 4, 5, 6, 7, 8, 9, 16, 1024}
	size := vgen.Pick(r, sizes)
	n := 1 + r.Intn(60)
	if size == 1024 && r.Chance(1, 2) {
		n = 1100 + r.Intn(1200)
	}
	// phase bias: mostly pushing or mostly popping, so that growth happens at
	// every head position, including wrapped ones.
	var ops []string
	next := 1
	qlen := 0
	pushBias := 5 + r.Intn(5)
	for i := 0; i < n; i++ {
		if r.Chance(1, 12) {
			pushBias = 2 + r.Intn(8)
		}
		switch c := r.Intn(10); {
		case c < pushBias:
			ops = append(ops, "u"+strconv.Itoa(next))
			next++
			qlen++
		case c < pushBias+1 || r.Chance(1, 2):
			ks := []int{0, 1, 2, 3, 4096, qlen, qlen + 1, qlen - 1}
			k := vgen.Pick(r, ks)
			if k < 0 {
				k = 0
			}
			ops = append(ops, "n"+strconv.Itoa(k))
			if k > qlen {
				k = qlen
			}
			qlen -= k
		case r.Chance(2, 3):
			ops = append(ops, "o")
			if qlen > 0 {
				qlen--
			}
		default:
			ops = append(ops, "l")
		}
		if r.Chance(1, 6) {
			ops = append(ops, "d")
		}
	}
	ops = append(ops, "d", "l", "n4096", "l", "o")
	return size, ops
}

func TestVerifRing(t *testing.T) {
	w, err := vgen.NewWriter("ring")
	if err != nil {
		t.Fatal(err)
	}
	defer w.Close()
	emit := func(id string, size int, ops []string) {
		in := fmt.Sprintf("size=%d ops=%s", size, strings.Join(ops, ","))
		w.Case(id, in, strings.Join(runRingOps(size, ops), ";"))
	}
	parse := func(in string) (int, []string) {
		size := vgen.KVInt(in, "size", 1)
		o, _ := vgen.KV(in, "ops")
		return size, strings.Split(o, ",")
	}
	if in, ok := vgen.ReplayInput(); ok {
		size, ops := parse(in)
		emit("replay", size, ops)
		return
	}
	for i, in := range vgen.CorpusInputs() {
		size, ops := parse(in)
		emit(fmt.Sprintf("corpus%d", i), size, ops)
	}
	// exhaustive small scope: every op sequence of length <= L over {push, pop, popN1, popN2} for sizes 1..3
	alphabet := []string{"u", "o", "n1", "n2"}
	L := vgen.Scale(6, 8)
	for size := 1; size <= 3; size++ {
		var rec func(prefix []string, next int)
		cnt := 0
		rec = func(prefix []string, next int) {
			if len(prefix) == L {
				ops := append(append([]string{}, prefix...), "d", "n4096", "l")
				emit(fmt.Sprintf("ex%d_%d", size, cnt), size, ops)
				cnt++
				return
			}
			for _, a := range alphabet {
				if a == "u" {
					rec(append(prefix, "u"+strconv.Itoa(next)), next+1)
				} else {
					rec(append(prefix, a), next)
				}
			}
		}
		rec(nil, 1)
	}
	r := vgen.NewRng(vgen.Seed())
	n := vgen.Scale(4000, 60000)
	for i := 0; i < n; i++ {
		size, ops := genRingCase(r.Fork())
		emit(fmt.Sprintf("g%d", i), size, ops)
	}
}
