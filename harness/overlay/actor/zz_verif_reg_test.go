package actor

// Injected by /verif (go test -overlay). Harnesses for C10:
//   stream "reg"      — sequential histories of Spawn / Stop / Poison / GetPID / Send through the real Engine
//   stream "regsched" — concurrent SpawnProc / Remove / get on the real Registry (registry.go built with
//                       the yielding sync shim) under the deterministic scheduler

import (
	"sync/atomic"
	"fmt"
	"sort"
	"strconv"
	"strings"
	"sync"
	"testing"
	"time"

	"github.com/anthdm/hollywood/internal/vgen"
	"github.com/anthdm/hollywood/internal/vshim/vsched"
)

// ------------------------------------------------------------------ stream reg (sequential, real actors)

type vRegH struct {
	mu       sync.Mutex
	events   []string
	nextInst int
	recvCh   chan string
}

func (h *vRegH) log(s string) {
	h.mu.Lock()
	h.events = append(h.events, s)
	h.mu.Unlock()
}

type vRegEventRec struct {
	h   *vRegH
	pid *PID
}

func (r *vRegEventRec) Start()            {}
func (r *vRegEventRec) PID() *PID         { return r.pid }
func (r *vRegEventRec) Invoke([]Envelope) {}
func (r *vRegEventRec) Shutdown()         {}
func (r *vRegEventRec) Send(_ *PID, msg any, _ *PID) {
	switch ev := msg.(type) {
	case ActorDuplicateIdEvent:
		r.h.log("dup:" + ev.PID.ID)
	case DeadLetterEvent:
		if _, isPill := ev.Message.(poisonPill); isPill {
			r.h.log("deadpill:" + ev.Target.ID)
		} else {
			r.h.log("dead:" + ev.Target.ID)
		}
	}
}

type vRegMsg struct{ n int }

// vRegHold blocks the receiver until released (used to keep an actor inside its graceful drain).
type vRegHold struct {
	ack chan struct{}
	ch  chan struct{}
}

type vRegAsk struct {
	id  string
	ack chan *PID
}

type vRegWindow struct {
	done <-chan struct{}
	h2   vRegHold
}

func (h *vRegH) takeEvents() []string {
	h.mu.Lock()
	defer h.mu.Unlock()
	ev := h.events
	h.events = nil
	return ev
}

// a remote that swallows everything: it only gives the engine an address other than "local"
type vRegRemoter struct{}

func (vRegRemoter) Address() string        { return "n7:7000" }
func (vRegRemoter) Start(*Engine) error    { return nil }
func (vRegRemoter) Stop() *sync.WaitGroup  { return &sync.WaitGroup{} }
func (vRegRemoter) Send(*PID, any, *PID)   {}

func runRegHistory(t testing.TB, ops []string) string {
	cfg := NewEngineConfig()
	if len(ops)%2 == 0 { // half of the histories run on an engine that has a remote (its address is not "local")
		cfg = cfg.WithRemote(vRegRemoter{})
	}
	e, err := NewEngine(cfg)
	if err != nil {
		t.Fatal(err)
	}
	// a long-lived actor that answers lookups through ITS Context.GetPID (one Context for the whole history)
	asker := e.SpawnFunc(func(c *Context) {
		if q, ok := c.Message().(vRegAsk); ok {
			q.ack <- c.GetPID("k/" + q.id)
		}
	}, "verifasker")
	h := &vRegH{recvCh: make(chan string, 16)}
	rec := &vRegEventRec{h: h, pid: NewPID(e.address, "verif/eventrec")}
	e.SpawnProc(rec)
	e.eventStream = rec.pid
	var out []string
	n := 0
	windows := map[string]*vRegWindow{}
	defer func() {
		for _, w := range windows {
			close(w.h2.ch)
		}
	}()
	waitAck := func(hd vRegHold) bool {
		select {
		case <-hd.ack:
			return true
		case <-time.After(3 * time.Second):
			return false
		}
	}
	for _, op := range ops {
		id := op[2:]
		switch op[:2] {
		case "sp":
			started := -1
			pid := e.Spawn(func() Receiver {
				h.nextInst++
				inst := h.nextInst
				started = inst
				return &funcReceiver{f: func(c *Context) {
					switch m := c.Message().(type) {
					case vRegMsg:
						h.recvCh <- fmt.Sprintf("inst%d:m%d", inst, m.n)
					case vRegHold:
						m.ack <- struct{}{}
						<-m.ch
					}
				}}
			}, "k", WithID(id), WithInboxSize(2))
			ev := h.takeEvents()
			res := "dup"
			if started >= 0 {
				res = "won" + strconv.Itoa(started)
			}
			if pid == nil || pid.ID != "k/"+id {
				res += "!badpid"
			}
			out = append(out, res+"["+strings.Join(ev, ",")+"]")
		case "st", "po":
			pid := NewPID(e.address, "k/"+id)
			var done <-chan struct{}
			if op[:2] == "st" {
				done = e.Stop(pid).Done()
			} else {
				done = e.Poison(pid).Done()
			}
			res := "done"
			select {
			case <-done:
			case <-time.After(3 * time.Second):
				res = "HANG"
			}
			ev := h.takeEvents()
			out = append(out, res+"["+strings.Join(ev, ",")+"]")
		case "pw": // open a drain window: the actor has seen a graceful pill and is blocked handling a message queued behind it
			pid := e.Registry.GetPID("k", id)
			if pid == nil || windows[id] != nil {
				out = append(out, "skip")
				break
			}
			h1 := vRegHold{make(chan struct{}, 1), make(chan struct{})}
			h2 := vRegHold{make(chan struct{}, 1), make(chan struct{})}
			e.Send(pid, h1)
			if !waitAck(h1) {
				out = append(out, "NOHOLD")
				break
			}
			ctx := e.Poison(pid)
			e.Send(pid, h2)
			close(h1.ch)
			if !waitAck(h2) {
				out = append(out, "NOWINDOW")
				break
			}
			windows[id] = &vRegWindow{done: ctx.Done(), h2: h2}
			out = append(out, "window["+strings.Join(h.takeEvents(), ",")+"]")
		case "sw": // stop window: the actor is busy (held) and a non-graceful Stop has been requested but not yet handled
			pid := e.Registry.GetPID("k", id)
			if pid == nil || windows[id] != nil {
				out = append(out, "skip")
				break
			}
			h1 := vRegHold{make(chan struct{}, 1), make(chan struct{})}
			e.Send(pid, h1)
			if !waitAck(h1) {
				out = append(out, "NOHOLD")
				break
			}
			ctx := e.Stop(pid)
			windows[id] = &vRegWindow{done: ctx.Done(), h2: h1}
			out = append(out, "window["+strings.Join(h.takeEvents(), ",")+"]")
		case "rl":
			w := windows[id]
			if w == nil {
				out = append(out, "skip")
				break
			}
			delete(windows, id)
			close(w.h2.ch)
			res := "released"
			select {
			case <-w.done:
			case <-time.After(3 * time.Second):
				res = "HANG"
			}
			out = append(out, res+"["+strings.Join(h.takeEvents(), ",")+"]")
		case "pg": // eight goroutines look registered ids up at the same moment: every answer is that actor's PID
			var regd []string
			for _, cand := range []string{"a", "b", "c", strings.Repeat("x", 62), strings.Repeat("x", 63), strings.Repeat("x", 64)} {
				if e.Registry.GetPID("k", cand) != nil {
					regd = append(regd, cand)
				}
			}
			if len(regd) < 2 {
				out = append(out, "skip")
				continue
			}
			var bad int64
			var wg sync.WaitGroup
			for g := 0; g < 8; g++ {
				g := g
				wg.Add(1)
				go func() {
					defer wg.Done()
					mine := regd[g%len(regd)]
					for j := 0; j < 20000; j++ {
						if p := e.Registry.GetPID("k", mine); p == nil || p.ID != "k/"+mine {
							atomic.AddInt64(&bad, 1)
						}
					}
				}()
			}
			wg.Wait()
			if bad > 0 {
				out = append(out, fmt.Sprintf("pg=BAD(%d wrong answers)", bad))
			} else {
				out = append(out, "pg=ok")
			}
		case "gp": // Registry.GetPID and Context.GetPID (asked from inside an actor) must agree
			want := NewPID(e.address, "k/"+id)
			rp := e.Registry.GetPID("k", id)
			reg := rp != nil
			wrong := reg && !rp.Equals(want)
			q := vRegAsk{id, make(chan *PID, 1)}
			e.Send(asker, q)
			ctx := reg
			select {
			case p := <-q.ack:
				ctx = p != nil
				wrong = wrong || (ctx && !p.Equals(want))
			case <-time.After(3 * time.Second):
				out = append(out, "NOANSWER")
				continue
			}
			switch {
			case wrong:
				out = append(out, fmt.Sprintf("WRONG-PID(Registry.GetPID=%v, the actor is %v)", rp, want))
			case reg != ctx:
				out = append(out, fmt.Sprintf("MISMATCH(Registry.GetPID=%v,Context.GetPID=%v)", reg, ctx))
			case reg:
				out = append(out, "some")
			default:
				out = append(out, "none")
			}
		case "sd":
			n++
			e.Send(NewPID(e.address, "k/"+id), vRegMsg{n})
			ev := h.takeEvents()
			if len(ev) > 0 {
				out = append(out, "["+strings.Join(ev, ",")+"]")
			} else {
				select {
				case r := <-h.recvCh:
					out = append(out, strings.SplitN(r, ":", 2)[0])
				case <-time.After(3 * time.Second):
					out = append(out, "LOST")
				}
			}
		}
	}
	return strings.Join(out, ";")
}

func TestVerifReg(t *testing.T) {
	w, err := vgen.NewWriter("reg")
	if err != nil {
		t.Fatal(err)
	}
	defer w.Close()
	emit := func(id string, ops []string) {
		w.Case(id, "ops="+strings.Join(ops, ","), runRegHistory(t, ops))
	}
	if in, ok := vgen.ReplayInput(); ok {
		s, _ := vgen.KV(in, "ops")
		emit("replay", strings.Split(s, ","))
		return
	}
	for i, in := range vgen.CorpusInputs() {
		s, _ := vgen.KV(in, "ops")
		emit(fmt.Sprintf("corpus%d", i), strings.Split(s, ","))
	}
	r := vgen.NewRng(vgen.Seed())
	n := vgen.Scale(900, 8000)
	kinds := []string{"sp", "sp", "sp", "st", "po", "gp", "gp", "sd", "sd", "pw", "sw", "rl"}
	_ = kinds
	ids := []string{"a", "b", "c"}
	for i := 0; i < n; i++ {
		rr := r.Fork()
		k := 2 + rr.Intn(10)
		nid := 1 + rr.Intn(3)
		var ops []string
		inWindow := map[string]bool{}
		idset := ids
		if rr.Chance(1, 6) { // long ids, each a prefix of the next: kind+id lengths 63, 64, 65 (buffer-size edges of a key builder)
			idset = []string{strings.Repeat("x", 62), strings.Repeat("x", 63), strings.Repeat("x", 64)}
		}
		for j := 0; j < k; j++ {
			kind, id := vgen.Pick(rr, kinds), idset[rr.Intn(nid)]
			if inWindow[id] && (kind == "st" || kind == "po" || kind == "sd" || kind == "pw" || kind == "sw") {
				kind = vgen.Pick(rr, []string{"sp", "gp", "rl"}) // a second pill or a send into a draining actor is C07/C04 territory
			}
			if kind == "pw" || kind == "sw" {
				inWindow[id] = true
			}
			if kind == "rl" {
				inWindow[id] = false
			}
			ops = append(ops, kind+id)
			if rr.Chance(1, 25) {
				ops = append(ops, "pg") // concurrent lookups of whatever is registered now
			}
		}
		emit(fmt.Sprintf("g%d", i), ops)
	}
}

// ------------------------------------------------------------------ stream regsched (concurrent, shimmed registry.go)

type vRegProc struct {
	pid  *PID
	inst int
	ev   *[]string
}

func (p *vRegProc) Start()               { *p.ev = append(*p.ev, "start"+strconv.Itoa(p.inst)) }
func (p *vRegProc) PID() *PID            { return p.pid }
func (p *vRegProc) Send(*PID, any, *PID) {}
func (p *vRegProc) Invoke([]Envelope)    {}
func (p *vRegProc) Shutdown()            {}

type vRegDupRec struct {
	pid *PID
	ev  *[]string
}

func (r *vRegDupRec) Start()            {}
func (r *vRegDupRec) PID() *PID         { return r.pid }
func (r *vRegDupRec) Invoke([]Envelope) {}
func (r *vRegDupRec) Shutdown()         {}
func (r *vRegDupRec) Send(_ *PID, msg any, _ *PID) {
	if ev, ok := msg.(ActorDuplicateIdEvent); ok {
		*r.ev = append(*r.ev, "dup:"+ev.PID.ID)
	}
}

// programs: per thread a list of ops a<id> (SpawnProc of a fresh instance), r<id> (Remove), g<id> (get)
func vRunRegSched(progs [][]string, choose func(step int, en []int, last int) int) (trace []vStepRec, log string) {
	e := &Engine{}
	e.Registry = newRegistry(e)
	e.address = LocalLookupAddr
	var stepEvents []string
	rec := &vRegDupRec{pid: NewPID(e.address, "verif/eventrec"), ev: &stepEvents}
	e.Registry.lookup[rec.pid.ID] = rec
	e.eventStream = rec.pid

	c := vsched.New()
	c.Install()
	defer vsched.Uninstall()
	results := make([][]string, len(progs))
	for ti, prog := range progs {
		ti, prog := ti, prog
		c.Go(func() {
			for oi, op := range prog {
				id := op[1:]
				pid := NewPID(e.address, id)
				switch op[0] {
				case 'a':
					inst := (ti+1)*10 + oi
					e.SpawnProc(&vRegProc{pid: pid, inst: inst, ev: &stepEvents})
					results[ti] = append(results[ti], "a")
				case 'r':
					e.Registry.Remove(pid)
					stepEvents = append(stepEvents, "rm:"+id)
					results[ti] = append(results[ti], "r")
				case 'g':
					p := e.Registry.get(pid)
					if rp, ok := p.(*vRegProc); ok {
						results[ti] = append(results[ti], "g"+strconv.Itoa(rp.inst))
					} else {
						results[ti] = append(results[ti], "g-")
					}
				}
			}
		})
	}
	c.WaitSettled()
	var sb strings.Builder
	last := -1
	for step := 0; step < 10000; step++ {
		en := c.Enabled()
		if len(en) == 0 {
			break
		}
		tid := choose(step, en, last)
		stepEvents = stepEvents[:0]
		op, _ := c.Step(tid)
		last = tid
		trace = append(trace, vStepRec{tid, en})
		fmt.Fprintf(&sb, "t%d:%s", tid, op)
		for _, ev := range stepEvents {
			sb.WriteString("+" + ev)
		}
		sb.WriteString(";")
	}
	// final registry content
	var final []string
	for id, p := range e.Registry.lookup {
		if rp, ok := p.(*vRegProc); ok {
			final = append(final, id+"="+strconv.Itoa(rp.inst))
		}
	}
	sort.Strings(final)
	rs := make([]string, len(results))
	for i, r := range results {
		rs[i] = strings.Join(r, ".")
	}
	fmt.Fprintf(&sb, "end:%s:%s", strings.Join(rs, "|"), strings.Join(final, ","))
	return trace, sb.String()
}

func vRegShimActive() bool {
	e := &Engine{}
	e.Registry = newRegistry(e)
	c := vsched.New()
	c.Install()
	defer vsched.Uninstall()
	c.Go(func() { e.Registry.getByID("x") })
	c.WaitSettled()
	n := len(c.Enabled())
	for len(c.Enabled()) > 0 {
		c.Step(c.Enabled()[0])
	}
	return n == 1
}

func vParseProgs(s string) [][]string {
	var progs [][]string
	for _, p := range strings.Split(s, "|") {
		if p == "" {
			progs = append(progs, nil)
		} else {
			progs = append(progs, strings.Split(p, "."))
		}
	}
	return progs
}

func vShowProgs(progs [][]string) string {
	ss := make([]string, len(progs))
	for i, p := range progs {
		ss[i] = strings.Join(p, ".")
	}
	return strings.Join(ss, "|")
}

func TestVerifRegSched(t *testing.T) {
	if !vRegShimActive() {
		t.Fatal("scheduler shim not active for registry.go")
	}
	w, err := vgen.NewWriter("regsched")
	if err != nil {
		t.Fatal(err)
	}
	defer w.Close()
	emit := func(id string, progs [][]string, tr []vStepRec, log string) {
		w.Case(id, "progs="+vShowProgs(progs)+" sched="+vSchedString(tr), log)
	}
	parse := func(in string) ([][]string, []int) {
		s, _ := vgen.KV(in, "progs")
		var sched []int
		if x, ok := vgen.KV(in, "sched"); ok && x != "" {
			for _, y := range strings.Split(x, ",") {
				v, _ := strconv.Atoi(y)
				sched = append(sched, v)
			}
		}
		return vParseProgs(s), sched
	}
	if in, ok := vgen.ReplayInput(); ok {
		progs, sched := parse(in)
		tr, log := vRunRegSched(progs, vReplayChooser(sched))
		emit("replay", progs, tr, log)
		return
	}
	for i, in := range vgen.CorpusInputs() {
		progs, sched := parse(in)
		tr, log := vRunRegSched(progs, vReplayChooser(sched))
		emit(fmt.Sprintf("corpus%d", i), progs, tr, log)
	}
	// exhaustive interleavings (no bound) of small programs
	scopes := [][][]string{
		{{"ax"}, {"ax"}},
		{{"ax"}, {"ax"}, {"ax"}},
		{{"ax", "gx"}, {"ax", "rx"}},
		{{"ax", "rx", "ax"}, {"ax"}},
		{{"ax", "ay"}, {"ay", "ax"}},
		{{"ax"}, {"rx", "ax"}, {"gx"}},
	}
	budget := vgen.Scale(4000, 60000)
	for si, progs := range scopes {
		n := 0
		var explore func(prefix []int)
		explore = func(prefix []int) {
			if n >= budget {
				return
			}
			tr, log := vRunRegSched(progs, vReplayChooser(prefix))
			emit(fmt.Sprintf("dfs%d_%d", si, n), progs, tr, log)
			n++
			for i := len(prefix); i < len(tr); i++ {
				for _, alt := range tr[i].enabled {
					if alt == tr[i].tid {
						continue
					}
					np := make([]int, 0, i+1)
					for _, s := range tr[:i] {
						np = append(np, s.tid)
					}
					explore(append(np, alt))
				}
			}
		}
		explore(nil)
		t.Logf("regsched scope %d %s: %d interleavings (exhausted=%v)", si, vShowProgs(progs), n, n < budget)
	}
	r := vgen.NewRng(vgen.Seed())
	nr := vgen.Scale(3000, 60000)
	for i := 0; i < nr; i++ {
		rr := r.Fork()
		nt := 2 + rr.Intn(2)
		var progs [][]string
		for ti := 0; ti < nt; ti++ {
			k := 1 + rr.Intn(3)
			var p []string
			for j := 0; j < k; j++ {
				p = append(p, vgen.Pick(rr, []string{"a", "a", "r", "g"})+vgen.Pick(rr, []string{"x", "x", "y"}))
			}
			progs = append(progs, p)
		}
		tr, log := vRunRegSched(progs, func(step int, en []int, last int) int { return en[rr.Intn(len(en))] })
		emit(fmt.Sprintf("rnd%d", i), progs, tr, log)
	}
}
