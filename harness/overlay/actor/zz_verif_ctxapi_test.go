package actor

// Injected by /verif (go test -overlay). Stream "ctxapi" (C01): successive Respond / Context.Send / Forward
// calls made by one actor inside one Receive towards one target are ordered by happens-before and must
// arrive exactly once, in that order, carrying the sender the API documents (Respond: none, Send: the
// sending actor, Forward: the forwarding actor with the forwarded message).

import (
	"fmt"
	"strconv"
	"strings"
	"sync"
	"testing"
	"time"

	"github.com/anthdm/hollywood/internal/vgen"
)

type vBurst struct {
	n    int
	mode string
}
type vBurstItem struct{ k int }

func runCtxAPI(t testing.TB, n int, mode string, inbox int) string {
	e, err := NewEngine(NewEngineConfig())
	if err != nil {
		t.Fatal(err)
	}
	var mu sync.Mutex
	var got []string
	client := e.SpawnFunc(func(c *Context) {
		var tok string
		switch m := c.Message().(type) {
		case vBurstItem:
			tok = "v" + strconv.Itoa(m.k)
		case vBurst:
			tok = "burst"
		default:
			return
		}
		snd := "-"
		if c.Sender() != nil {
			snd = c.Sender().ID
		}
		mu.Lock()
		got = append(got, tok+"<"+snd)
		mu.Unlock()
	}, "client", WithID("c"), WithInboxSize(inbox))
	server := e.SpawnFunc(func(c *Context) {
		b, ok := c.Message().(vBurst)
		if !ok {
			return
		}
		for i := 1; i <= b.n; i++ {
			m := b.mode
			if m == "m" {
				m = []string{"r", "s", "f"}[i%3]
			}
			switch m {
			case "r":
				c.Respond(vBurstItem{i})
			case "s":
				c.Send(c.Sender(), vBurstItem{i})
			case "f":
				c.Forward(c.Sender())
			}
		}
	}, "server", WithID("s"))
	e.SendWithSender(server, vBurst{n, mode}, client)
	deadline := time.Now().Add(5 * time.Second)
	for time.Now().Before(deadline) {
		mu.Lock()
		l := len(got)
		mu.Unlock()
		if l >= n {
			break
		}
		time.Sleep(time.Millisecond)
	}
	time.Sleep(3 * time.Millisecond) // duplicates would trail in
	<-e.Poison(server).Done()
	<-e.Poison(client).Done()
	mu.Lock()
	defer mu.Unlock()
	return strings.Join(got, ",")
}

func TestVerifCtxAPI(t *testing.T) {
	w, err := vgen.NewWriter("ctxapi")
	if err != nil {
		t.Fatal(err)
	}
	defer w.Close()
	emit := func(id string, n int, mode string, inbox int) {
		w.Case(id, fmt.Sprintf("n=%d mode=%s inbox=%d", n, mode, inbox), runCtxAPI(t, n, mode, inbox))
	}
	if in, ok := vgen.ReplayInput(); ok {
		m, _ := vgen.KV(in, "mode")
		emit("replay", vgen.KVInt(in, "n", 1), m, vgen.KVInt(in, "inbox", 4))
		return
	}
	for i, in := range vgen.CorpusInputs() {
		m, _ := vgen.KV(in, "mode")
		emit(fmt.Sprintf("corpus%d", i), vgen.KVInt(in, "n", 1), m, vgen.KVInt(in, "inbox", 4))
	}
	r := vgen.NewRng(vgen.Seed())
	for i := 0; i < vgen.Scale(60, 1500); i++ {
		n := 1 + r.Intn(300)
		if r.Chance(1, 10) {
			n = 2000 + r.Intn(3000)
		}
		emit(fmt.Sprintf("g%d", i), n, vgen.Pick(r, []string{"r", "s", "f", "m"}), vgen.Pick(r, []int{1, 2, 3, 1024}))
	}
}
