package actor

// Injected by /verif (go test -overlay). Stream "ctxapi" (C01): successive Respond / Context.Send / Forward
// calls made by one actor inside one Receive towards one target are ordered by happens-before and must
// arrive exactly once, in that order, carrying the sender the API documents (Respond: none, Send: the
// sending actor, Forward: the forwarding actor with the forwarded message).

import (
	"sync/atomic"
	"fmt"
	"strconv"
	"strings"
	"sync"
	"testing"
	"time"

	"github.com/anthdm/hollywood/internal/vgen"
)

type vBurst struct {
	n    int
	mode string
}
type vBurstItem struct{ k int }

func runCtxAPI(t testing.TB, n int, mode string, inbox int) string {
	e, err := NewEngine(NewEngineConfig())
	if err != nil {
		t.Fatal(err)
	}
	var mu sync.Mutex
	var got []string
	client := e.SpawnFunc(func(c *Context) {
		var tok string
		switch m := c.Message().(type) {
		case vBurstItem:
			tok = "v" + strconv.Itoa(m.k)
		case vBurst:
			tok = "burst"
		default:
			return
		}
		snd := "-"
		if c.Sender() != nil {
			snd = c.Sender().ID
		}
		mu.Lock()
		got = append(got, tok+"<"+snd)
		mu.Unlock()
	}, "client", WithID("c"), WithInboxSize(inbox))
	server := e.SpawnFunc(func(c *Context) {
		b, ok := c.Message().(vBurst)
		if !ok {
			return
		}
		for i := 1; i <= b.n; i++ {
			m := b.mode
			if m == "m" {
				m = []string{"r", "s", "f"}[i%3]
			}
			switch m {
			case "r":
				c.Respond(vBurstItem{i})
			case "s":
				c.Send(c.Sender(), vBurstItem{i})
			case "f":
				c.Forward(c.Sender())
			}
		}
	}, "server", WithID("s"))
	e.SendWithSender(server, vBurst{n, mode}, client)
	deadline := time.Now().Add(5 * time.Second)
	for time.Now().Before(deadline) {
		mu.Lock()
		l := len(got)
		mu.Unlock()
		if l >= n {
			break
		}
		time.Sleep(time.Millisecond)
	}
	time.Sleep(3 * time.Millisecond) // duplicates would trail in
	<-e.Poison(server).Done()
	<-e.Poison(client).Done()
	mu.Lock()
	defer mu.Unlock()
	return strings.Join(got, ",")
}

func TestVerifCtxAPI(t *testing.T) {
	w, err := vgen.NewWriter("ctxapi")
	if err != nil {
		t.Fatal(err)
	}
	defer w.Close()
	emit := func(id string, n int, mode string, inbox int) {
		if mode == "b" {
			w.Case(id, fmt.Sprintf("n=%d mode=b inbox=%d", n, inbox), runManyBusy(t, n))
			return
		}
		w.Case(id, fmt.Sprintf("n=%d mode=%s inbox=%d", n, mode, inbox), runCtxAPI(t, n, mode, inbox))
	}
	if in, ok := vgen.ReplayInput(); ok {
		m, _ := vgen.KV(in, "mode")
		emit("replay", vgen.KVInt(in, "n", 1), m, vgen.KVInt(in, "inbox", 4))
		return
	}
	for i, in := range vgen.CorpusInputs() {
		m, _ := vgen.KV(in, "mode")
		emit(fmt.Sprintf("corpus%d", i), vgen.KVInt(in, "n", 1), m, vgen.KVInt(in, "inbox", 4))
	}
	emit("busy", 600, "b", 1024) // 600 actors of two engines are inside Receive at the same time; an idle one gets a message
	r := vgen.NewRng(vgen.Seed())
	for i := 0; i < vgen.Scale(60, 1500); i++ {
		n := 1 + r.Intn(300)
		if r.Chance(1, 10) {
			n = 2000 + r.Intn(3000)
		}
		emit(fmt.Sprintf("g%d", i), n, vgen.Pick(r, []string{"r", "s", "f", "m"}), vgen.Pick(r, []int{1, 2, 3, 1024}))
	}
}


// runManyBusy: n actors, spread over two engines of this process, are blocked inside Receive (waiting on a channel, as an
// actor waiting for a reply would); a message to one more actor, on a third engine, must still be handed to it promptly.
func runManyBusy(t testing.TB, n int) string {
	gate := make(chan struct{})
	var inside int32
	var engines []*Engine
	for k := 0; k < 3; k++ {
		e, err := NewEngine(NewEngineConfig())
		if err != nil {
			t.Fatal(err)
		}
		engines = append(engines, e)
	}
	var pids []*PID
	for i := 0; i < n; i++ {
		e := engines[i%2]
		pid := e.SpawnFunc(func(c *Context) {
			if _, ok := c.Message().(vUser); ok {
				atomic.AddInt32(&inside, 1)
				<-gate
			}
		}, "busy", WithID(strconv.Itoa(i)))
		e.Send(pid, vUser{i})
		pids = append(pids, pid)
	}
	deadline := time.Now().Add(5 * time.Second)
	for atomic.LoadInt32(&inside) < int32(n) && time.Now().Before(deadline) {
		time.Sleep(time.Millisecond)
	}
	if k := atomic.LoadInt32(&inside); k < int32(n) {
		close(gate)
		return fmt.Sprintf("NOT-DELIVERED(only %d of %d actors were handed their message)", k, n)
	}
	got := make(chan struct{}, 1)
	idle := engines[2].SpawnFunc(func(c *Context) {
		if _, ok := c.Message().(vUser); ok {
			got <- struct{}{}
		}
	}, "idle", WithID("x"))
	engines[2].Send(idle, vUser{-1})
	res := "delivered"
	select {
	case <-got:
	case <-time.After(3 * time.Second):
		res = "NOT-DELIVERED(a live, idle actor did not get its message while " + strconv.Itoa(n) + " others were busy)"
	}
	close(gate)
	for i, p := range pids {
		<-engines[i%2].Poison(p).Done()
	}
	<-engines[2].Poison(idle).Done()
	return res
}
