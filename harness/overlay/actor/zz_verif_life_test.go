package actor

// Injected by /verif (go test -overlay). H-sys stream "life" (C04, C05, C01, C07): a real actor on a real
// engine with concurrent senders that start as soon as the PID is registered (while Started is still being
// handled), messages that crash the receiver, restarts with a delay while the senders keep sending, and a
// final Poison. The actor's own log of what it handled, per incarnation, is judged by the life-cycle and
// per-sender-order acceptors.

import (
	"sync/atomic"
	"fmt"
	"strconv"
	"strings"
	"sync"
	"testing"
	"time"

	"github.com/anthdm/hollywood/internal/vgen"
)

type vLifeMsg struct {
	s, j int
	boom bool
	slow bool
	hold bool
}

type vLifeH struct {
	mu      sync.Mutex
	log     []string
	inc     int
	release chan struct{}
	holdCh  chan struct{}
	first   bool
	inflight int32
	overlap  bool
	// the successor: an actor that the FINAL Stopped handler spawns (default options) and writes to at once
	final     bool
	succPID   *PID
	succIn    int32 // Receive calls of the successor in progress
	succOver  bool
	succGot   []int
}

type vSuccMsg struct{ n int }

func (h *vLifeH) succRecv(c *Context) {
	if m, ok := c.Message().(vSuccMsg); ok {
		if atomic.AddInt32(&h.succIn, 1) > 1 {
			h.mu.Lock()
			h.succOver = true
			h.mu.Unlock()
		}
		time.Sleep(20 * time.Microsecond)
		h.mu.Lock()
		h.succGot = append(h.succGot, m.n)
		h.mu.Unlock()
		atomic.AddInt32(&h.succIn, -1)
	}
}

type vLifeRecv struct {
	h   *vLifeH
	inc int
}

func (r *vLifeRecv) Receive(c *Context) {
	h := r.h
	// Receive calls of THIS actor (all incarnations) in progress: never more than one (C02)
	if atomic.AddInt32(&h.inflight, 1) > 1 {
		h.mu.Lock()
		h.overlap = true
		h.mu.Unlock()
	}
	defer atomic.AddInt32(&h.inflight, -1)
	switch m := c.Message().(type) {
	case Initialized:
		h.add(fmt.Sprintf("R%d:I", r.inc))
	case Started:
		h.add(fmt.Sprintf("R%d:S", r.inc))
		if r.inc == 1 {
			<-h.release // keep the spawning goroutine inside Started while the senders already send
		}
	case Stopped:
		h.add(fmt.Sprintf("R%d:X", r.inc))
		h.mu.Lock()
		final := h.final
		h.mu.Unlock()
		// (a Stopped that is handled while the actor is still registered belongs to a crash-restart, not to the end)
		if final && h.succPID == nil && c.Engine().Registry.get(c.PID()) == nil { // hand over to a successor, as a supervisor-like actor might
			pid := c.Engine().SpawnFunc(h.succRecv, "lifesucc", WithID(c.PID().ID))
			h.mu.Lock()
			h.succPID = pid
			h.mu.Unlock()
			for i := 0; i < 40; i++ {
				c.Engine().Send(pid, vSuccMsg{i})
			}
		}
	case vLifeMsg:
		snd := "-"
		if c.Sender() != nil {
			snd = c.Sender().ID
		}
		h.add(fmt.Sprintf("R%d:m%d.%d<%s", r.inc, m.s, m.j, snd))
		if m.hold {
			<-h.holdCh // parked until every sender has finished: everything sent meanwhile piles up behind this message
		}
		if m.slow {
			time.Sleep(time.Millisecond) // lets a backlog build up: the ring wraps and grows while the actor is busy
		}
		if m.boom {
			panic([]string{"scripted crash"}) // an uncomparable panic value
		}
	}
}

func (h *vLifeH) add(s string) {
	h.mu.Lock()
	h.log = append(h.log, s)
	h.mu.Unlock()
}

// plan: per sender a string over {o, b} (ordinary / crashing message); budget = number of b's (+ spare)
// restart delay of the actors of this stream (one thorough-tier case uses a delay of more than a second)
var vLifeDelay = 2 * time.Millisecond

func runLife(t testing.TB, plan []string, spare int, inbox int, stop string) string {
	e, err := NewEngine(NewEngineConfig())
	if err != nil {
		t.Fatal(err)
	}
	h := &vLifeH{release: make(chan struct{}), holdCh: make(chan struct{})}
	booms := 0
	for _, p := range plan {
		booms += strings.Count(p, "b")
	}
	id := strconv.FormatInt(time.Now().UnixNano(), 36)
	pidWant := NewPID(e.address, "life/"+id)
	var wg sync.WaitGroup
	for s, p := range plan {
		s, p := s, p
		wg.Add(1)
		go func() {
			defer wg.Done()
			for e.Registry.GetPID("life", id) == nil { // from the moment Spawn registered it
				time.Sleep(50 * time.Microsecond)
			}
			var self *PID
			if s%2 == 1 {
				self = NewPID(e.address, "snd"+strconv.Itoa(s))
			}
			for j, ch := range p {
				e.SendWithSender(pidWant, vLifeMsg{s, j, ch == 'b', ch == 'z', ch == 'h'}, self)
				if j%3 == 2 {
					time.Sleep(200 * time.Microsecond)
				}
			}
		}()
	}
	spawned := make(chan *PID, 1)
	go func() {
		spawned <- e.Spawn(func() Receiver {
			h.mu.Lock()
			h.inc++
			inc := h.inc
			h.mu.Unlock()
			return &vLifeRecv{h: h, inc: inc}
		}, "life", WithID(id), WithMaxRestarts(booms+spare), WithRestartDelay(vLifeDelay), WithInboxSize(inbox))
	}()
	time.Sleep(3 * time.Millisecond) // senders run while Started is being handled
	startedBeforeReturn := "1"
	select {
	case <-spawned:
		startedBeforeReturn = "0" // Spawn returned although Started has not finished
	default:
	}
	close(h.release)
	var pid *PID
	select {
	case pid = <-spawned:
	case <-time.After(5 * time.Second):
		return "SPAWN-HANG"
	}
	// a second Spawn of the same kind and id while the senders are still at work: a duplicate, refused; it must leave
	// the live actor, its registration and its pending messages untouched (and must not run the producer)
	mkTwin := func() Receiver {
		h.mu.Lock()
		h.inc++
		inc := h.inc
		h.mu.Unlock()
		return &vLifeRecv{h: h, inc: inc}
	}
	e.Spawn(mkTwin, "life", WithID(id), WithMaxRestarts(booms+spare), WithRestartDelay(vLifeDelay), WithInboxSize(inbox))
	wg.Wait()
	close(h.holdCh)
	res := "done"
	var done <-chan struct{}
	h.mu.Lock()
	h.final = true
	h.mu.Unlock()
	if stop == "stop" {
		// a non-graceful stop may drop what is still queued: wait until everything was handled first
		total := 0
		for _, p := range plan {
			total += len(p)
		}
		vWaitLife(func() bool {
			h.mu.Lock()
			defer h.mu.Unlock()
			n := 0
			for _, l := range h.log {
				if strings.Contains(l, ":m") {
					n++
				}
			}
			return n >= total
		})
		done = e.Stop(pid).Done()
	} else {
		done = e.Poison(pid).Done()
	}
	select {
	case <-done:
		if e.Registry.get(pid) != nil {
			res = "done!still-registered"
		}
	case <-time.After(5 * time.Second):
		res = "HANG"
	}
	// a send after the context is done must be a dead letter, not a delivery
	e.Send(pid, vLifeMsg{99, 0, false, false, false})
	time.Sleep(2 * time.Millisecond)
	// the successor spawned by the final Stopped handler: 40 messages from the handler, 40 more from here
	succ := "none"
	h.mu.Lock()
	sp := h.succPID
	h.mu.Unlock()
	if sp != nil {
		for i := 40; i < 80; i++ {
			e.Send(sp, vSuccMsg{i})
		}
		vWaitLife(func() bool { h.mu.Lock(); defer h.mu.Unlock(); return len(h.succGot) >= 80 })
		h.mu.Lock()
		succ = "ok"
		if len(h.succGot) != 80 {
			succ = fmt.Sprintf("LOST(%d-of-80)", len(h.succGot))
		} else {
			for i, n := range h.succGot {
				if n != i {
					succ = "DISORDER"
					break
				}
			}
		}
		if h.succOver {
			succ = "OVERLAP"
		}
		h.mu.Unlock()
		<-e.Poison(sp).Done()
	}
	h.mu.Lock()
	defer h.mu.Unlock()
	ovl := "0"
	if h.overlap {
		ovl = "1"
	}
	return res + " sbr=" + startedBeforeReturn + " succ=" + succ + " ovl=" + ovl + " log=" + strings.Join(h.log, ",")
}

func vWaitLife(cond func() bool) {
	deadline := time.Now().Add(5 * time.Second)
	for time.Now().Before(deadline) && !cond() {
		time.Sleep(time.Millisecond)
	}
}

func TestVerifLife(t *testing.T) {
	w, err := vgen.NewWriter("life")
	if err != nil {
		t.Fatal(err)
	}
	defer w.Close()
	emit := func(id string, plan []string, spare, inbox int, stop string) {
		w.Case(id, fmt.Sprintf("plan=%s spare=%d inbox=%d end=%s", strings.Join(plan, "/"), spare, inbox, stop), runLife(t, plan, spare, inbox, stop))
	}
	parse := func(in string) ([]string, int, int, string) {
		p, _ := vgen.KV(in, "plan")
		st, _ := vgen.KV(in, "end")
		return strings.Split(p, "/"), vgen.KVInt(in, "spare", 0), vgen.KVInt(in, "inbox", 4), st
	}
	for i := 0; i < vgen.Scale(0, 1); i++ { // thorough tier only: a restart delay above one second with a backlog of slow messages behind the crash
		vLifeDelay = 1100 * time.Millisecond
		plan := []string{"ob" + strings.Repeat("z", 1500), "ooo"}
		w.Case("slowrestart", fmt.Sprintf("plan=%s spare=0 inbox=4 end=poison delay=1100", strings.Join(plan, "/")), runLife(t, plan, 0, 4, "poison"))
		vLifeDelay = 2 * time.Millisecond
	}
	if in, ok := vgen.ReplayInput(); ok {
		p, sp, ib, st := parse(in)
		emit("replay", p, sp, ib, st)
		return
	}
	for i, in := range vgen.CorpusInputs() {
		p, sp, ib, st := parse(in)
		emit(fmt.Sprintf("corpus%d", i), p, sp, ib, st)
	}
	r := vgen.NewRng(vgen.Seed())
	n := vgen.Scale(150, 3000)
	for i := 0; i < n; i++ {
		rr := r.Fork()
		k := 1 + rr.Intn(4)
		var plan []string
		for s := 0; s < k; s++ {
			m := 1 + rr.Intn(30)
			if rr.Chance(1, 10) {
				m = 200 + rr.Intn(300)
			}
			var sb strings.Builder
			for j := 0; j < m; j++ {
				if rr.Chance(1, 12) {
					sb.WriteByte('b')
				} else if rr.Chance(1, 10) {
					sb.WriteByte('z')
				} else {
					sb.WriteByte('o')
				}
			}
			p := sb.String()
			if s == 0 && rr.Chance(1, 2) && len(p) > 2 { // park the actor on one of the first sender's messages
				at := 1 + rr.Intn(len(p)-1)
				p = p[:at] + "h" + p[at+1:]
			}
			plan = append(plan, p)
		}
		emit(fmt.Sprintf("g%d", i), plan, rr.Intn(2), vgen.Pick(rr, []int{1, 2, 3, 4, 5, 1024}), vgen.Pick(rr, []string{"poison", "poison", "stop"}))
	}
}
