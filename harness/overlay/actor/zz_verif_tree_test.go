package actor

// Injected by /verif (go test -overlay). Harnesses for C08:
//   stream "tree"       — real engine, real actors: supervision trees built with SpawnChild, then sequential
//                          stop / poison / self-stop / crash of arbitrary nodes; a global log records the order in
//                          which actors handle Stopped and whether each was already unregistered
//   stream "childsched" — Context.Children() against concurrent Set/Delete on the real safemap.go (built with the
//                          yielding sync shim) under the deterministic scheduler

import (
	"sync/atomic"
	"context"
	"fmt"
	"sort"
	"strconv"
	"strings"
	"sync"
	"testing"
	"time"

	"github.com/anthdm/hollywood/internal/vgen"
	"github.com/anthdm/hollywood/internal/vshim/vsched"
)

type vTreeH struct {
	mu    sync.Mutex
	e     *Engine
	order []string // "X:<path>:<registered 0|1>" in the order Stopped was handled
	ctx   context.Context // non-nil: every actor of this history is spawned WithContext(ctx), and ctx is ALREADY cancelled
	budget   int               // MaxRestarts of every actor of this history (ry roots: 1)
	inflight map[string]*int32 // per actor: number of Receive calls in progress (C02: never more than one)
}

func (h *vTreeH) enter(path string) func() {
	h.mu.Lock()
	if h.inflight == nil {
		h.inflight = map[string]*int32{}
	}
	c := h.inflight[path]
	if c == nil {
		c = new(int32)
		h.inflight[path] = c
	}
	h.mu.Unlock()
	if atomic.AddInt32(c, 1) > 1 {
		h.mu.Lock()
		h.order = append(h.order, "O:"+path+":1") // two Receive calls of one actor overlap
		h.mu.Unlock()
	}
	return func() { atomic.AddInt32(c, -1) }
}

func (h *vTreeH) opts() []OptFunc {
	o := []OptFunc{WithID("n"), WithMaxRestarts(h.budget), WithInboxSize(4), WithRestartDelay(time.Millisecond)}
	if h.ctx != nil {
		o = append(o, WithContext(h.ctx))
	}
	return o
}

type vTreeSpawn struct {
	name         string
	ack          chan string
	crashOnStart bool
}
type vTreeQuery struct{ ack chan string }
type vTreeSelfStop struct{}
type vTreeCrash struct{}
type vTreeHold struct {
	ack chan struct{}
	ch  chan struct{}
}

type vTreeActor struct {
	h            *vTreeH
	path         string
	crashOnStart bool
	slowStop     bool
}

type vTreeSlowStop struct{ ack chan struct{} }

func (a *vTreeActor) Receive(c *Context) {
	defer a.h.enter(a.path)()
	switch m := c.Message().(type) {
	case Started:
		if a.crashOnStart {
			panic("scripted crash in Started")
		}
	case Stopped:
		reg := "0"
		if a.h.e.Registry.get(c.PID()) != nil {
			reg = "1"
		}
		if a.slowStop {
			time.Sleep(1300 * time.Millisecond) // a Stopped handler that takes longer than a second
		}
		// logged when the handler is done: "has handled Stopped"
		a.h.mu.Lock()
		a.h.order = append(a.h.order, "X:"+a.path+":"+reg)
		a.h.mu.Unlock()
	case vTreeSlowStop:
		a.slowStop = true
		m.ack <- struct{}{}
	case vTreeSpawn:
		child := a.path + "." + m.name
		pid := c.SpawnChild(func() Receiver { return &vTreeActor{h: a.h, path: child, crashOnStart: m.crashOnStart} }, m.name, a.h.opts()...)
		m.ack <- pid.ID
	case vTreeQuery:
		var names []string
		bad := ""
		for _, p := range c.Children() {
			if p == nil {
				bad = "!nil-entry"
				continue
			}
			names = append(names, p.ID)
		}
		sort.Strings(names)
		par := "-"
		if c.Parent() != nil {
			par = c.Parent().ID
		}
		m.ack <- "children=" + strings.Join(names, "+") + bad + " parent=" + par
	case vTreeSelfStop:
		c.Engine().Poison(c.PID())
	case vTreeCrash:
		panic("scripted crash")
	case vTreeHold:
		m.ack <- struct{}{}
		<-m.ch
	}
}

// vTreeEvents counts ActorDuplicateIdEvents; it is a synchronous subscriber of the event stream.
type vTreeEvents struct {
	pid  *PID
	mu   sync.Mutex
	dups int
	mk   chan struct{}
}
type vTreeMarker struct{}

func (r *vTreeEvents) Start()            {}
func (r *vTreeEvents) PID() *PID         { return r.pid }
func (r *vTreeEvents) Invoke([]Envelope) {}
func (r *vTreeEvents) Shutdown()         {}
func (r *vTreeEvents) Send(_ *PID, msg any, _ *PID) {
	r.mu.Lock()
	defer r.mu.Unlock()
	switch msg.(type) {
	case ActorDuplicateIdEvent:
		r.dups++
	case vTreeMarker:
		if r.mk != nil {
			close(r.mk)
			r.mk = nil
		}
	}
}

// flushDups waits until the event stream has handled everything broadcast so far and returns (and resets) the count.
func (r *vTreeEvents) flushDups(e *Engine) int {
	mk := make(chan struct{})
	r.mu.Lock()
	r.mk = mk
	r.mu.Unlock()
	e.BroadcastEvent(vTreeMarker{})
	select {
	case <-mk:
	case <-time.After(3 * time.Second):
	}
	r.mu.Lock()
	defer r.mu.Unlock()
	n := r.dups
	r.dups = 0
	return n
}

// node ids: the root is "root/n"; a child named x of a node with id P is P + "/x/n"
func vTreeID(path string) string {
	parts := strings.Split(path, ".")
	id := parts[0] + "/n"
	for _, p := range parts[1:] {
		id = id + "/" + p + "/n"
	}
	return id
}

func runTreeHistory(t testing.TB, ops []string) string {
	e, err := NewEngine(NewEngineConfig())
	if err != nil {
		t.Fatal(err)
	}
	h := &vTreeH{e: e}
	evs := &vTreeEvents{pid: NewPID(e.address, "verif/treeevents")}
	e.SpawnProc(evs)
	e.Subscribe(evs.pid)
	live := map[string]bool{}
	pidOf := func(path string) *PID { return NewPID(e.address, vTreeID(path)) }
	takeOrder := func() []string {
		h.mu.Lock()
		defer h.mu.Unlock()
		o := h.order
		h.order = nil
		return o
	}
	waitGone := func(paths []string) bool {
		deadline := time.Now().Add(3 * time.Second)
		for time.Now().Before(deadline) {
			all := true
			for _, p := range paths {
				if e.Registry.get(pidOf(p)) != nil {
					all = false
				}
			}
			h.mu.Lock()
			n := len(h.order)
			h.mu.Unlock()
			if all && n >= len(paths) {
				return true
			}
			time.Sleep(time.Millisecond)
		}
		return false
	}
	subtree := func(path string) []string {
		var ps []string
		for p := range live {
			if p == path || strings.HasPrefix(p, path+".") {
				ps = append(ps, p)
			}
		}
		sort.Strings(ps)
		return ps
	}
	held := map[string]vTreeHold{}
	var sentinel *PID
	crashed := map[string]bool{}
	var out []string
	for _, op := range ops {
		kind, arg := op[:2], op[2:]
		switch kind {
		case "rt", "rx", "ry": // spawn a root; rx: the user context of every actor (WithContext) is already cancelled; ry: restart budget 1
			if kind == "ry" {
				h.budget = 1
			}
			if kind == "rx" {
				cctx, cancel := context.WithCancel(context.Background())
				cancel()
				h.ctx = cctx
			}
			e.Spawn(func() Receiver { return &vTreeActor{h: h, path: arg} }, arg, h.opts()...)
			if sentinel == nil { // an unrelated actor whose id merely EXTENDS the root's id as a string ("r/n" -> "r/n1")
				sentinel = e.SpawnFunc(func(*Context) {}, arg, WithID("n1"))
			}
			live[arg] = true
			out = append(out, "ok")
		case "sc", "sx": // sc<parentpath>:<name>; sx = the child panics in Started (budget 0): it is gone when SpawnChild returns
			f := strings.SplitN(arg, ":", 2)
			if !live[f[0]] || live[f[0]+"."+f[1]] {
				out = append(out, "skip")
				continue
			}
			ack := make(chan string, 1)
			takeOrder()
			e.Send(pidOf(f[0]), vTreeSpawn{f[1], ack, kind == "sx"})
			select {
			case id := <-ack:
				if kind == "sx" {
					takeOrder()
					res := "spawned-dead=" + id
					if e.Registry.get(NewPID(e.address, id)) != nil {
						res += "!still-registered" // an actor that exhausted its budget during its own start must be gone
					}
					out = append(out, res)
				} else {
					live[f[0]+"."+f[1]] = true
					out = append(out, "spawned="+id)
				}
			case <-time.After(3 * time.Second):
				out = append(out, "NOSPAWN")
			}
		case "sd": // sd<parent>:<name>: SpawnChild of a name that is already taken: a duplicate, nothing may change
			f := strings.SplitN(arg, ":", 2)
			if !live[f[0]] || !live[f[0]+"."+f[1]] {
				out = append(out, "skip")
				continue
			}
			ack := make(chan string, 1)
			evs.flushDups(e) // forget duplicate-id events of earlier operations
			e.Send(pidOf(f[0]), vTreeSpawn{f[1], ack, false})
			select {
			case id := <-ack:
				out = append(out, "dup="+id+" dupev="+strconv.Itoa(evs.flushDups(e)))
			case <-time.After(3 * time.Second):
				out = append(out, "NOSPAWN")
			}
		case "ch":
			if !live[arg] {
				out = append(out, "skip")
				continue
			}
			ack := make(chan string, 1)
			e.Send(pidOf(arg), vTreeQuery{ack})
			select {
			case r := <-ack:
				out = append(out, r)
			case <-time.After(3 * time.Second):
				out = append(out, "NOANSWER")
			}
		case "st", "po", "ss", "cr":
			if !live[arg] {
				out = append(out, "skip")
				continue
			}
			if kind == "cr" && h.budget == 1 && !crashed[arg] {
				// first crash of this actor, within its budget: it is restarted; its children stay its children
				crashed[arg] = true
				takeOrder()
				e.Send(pidOf(arg), vTreeCrash{})
				ack := make(chan string, 1)
				e.Send(pidOf(arg), vTreeQuery{ack})
				select {
				case r := <-ack:
					out = append(out, "restarted "+r)
				case <-time.After(3 * time.Second):
					out = append(out, "restarted NOANSWER")
				}
				takeOrder() // the crashed incarnation's own Stopped
				continue
			}
			sub := subtree(arg)
			takeOrder()
			res := "done"
			switch kind {
			case "st", "po":
				var done <-chan struct{}
				if kind == "st" {
					done = e.Stop(pidOf(arg)).Done()
				} else {
					done = e.Poison(pidOf(arg)).Done()
				}
				select {
				case <-done:
					// at the moment the context is done everything below must be gone already
					for _, p := range sub {
						if e.Registry.get(pidOf(p)) != nil {
							res = "done!still-registered:" + p
						}
					}
				case <-time.After(3 * time.Second):
					res = "HANG"
				}
			case "ss":
				e.Send(pidOf(arg), vTreeSelfStop{})
			case "cr":
				e.Send(pidOf(arg), vTreeCrash{})
			}
			if res != "HANG" && !waitGone(sub) {
				res += "!not-all-stopped"
			}
			for _, p := range sub {
				delete(live, p)
				delete(crashed, p)
			}
			out = append(out, res+" order="+strings.Join(takeOrder(), ","))
		case "tp", "tq": // tp<parent>: the parent shuts down; while it waits for a slow child a third party stops a sibling (tq: the slow child stays busy for 5.5 s)
			var kids []string
			for p := range live {
				if strings.HasPrefix(p, arg+".") && !strings.Contains(p[len(arg)+1:], ".") {
					kids = append(kids, p)
				}
			}
			sort.Strings(kids)
			busy := false
			for hp := range held {
				if hp == arg || strings.HasPrefix(hp, arg+".") {
					busy = true
				}
			}
			if !live[arg] || len(kids) < 2 || busy {
				out = append(out, "skip")
				continue
			}
			slow, victim := kids[0], kids[len(kids)-1]
			sub := subtree(arg)
			takeOrder()
			hd := vTreeHold{make(chan struct{}, 1), make(chan struct{})}
			e.Send(pidOf(slow), hd)
			<-hd.ack
			done := e.Poison(pidOf(arg)).Done()
			// synchronisation point: the parent's pill sits in the slow child's inbox. From here on the parent
			// waits for the slow child, and the victim is either gone already (it came first) or untouched.
			queued := func() bool {
				if pr, ok := e.Registry.get(pidOf(slow)).(*process); ok {
					if in, ok := pr.inbox.(*Inbox); ok {
						return in.rb.Len() >= 1
					}
				}
				return false
			}
			deadline := time.Now().Add(3 * time.Second)
			for !queued() && time.Now().Before(deadline) {
				time.Sleep(time.Millisecond)
			}
			res := "done"
			if !queued() {
				res = "NOPILL"
			}
			if e.Registry.get(pidOf(victim)) != nil {
				select {
				case <-e.Poison(pidOf(victim)).Done():
				case <-time.After(3 * time.Second):
					res = "VICTIM-HANG"
				}
			}
			if kind == "tq" {
				time.Sleep(5500 * time.Millisecond) // the slow child is still inside Receive, long after the parent began to stop
			}
			close(hd.ch)
			select {
			case <-done:
				for _, p := range sub {
					if e.Registry.get(pidOf(p)) != nil {
						res = "done!still-registered:" + p
					}
				}
			case <-time.After(3 * time.Second):
				res = "HANG"
			}
			if res != "HANG" && !waitGone(sub) {
				res += "!not-all-stopped"
			}
			for _, p := range sub {
				delete(live, p)
				delete(crashed, p)
			}
			out = append(out, res+" order="+strings.Join(takeOrder(), ","))
		case "zs": // zs<path>: from now on this node's Stopped handler takes 1.3 s
			if !live[arg] {
				out = append(out, "skip")
				continue
			}
			ack := make(chan struct{}, 1)
			e.Send(pidOf(arg), vTreeSlowStop{ack})
			select {
			case <-ack:
				out = append(out, "slow")
			case <-time.After(3 * time.Second):
				out = append(out, "NOANSWER")
			}
		case "hp": // hold a node inside Receive and queue a graceful pill behind the hold (a third party poisons it)
			if !live[arg] {
				out = append(out, "skip")
				continue
			}
			hd := vTreeHold{make(chan struct{}, 1), make(chan struct{})}
			e.Send(pidOf(arg), hd)
			<-hd.ack
			e.Poison(pidOf(arg))
			held[arg] = hd
			out = append(out, "held")
		case "rh": // release a held node
			if hd, ok := held[arg]; ok {
				close(hd.ch)
				delete(held, arg)
				out = append(out, "released")
			} else {
				out = append(out, "skip")
			}
		}
	}
	for _, hd := range held {
		close(hd.ch)
	}
	// the bystander must have been left alone, whatever stopped, crashed or ran out of restarts in this history
	if sentinel != nil && e.Registry.get(sentinel) == nil && len(out) > 0 {
		out[len(out)-1] += "!bystander-" + sentinel.ID + "-was-unregistered"
	}
	return strings.Join(out, ";")
}

func TestVerifTree(t *testing.T) {
	w, err := vgen.NewWriter("tree")
	if err != nil {
		t.Fatal(err)
	}
	defer w.Close()
	emit := func(id string, ops []string) {
		w.Case(id, "ops="+strings.Join(ops, ","), runTreeHistory(t, ops))
	}
	if in, ok := vgen.ReplayInput(); ok {
		s, _ := vgen.KV(in, "ops")
		emit("replay", strings.Split(s, ","))
		return
	}
	for i, in := range vgen.CorpusInputs() {
		s, _ := vgen.KV(in, "ops")
		emit(fmt.Sprintf("corpus%d", i), strings.Split(s, ","))
	}
	for i := 0; i < vgen.Scale(0, 2); i++ { // thorough tier only: a child that stays busy for seconds while its parent stops
		emit(fmt.Sprintf("long%d", i), []string{"rtr", "scr:a", "scr:b", "scr.a:c", "tqr", "chr"})
	}
	r := vgen.NewRng(vgen.Seed())
	n := vgen.Scale(900, 6000)
	names := []string{"a", "b", "c", "d"}
	for i := 0; i < n; i++ {
		rr := r.Fork()
		ops := []string{"rtr"}
		if rr.Chance(1, 4) {
			ops = []string{"rxr"} // the user's own context (WithContext) is cancelled: no bearing on stopping
		} else if rr.Chance(1, 4) {
			ops = []string{"ryr"} // restart budget 1: the first crash of an actor restarts it (children kept), the second stops it
		}
		nodes := []string{"r"}
		// build a random tree: depth <= 4, fan-out <= 4
		nb := 1 + rr.Intn(9)
		for j := 0; j < nb; j++ {
			p := vgen.Pick(rr, nodes)
			if strings.Count(p, ".") >= 3 {
				continue
			}
			nm := vgen.Pick(rr, names)
			child := p + "." + nm
			dup := false
			for _, x := range nodes {
				if x == child {
					dup = true
				}
			}
			if dup {
				continue
			}
			if rr.Chance(1, 8) {
				ops = append(ops, "sx"+p+":"+nm+"x", "ch"+p) // a child that dies during its own spawn must not be listed
				continue
			}
			ops = append(ops, "sc"+p+":"+nm)
			nodes = append(nodes, child)
			if rr.Chance(1, 6) {
				ops = append(ops, "sd"+p+":"+nm, "ch"+p) // a duplicate SpawnChild must leave the existing child in place
			}
		}
		k := 1 + rr.Intn(5)
		for j := 0; j < k; j++ {
			p := vgen.Pick(rr, nodes)
			ops = append(ops, vgen.Pick(rr, []string{"ch", "ch", "st", "po", "ss", "cr", "tp"})+p)
			if rr.Chance(1, 2) {
				ops = append(ops, "ch"+vgen.Pick(rr, nodes))
			}
		}
		if rr.Chance(1, 40) && len(nodes) > 1 { // one node whose Stopped handler is slow (costs 1.3 s of real time)
			ops = append(ops, "zs"+nodes[1+rr.Intn(len(nodes)-1)])
		}
		ops = append(ops, "chr", "por")
		emit(fmt.Sprintf("g%d", i), ops)
	}
}

// ------------------------------------------------------------------ stream childsched

func vRunChildSched(progs [][]string, choose func(step int, en []int, last int) int) (trace []vStepRec, log string) {
	e := &Engine{}
	e.Registry = newRegistry(e)
	ctx := newContext(nil, e, NewPID("local", "p"))
	ctx.children.Set("k0", NewPID("local", "p/k0"))
	c := vsched.New()
	c.Install()
	defer vsched.Uninstall()
	results := make([][]string, len(progs))
	for ti, prog := range progs {
		ti, prog := ti, prog
		c.Go(func() {
			for _, op := range prog {
				switch op[0] {
				case 'c':
					res := func() (r string) {
						defer func() {
							if v := recover(); v != nil {
								r = "PANIC"
							}
						}()
						var ids []string
						for _, p := range ctx.Children() {
							if p == nil {
								ids = append(ids, "NIL")
							} else {
								ids = append(ids, strings.TrimPrefix(p.ID, "p/"))
							}
						}
						sort.Strings(ids)
						return "c[" + strings.Join(ids, "+") + "]"
					}()
					results[ti] = append(results[ti], res)
				case 's':
					ctx.children.Set(op[1:], NewPID("local", "p/"+op[1:]))
					results[ti] = append(results[ti], "s")
				case 'd':
					ctx.children.Delete(op[1:])
					results[ti] = append(results[ti], "d")
				}
			}
		})
	}
	c.WaitSettled()
	var sb strings.Builder
	last := -1
	for step := 0; step < 10000; step++ {
		en := c.Enabled()
		if len(en) == 0 {
			break
		}
		tid := choose(step, en, last)
		op, _ := c.Step(tid)
		last = tid
		trace = append(trace, vStepRec{tid, en})
		fmt.Fprintf(&sb, "t%d:%s;", tid, op)
	}
	rs := make([]string, len(results))
	for i, r := range results {
		rs[i] = strings.Join(r, ".")
	}
	fmt.Fprintf(&sb, "end:%s", strings.Join(rs, "|"))
	return trace, sb.String()
}

func TestVerifChildSched(t *testing.T) {
	// shim active?
	{
		e := &Engine{}
		e.Registry = newRegistry(e)
		ctx := newContext(nil, e, NewPID("local", "p"))
		c := vsched.New()
		c.Install()
		c.Go(func() { ctx.children.Len() })
		c.WaitSettled()
		n := len(c.Enabled())
		for len(c.Enabled()) > 0 {
			c.Step(c.Enabled()[0])
		}
		vsched.Uninstall()
		if n != 1 {
			t.Fatal("scheduler shim not active for safemap.go")
		}
	}
	w, err := vgen.NewWriter("childsched")
	if err != nil {
		t.Fatal(err)
	}
	defer w.Close()
	emit := func(id string, progs [][]string, tr []vStepRec, log string) {
		w.Case(id, "progs="+vShowProgs(progs)+" sched="+vSchedString(tr), log)
	}
	parse := func(in string) ([][]string, []int) {
		s, _ := vgen.KV(in, "progs")
		var sched []int
		if x, ok := vgen.KV(in, "sched"); ok && x != "" {
			for _, y := range strings.Split(x, ",") {
				v, _ := strconv.Atoi(y)
				sched = append(sched, v)
			}
		}
		return vParseProgs(s), sched
	}
	if in, ok := vgen.ReplayInput(); ok {
		progs, sched := parse(in)
		tr, log := vRunChildSched(progs, vReplayChooser(sched))
		emit("replay", progs, tr, log)
		return
	}
	for i, in := range vgen.CorpusInputs() {
		progs, sched := parse(in)
		tr, log := vRunChildSched(progs, vReplayChooser(sched))
		emit(fmt.Sprintf("corpus%d", i), progs, tr, log)
	}
	scopes := [][][]string{
		{{"c"}, {"dk0"}},
		{{"c"}, {"sk1"}},
		{{"c", "c"}, {"sk1", "dk0"}},
		{{"c"}, {"dk0"}, {"sk1"}},
		{{"c"}, {"sk1", "sk2"}, {"dk0", "c"}},
	}
	for si, progs := range scopes {
		n := 0
		var explore func(prefix []int)
		explore = func(prefix []int) {
			if n >= 20000 {
				return
			}
			tr, log := vRunChildSched(progs, vReplayChooser(prefix))
			emit(fmt.Sprintf("dfs%d_%d", si, n), progs, tr, log)
			n++
			for i := len(prefix); i < len(tr); i++ {
				for _, alt := range tr[i].enabled {
					if alt == tr[i].tid {
						continue
					}
					np := make([]int, 0, i+1)
					for _, s := range tr[:i] {
						np = append(np, s.tid)
					}
					explore(append(np, alt))
				}
			}
		}
		explore(nil)
	}
}
