package actor

// Injected by /verif (go test -overlay). H-seq harness for C04/C05/C06/C07/C13: the real
// process.Start / Invoke / tryRestart / cleanup run on one goroutine with a scripted receiver,
// recording middlewares, a recording Inboxer and a synchronous recording event stream; the whole
// trace is compared with the Lean model `HW.Proc` and judged by the property acceptors.

import (
	"context"
	"fmt"
	"strconv"
	"strings"
	"sync"
	"sync/atomic"
	"testing"
	"time"

	"github.com/anthdm/hollywood/internal/vgen"
)

type vProcH struct {
	e       *Engine
	pid     *PID
	trace   []string
	script  []string
	proc    Processer
	reuseID bool // while handling its final Stopped the receiver lets somebody else take its id
	inc     int
	entered []int  // middlewares currently entered, in entry order
	mwSeen  []string // message token each entered middleware saw
	open    bool
}

// registered = the registry maps the id to THIS process (another process that took the id does not count)
func (h *vProcH) reg() string {
	if p := h.e.Registry.get(h.pid); p != nil && p == h.proc {
		return "1"
	}
	return "0"
}
func (h *vProcH) log(s string) { h.trace = append(h.trace, s) }

// fake inbox
type vFakeInbox struct{ h *vProcH }

func (i *vFakeInbox) Send(Envelope) {}
func (i *vFakeInbox) Start(Processer) {
	if i.h.open {
		i.h.log("iS-")
	} else {
		i.h.open = true
		i.h.log("iS+")
	}
}
func (i *vFakeInbox) Stop() error {
	i.h.open = false
	i.h.log("is:" + i.h.reg())
	return nil
}

// synchronous event stream
type vEventRec struct {
	h   *vProcH
	pid *PID
}

func (r *vEventRec) Start()            {}
func (r *vEventRec) PID() *PID         { return r.pid }
func (r *vEventRec) Invoke([]Envelope) {}
func (r *vEventRec) Shutdown()         {}
func (r *vEventRec) Send(_ *PID, msg any, _ *PID) {
	h := r.h
	mine := func(p *PID) string {
		if p != nil && h.pid != nil && p.ID == h.pid.ID {
			return ""
		}
		return "!otherpid"
	}
	switch ev := msg.(type) {
	case ActorInitializedEvent:
		h.log("E:init:" + h.reg() + mine(ev.PID))
	case ActorStartedEvent:
		h.log("E:started:" + h.reg() + mine(ev.PID))
	case ActorStoppedEvent:
		h.log("E:stopped:" + h.reg() + mine(ev.PID))
	case ActorRestartedEvent:
		h.log("E:restarted" + strconv.Itoa(int(ev.Restarts)) + ":" + h.reg() + mine(ev.PID))
	case ActorMaxRestartsExceededEvent:
		h.log("E:max:" + h.reg() + mine(ev.PID))
	case DeadLetterEvent:
		h.log("E:dead:" + h.reg())
	case ActorDuplicateIdEvent:
		h.log("E:dup:" + h.reg())
	default:
		h.log(fmt.Sprintf("E:other(%T):%s", msg, h.reg()))
	}
}

type vUser struct{ k int }

func vMsgToken(m any) string {
	switch v := m.(type) {
	case Initialized:
		return "I"
	case Started:
		return "S"
	case Stopped:
		return "X"
	case vUser:
		return "u" + strconv.Itoa(v.k)
	case poisonPill:
		return "PILL"
	}
	return fmt.Sprintf("?%T", m)
}

type vScriptRecv struct {
	h   *vProcH
	inc int
}

func (r *vScriptRecv) Receive(c *Context) {
	h := r.h
	tok := vMsgToken(c.Message())
	snd := "-"
	if _, isUser := c.Message().(vUser); isUser && c.Sender() != nil {
		snd = strings.TrimPrefix(c.Sender().ID, "s")
	}
	mw := ""
	for _, i := range h.entered {
		mw += strconv.Itoa(i)
	}
	coh := ""
	for _, seen := range h.mwSeen {
		if seen != tok+"/"+snd {
			coh = "!incoherent"
		}
	}
	h.log(fmt.Sprintf("R%d:%s:%s:%s:%s%s", r.inc, tok, snd, mw, h.reg(), coh))
	if tok == "X" {
		if h.reuseID && h.e.Registry.get(h.pid) == nil {
			// the id is free: somebody spawns it again right away (C10: allowed after the actor has stopped)
			h.e.Registry.mu.Lock()
			h.e.Registry.lookup[h.pid.ID] = &vEventRec{pid: h.pid}
			h.e.Registry.mu.Unlock()
		}
		return
	}
	o := "ok"
	if len(h.script) > 0 {
		o, h.script = h.script[0], h.script[1:]
	}
	switch o {
	case "p":
		panic(vPanicValue{[]string{"scripted panic"}}) // a panic value of an UNCOMPARABLE type (== on two of them panics at run time)
	case "i":
		panic(&InternalError{From: "verif", Err: fmt.Errorf("scripted internal error")})
	}
}

func (h *vProcH) middleware(i int) MiddlewareFunc {
	return func(next ReceiveFunc) ReceiveFunc {
		return func(c *Context) {
			snd := "-"
			if _, isUser := c.Message().(vUser); isUser && c.Sender() != nil {
				snd = strings.TrimPrefix(c.Sender().ID, "s")
			}
			h.entered = append(h.entered, i)
			h.mwSeen = append(h.mwSeen, vMsgToken(c.Message())+"/"+snd)
			defer func() {
				h.entered = h.entered[:len(h.entered)-1]
				h.mwSeen = h.mwSeen[:len(h.mwSeen)-1]
			}()
			next(c)
		}
	}
}

var vProcSeq int64

// runProcHistory: max restarts, chain length, script (o/p/i), history items (u<k>s<j|->, pg<id>, pn<id>, | = batch boundary)
func runProcHistory(e *Engine, rec *vEventRec, max, mw int, script []string, items []string, reuse bool) string {
	h := &vProcH{e: e, script: append([]string{}, script...)}
	rec.h = h
	opts := DefaultOpts(func() Receiver {
		h.inc++
		h.log("P" + strconv.Itoa(h.inc))
		return &vScriptRecv{h: h, inc: h.inc}
	})
	opts.Kind = "vp"
	opts.ID = strconv.FormatInt(atomic.AddInt64(&vProcSeq, 1), 10)
	opts.MaxRestarts = int32(max)
	opts.RestartDelay = 0
	opts.InboxSize = 4
	for i := 0; i < mw; i++ {
		opts.Middleware = append(opts.Middleware, h.middleware(i))
	}
	p := newProcess(e, opts)
	p.inbox = &vFakeInbox{h: h}
	h.pid = p.pid
	h.proc = p
	h.reuseID = reuse
	guarded := func(f func()) (escaped bool) {
		defer func() {
			if v := recover(); v != nil {
				h.log("esc")
				escaped = true
			}
		}()
		f()
		return false
	}
	// batches
	var batches [][]Envelope
	cur := []Envelope{}
	for _, it := range items {
		switch {
		case it == "|":
			batches = append(batches, cur)
			cur = []Envelope{}
		case strings.HasPrefix(it, "pg"), strings.HasPrefix(it, "pn"):
			id := it[2:]
			cur = append(cur, Envelope{Msg: poisonPill{graceful: it[1] == 'g', cancel: context.CancelFunc(func() { h.log("C" + id + ":" + h.reg()) })}})
		case strings.HasPrefix(it, "u"):
			si := strings.Index(it, "s")
			k, _ := strconv.Atoi(it[1:si])
			env := Envelope{Msg: vUser{k}}
			if it[si+1:] != "-" {
				env.Sender = NewPID("local", "s"+it[si+1:])
			}
			cur = append(cur, env)
		}
	}
	batches = append(batches, cur)
	if !guarded(func() { e.SpawnProc(p) }) {
		for _, b := range batches {
			if len(b) == 0 {
				continue
			}
			if !h.open {
				break
			}
			if guarded(func() { p.Invoke(b) }) {
				break
			}
		}
	}
	o := "0"
	if h.open {
		o = "1"
	}
	h.log("end:open=" + o + ":reg=" + h.reg())
	rec.h = nil
	// make sure a surviving registration does not leak into the next case
	e.Registry.Remove(p.pid)
	return strings.Join(h.trace, ";")
}

func vProcEngine(t testing.TB) (*Engine, *vEventRec) {
	e, err := NewEngine(NewEngineConfig())
	if err != nil {
		t.Fatal(err)
	}
	rec := &vEventRec{pid: NewPID(e.address, "verif/eventrec")}
	e.SpawnProc(rec)
	e.eventStream = rec.pid
	return e, rec
}

func vProcIn(max, mw int, script, items []string) string {
	return fmt.Sprintf("max=%d mw=%d script=%s hist=%s", max, mw, strings.Join(script, ","), strings.Join(items, ","))
}

func vParseProcIn(in string) (max, mw int, script, items []string) {
	max = vgen.KVInt(in, "max", 0)
	mw = vgen.KVInt(in, "mw", 0)
	if s, ok := vgen.KV(in, "script"); ok && s != "" {
		script = strings.Split(s, ",")
	}
	if s, ok := vgen.KV(in, "hist"); ok && s != "" {
		items = strings.Split(s, ",")
	}
	return
}

func genProcCase(r *vgen.Rng) (max, mw int, script, items []string) {
	max = r.Intn(4)
	mw = r.Intn(4)
	// history
	nb := 1 + r.Intn(3)
	k := 1
	pills := 0
	pillBudget := 1
	if r.Chance(1, 4) {
		pillBudget = 1 + r.Intn(3)
	}
	if r.Chance(1, 4) {
		pillBudget = 0
	}
	for b := 0; b < nb; b++ {
		if b > 0 {
			items = append(items, "|")
		}
		n := 1 + r.Intn(6)
		for i := 0; i < n; i++ {
			if pills < pillBudget && r.Chance(1, 5) {
				pills++
				if r.Chance(1, 2) {
					items = append(items, "pg"+strconv.Itoa(pills))
				} else {
					items = append(items, "pn"+strconv.Itoa(pills))
				}
				continue
			}
			s := "-"
			if r.Chance(2, 3) {
				s = strconv.Itoa(r.Intn(3))
			}
			items = append(items, fmt.Sprintf("u%ds%s", k, s))
			k++
		}
	}
	// script: sparse panics, sometimes dense
	n := r.Intn(k + 8)
	rate := 1 + r.Intn(5)
	for i := 0; i < n; i++ {
		switch {
		case r.Intn(8) < rate && r.Chance(4, 5):
			script = append(script, "p")
		case r.Chance(1, 25):
			script = append(script, "i")
		default:
			script = append(script, "o")
		}
	}
	return
}

func TestVerifProc(t *testing.T) {
	w, err := vgen.NewWriter("proc")
	if err != nil {
		t.Fatal(err)
	}
	defer w.Close()
	e, rec := vProcEngine(t)
	nemit := 0
	emitR := func(id string, max, mw int, script, items []string, reuse bool) {
		in := vProcIn(max, mw, script, items)
		if reuse {
			in += " reuse=1"
		}
		w.Case(id, in, runProcHistory(e, rec, max, mw, script, items, reuse))
	}
	emit := func(id string, max, mw int, script, items []string) {
		// every third generated history: the actor's id is taken over by someone else while it handles its final Stopped
		nemit++
		emitR(id, max, mw, script, items, nemit%3 == 0)
	}
	if in, ok := vgen.ReplayInput(); ok {
		max, mw, script, items := vParseProcIn(in)
		w.Case("replay", in, runProcHistory(e, rec, max, mw, script, items, vgen.KVInt(in, "reuse", 0) == 1))
		return
	}
	for i, in := range vgen.CorpusInputs() {
		max, mw, script, items := vParseProcIn(in)
		emitR(fmt.Sprintf("corpus%d", i), max, mw, script, items, vgen.KVInt(in, "reuse", 0) == 1)
	}
	// model-directed enumeration: one batch of <= 4 items with a pill (graceful / not) at every
	// position or none, one panic at every delivery position (incl. Initialized/Started of every
	// incarnation reached), budgets 0..2
	n := 0
	for max := 0; max <= 2; max++ {
		for blen := 1; blen <= 4; blen++ {
			for pillPos := -1; pillPos < blen; pillPos++ {
				for _, pk := range []string{"pg", "pn"} {
					if pillPos < 0 && pk == "pn" {
						continue
					}
					var items []string
					for i := 0; i < blen; i++ {
						if i == pillPos {
							items = append(items, pk+"1")
						} else {
							items = append(items, fmt.Sprintf("u%ds%s", i+1, []string{"-", "0", "1"}[i%3]))
						}
					}
					// panic positions: single and double
					for p1 := -1; p1 < blen+4; p1++ {
						for p2 := p1; p2 < blen+6; p2++ {
							if p1 < 0 && p2 >= 0 {
								continue
							}
							if p2 == p1 && p1 >= 0 {
								// single panic
							}
							var script []string
							for i := 0; i <= p2; i++ {
								if i == p1 || i == p2 {
									script = append(script, "p")
								} else {
									script = append(script, "o")
								}
							}
							emit(fmt.Sprintf("en%d", n), max, n%3, script, items)
							n++
						}
					}
				}
			}
		}
	}
	r := vgen.NewRng(vgen.Seed())
	ng := vgen.Scale(6000, 120000)
	for i := 0; i < ng; i++ {
		max, mw, script, items := genProcCase(r.Fork())
		emit(fmt.Sprintf("g%d", i), max, mw, script, items)
	}
	t.Logf("proc: %d enumerated + %d random histories", n, ng)
}

// ---------------------------------------------------------------------------------------------
// stream "mwopts" (C13): the chain an actor runs is the chain given at ITS spawn — options built
// with WithMiddleware from a shared slice (with spare capacity) for several actors.
// ---------------------------------------------------------------------------------------------

// vPanicValue is what the scripted receiver panics with: a struct with a slice field, so it cannot be compared.
type vPanicValue struct{ why []string }

type vMwSpawn struct {
	fn   func(*Context)
	opts []OptFunc
	ack  chan *PID
}

func runMwOpts(t testing.TB, ncommon, spare, nactors int, asChild bool) string {
	e, err := NewEngine(NewEngineConfig())
	if err != nil {
		t.Fatal(err)
	}
	// asChild: the actors are spawned through Context.SpawnChildFunc of a parent instead of Engine.SpawnFunc
	parent := e.SpawnFunc(func(c *Context) {
		if m, ok := c.Message().(vMwSpawn); ok {
			m.ack <- c.SpawnChildFunc(m.fn, "mw", m.opts...)
		}
	}, "mwparent", WithID(strconv.FormatInt(atomic.AddInt64(&vProcSeq, 1), 10)))
	common := make([]MiddlewareFunc, 0, ncommon+spare)
	type rec struct {
		mu   sync.Mutex
		seen []string
	}
	recs := make([]*rec, nactors)
	mk := func(tag string, r **rec) MiddlewareFunc {
		return func(next ReceiveFunc) ReceiveFunc {
			return func(c *Context) {
				if _, ok := c.Message().(vUser); ok && *r != nil {
					(*r).mu.Lock()
					(*r).seen = append((*r).seen, tag)
					(*r).mu.Unlock()
				}
				next(c)
			}
		}
	}
	// the common middlewares record into whichever actor is currently receiving (set by the receiver's own wrapper)
	var current *rec
	for i := 0; i < ncommon; i++ {
		common = append(common, mk("c"+strconv.Itoa(i), &current))
	}
	pids := make([]*PID, nactors)
	done := make(chan int, nactors)
	for a := 0; a < nactors; a++ {
		a := a
		recs[a] = &rec{}
		own := func(next ReceiveFunc) ReceiveFunc {
			return func(c *Context) {
				if _, ok := c.Message().(vUser); ok {
					recs[a].mu.Lock()
					recs[a].seen = append(recs[a].seen, "own"+strconv.Itoa(a))
					recs[a].mu.Unlock()
				}
				next(c)
			}
		}
		fn := func(c *Context) {
			if _, ok := c.Message().(vUser); ok {
				done <- a
			}
		}
		opts := []OptFunc{WithID(strconv.FormatInt(atomic.AddInt64(&vProcSeq, 1), 10)), WithMiddleware(common...), WithMiddleware(own)}
		if asChild {
			ack := make(chan *PID, 1)
			e.Send(parent, vMwSpawn{fn, opts, ack})
			select {
			case pids[a] = <-ack:
			case <-time.After(3 * time.Second):
				return "NOSPAWN"
			}
		} else {
			pids[a] = e.SpawnFunc(fn, "mw", opts...)
		}
	}
	var out []string
	for a := 0; a < nactors; a++ {
		current = recs[a]
		e.Send(pids[a], vUser{a})
		select {
		case <-done:
		case <-time.After(3 * time.Second):
			out = append(out, "TIMEOUT")
			continue
		}
		recs[a].mu.Lock()
		out = append(out, strings.Join(recs[a].seen, "."))
		recs[a].mu.Unlock()
	}
	for _, p := range pids {
		<-e.Poison(p).Done()
	}
	<-e.Poison(parent).Done()
	return strings.Join(out, ";")
}

func TestVerifMwOpts(t *testing.T) {
	w, err := vgen.NewWriter("mwopts")
	if err != nil {
		t.Fatal(err)
	}
	defer w.Close()
	emit := func(id string, nc, sp, na, ch int) {
		w.Case(id, fmt.Sprintf("common=%d spare=%d actors=%d child=%d", nc, sp, na, ch), runMwOpts(t, nc, sp, na, ch == 1))
	}
	if in, ok := vgen.ReplayInput(); ok {
		emit("replay", vgen.KVInt(in, "common", 1), vgen.KVInt(in, "spare", 1), vgen.KVInt(in, "actors", 2), vgen.KVInt(in, "child", 0))
		return
	}
	n := 0
	for nc := 0; nc <= 3; nc++ {
		for sp := 0; sp <= 2; sp++ {
			for na := 1; na <= 3; na++ {
				for ch := 0; ch <= 1; ch++ {
					emit(fmt.Sprintf("m%d", n), nc, sp, na, ch)
					n++
				}
			}
		}
	}
}
