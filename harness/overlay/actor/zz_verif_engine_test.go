package actor

// Injected by /verif (go test -overlay). H-seq harness for C09 / C12 (stream "engine"): the real
// Engine.send / SendLocal / BroadcastEvent and the real eventStream.Receive, driven synchronously:
// everything sent to the event stream PID is queued and fed to eventStream.Receive by the harness,
// so that feedback (an event produced while forwarding an event) is observed, with a cap.

import (
	"fmt"
	"sort"
	"strconv"
	"strings"
	"sync"
	"testing"

	"github.com/anthdm/hollywood/internal/vgen"
)

type vEv struct{ n int }

type vEngH struct {
	addr  string
	log   []string
	queue []Envelope
}

// pool: 0,1 live local subscribers/targets, 2 a local id that may be unregistered, 3 a foreign address, 4 = nil
func (h *vEngH) pid(i int) *PID {
	switch i {
	case 0:
		return NewPID(h.addr, "s/a")
	case 1:
		return NewPID(h.addr, "s/b")
	case 2:
		return NewPID(h.addr, "s/c")
	case 3:
		return NewPID("other:1", "s/x")
	case 5:
		return NewPID("other:1", "s/a") // foreign address, id of a live local actor
	case 6:
		return NewPID(h.addr+"/s", "a") // another PID whose String() (address + "/" + id) equals that of pid 0
	case 7:
		return NewPID(h.addr[:len(h.addr)-1], h.addr[len(h.addr)-1:]+"s/a") // another PID whose address+id concatenation equals that of pid 0
	}
	return nil
}

func (h *vEngH) idx(p *PID) string {
	if p == nil {
		return "-"
	}
	if p.ID == "verif/es" {
		return "es" // forwards carry the event stream as sender
	}
	for _, i := range []int{0, 1, 2, 3, 5, 6, 7} {
		q := h.pid(i)
		if q.Address == p.Address && q.ID == p.ID {
			return strconv.Itoa(i)
		}
	}
	return "?" + p.Address + "/" + p.ID
}

func (h *vEngH) token(m any) string {
	if m == nil {
		return "nil"
	}
	switch v := m.(type) {
	case vEv:
		return "e" + strconv.Itoa(v.n)
	case vUser:
		return "m" + strconv.Itoa(v.k)
	case DeadLetterEvent:
		return "DL(" + h.idx(v.Target) + "," + h.token(v.Message) + "," + h.idx(v.Sender) + ")"
	case EngineRemoteMissingEvent:
		return "RM(" + h.idx(v.Target) + "," + h.token(v.Message) + "," + h.idx(v.Sender) + ")"
	case poisonPill:
		return "pill"
	}
	return fmt.Sprintf("?%T", m)
}

type vEngSub struct {
	h   *vEngH
	i   int
	pid *PID
}

func (r *vEngSub) Start()            {}
func (r *vEngSub) PID() *PID         { return r.pid }
func (r *vEngSub) Invoke([]Envelope) {}
func (r *vEngSub) Shutdown()         {}
func (r *vEngSub) Send(_ *PID, msg any, sender *PID) {
	r.h.log = append(r.h.log, "d"+strconv.Itoa(r.i)+":"+r.h.token(msg)+"<"+r.h.idx(sender))
}

type vEngQueue struct {
	h   *vEngH
	pid *PID
}

func (r *vEngQueue) Start()            {}
func (r *vEngQueue) PID() *PID         { return r.pid }
func (r *vEngQueue) Invoke([]Envelope) {}
func (r *vEngQueue) Shutdown()         {}
func (r *vEngQueue) Send(_ *PID, msg any, sender *PID) {
	r.h.queue = append(r.h.queue, Envelope{Msg: msg, Sender: sender})
}

type vFakeRemoter struct{ h *vEngH }

func (r *vFakeRemoter) Address() string      { return "n1:9000" }
func (r *vFakeRemoter) Start(*Engine) error  { return nil }
func (r *vFakeRemoter) Stop() *sync.WaitGroup { return &sync.WaitGroup{} }
func (r *vFakeRemoter) Send(pid *PID, msg any, sender *PID) {
	r.h.log = append(r.h.log, "remote"+r.h.idx(pid)+":"+r.h.token(msg)+"<"+r.h.idx(sender))
}

func runEngineHistory(t testing.TB, remote bool, ops []string) string {
	h := &vEngH{addr: LocalLookupAddr}
	cfg := NewEngineConfig()
	if remote {
		h.addr = "n1:9000"
		cfg = cfg.WithRemote(&vFakeRemoter{h})
	}
	e, err := NewEngine(cfg)
	if err != nil {
		t.Fatal(err)
	}
	// the event stream under test: a fresh receiver driven synchronously by the harness
	es := newEventStream()()
	q := &vEngQueue{h: h, pid: NewPID(e.address, "verif/esqueue")}
	e.SpawnProc(q)
	e.eventStream = q.pid
	esCtx := newContext(nil, e, NewPID(e.address, "verif/es"))
	for i := 0; i < 2; i++ {
		e.SpawnProc(&vEngSub{h: h, i: i, pid: h.pid(i)})
	}
	pump := func() (overflow bool) {
		n := 0
		for len(h.queue) > 0 {
			env := h.queue[0]
			h.queue = h.queue[1:]
			n++
			if n > 200 {
				h.queue = nil
				return true
			}
			before := len(h.log)
			esCtx.message = env.Msg
			esCtx.sender = env.Sender
			es.Receive(esCtx)
			// map iteration order is unspecified: canonicalise the forwards of one Receive
			part := h.log[before:]
			sort.Strings(part)
		}
		return false
	}
	var out []string
	k := 0
	for _, op := range ops {
		h.log = nil
		guard := func(f func()) {
			defer func() {
				if v := recover(); v != nil {
					h.log = append(h.log, "PANIC")
				}
			}()
			f()
		}
		guard(func() {
			switch {
			case strings.HasPrefix(op, "sub"):
				i, _ := strconv.Atoi(op[3:])
				e.Subscribe(h.pid(i))
			case strings.HasPrefix(op, "uns"):
				i, _ := strconv.Atoi(op[3:])
				e.Unsubscribe(h.pid(i))
			case strings.HasPrefix(op, "ev"):
				n, _ := strconv.Atoi(op[2:])
				e.BroadcastEvent(vEv{n})
			case strings.HasPrefix(op, "reg"):
				i, _ := strconv.Atoi(op[3:])
				if e.Registry.get(h.pid(i)) == nil {
					e.SpawnProc(&vEngSub{h: h, i: i, pid: h.pid(i)})
				}
			case strings.HasPrefix(op, "unr"):
				i, _ := strconv.Atoi(op[3:])
				e.Registry.Remove(h.pid(i))
			case strings.HasPrefix(op, "snd"): // snd<target>s<sender>
				parts := strings.Split(op[3:], "s")
				ti, _ := strconv.Atoi(parts[0])
				si := 4
				if len(parts) > 1 && parts[1] != "-" {
					si, _ = strconv.Atoi(parts[1])
				}
				k++
				var msg any = vUser{k}
				if k%5 == 0 {
					msg = nil // every fifth message is a nil message value
				}
				e.SendWithSender(h.pid(ti), msg, h.pid(si))
			case strings.HasPrefix(op, "poi"): // Poison an id: unknown pid => dead letter + ctx done at once
				i, _ := strconv.Atoi(op[3:])
				ctx := e.Poison(h.pid(i))
				select {
				case <-ctx.Done():
					h.log = append(h.log, "ctxdone")
				default:
					h.log = append(h.log, "ctxpending")
				}
			}
			if pump() {
				h.log = append(h.log, "OVERFLOW")
			}
		})
		out = append(out, strings.Join(h.log, ","))
	}
	return strings.Join(out, ";")
}

func TestVerifEngine(t *testing.T) {
	w, err := vgen.NewWriter("engine")
	if err != nil {
		t.Fatal(err)
	}
	defer w.Close()
	emit := func(id string, remote bool, ops []string) {
		r := "0"
		if remote {
			r = "1"
		}
		w.Case(id, "remote="+r+" ops="+strings.Join(ops, ","), runEngineHistory(t, remote, ops))
	}
	parse := func(in string) (bool, []string) {
		s, _ := vgen.KV(in, "ops")
		return vgen.KVInt(in, "remote", 0) == 1, strings.Split(s, ",")
	}
	if in, ok := vgen.ReplayInput(); ok {
		rem, ops := parse(in)
		emit("replay", rem, ops)
		return
	}
	for i, in := range vgen.CorpusInputs() {
		rem, ops := parse(in)
		emit(fmt.Sprintf("corpus%d", i), rem, ops)
	}
	r := vgen.NewRng(vgen.Seed())
	n := vgen.Scale(6000, 80000)
	for i := 0; i < n; i++ {
		rr := r.Fork()
		remote := rr.Chance(1, 3)
		k := 2 + rr.Intn(12)
		var ops []string
		ev := 0
		for j := 0; j < k; j++ {
			switch c := rr.Intn(20); {
			case c < 5:
				ops = append(ops, "sub"+strconv.Itoa(vgen.Pick(rr, []int{0, 1, 2, 3, 5, 6, 7, 0, 1})))
			case c < 7:
				ops = append(ops, "uns"+strconv.Itoa(vgen.Pick(rr, []int{0, 1, 2, 3, 5, 6, 7, 0, 1})))
			case c < 11:
				ev++
				ops = append(ops, "ev"+strconv.Itoa(ev))
			case c < 16:
				s := "-"
				if rr.Chance(1, 2) {
					s = strconv.Itoa(rr.Intn(4))
				}
				ops = append(ops, "snd"+strconv.Itoa(rr.Intn(6))+"s"+s)
			case c < 17:
				ops = append(ops, "reg"+strconv.Itoa(rr.Intn(3)))
			case c < 19:
				ops = append(ops, "unr"+strconv.Itoa(rr.Intn(3)))
			default:
				ops = append(ops, "poi"+strconv.Itoa(vgen.Pick(rr, []int{2, 3, 5, 4})))
			}
		}
		emit(fmt.Sprintf("g%d", i), remote, ops)
	}
}
