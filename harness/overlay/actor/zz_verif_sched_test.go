package actor

// Injected by /verif (go test -overlay). H-sched harness for C01/C02/C03: the REAL inbox.go and
// ringbuffer.go (copies generated at check time in which only the import lines point at the
// yielding shims, and PopN's batch-size argument goes through vBatchSize) run under a deterministic
// scheduler; every execution is a schedule (list of thread ids) that the Lean model replays step by step.

import (
	"fmt"
	"strconv"
	"strings"
	"sync/atomic"
	"testing"

	"github.com/anthdm/hollywood/internal/vgen"
	"github.com/anthdm/hollywood/internal/vshim/vsched"
)

var vBatch int64 = messageBatchSize

func vBatchSize() int64 { return vBatch }

type vSchedScheduler struct{ c *vsched.Controller }

func (s vSchedScheduler) Schedule(fn func()) { s.c.Go(fn) }
func (s vSchedScheduler) Throughput() int    { return 1 } // the cooperative yield of run() (after 2 batches) is reached in every scope

type vSchedProc struct {
	delivered []int
}

func (p *vSchedProc) Start()                {}
func (p *vSchedProc) PID() *PID             { return nil }
func (p *vSchedProc) Send(*PID, any, *PID)  {}
func (p *vSchedProc) Shutdown()             {}
func (p *vSchedProc) Invoke(msgs []Envelope) {
	vsched.Yield("invoke")
	for _, m := range msgs {
		p.delivered = append(p.delivered, m.Msg.(int))
	}
	vsched.Result(strconv.Itoa(len(msgs)))
}

type vSchedCfg struct {
	size    int
	batch   int
	senders [][]int
	stops   int
}

func (c vSchedCfg) String() string {
	ss := make([]string, len(c.senders))
	for i, ms := range c.senders {
		xs := make([]string, len(ms))
		for j, m := range ms {
			xs[j] = strconv.Itoa(m)
		}
		ss[i] = strings.Join(xs, ".")
	}
	return fmt.Sprintf("size=%d B=%d senders=%s stops=%d", c.size, c.batch, strings.Join(ss, "|"), c.stops)
}

func vParseSchedCfg(in string) (vSchedCfg, []int) {
	c := vSchedCfg{size: vgen.KVInt(in, "size", 1), batch: vgen.KVInt(in, "B", 4096), stops: vgen.KVInt(in, "stops", 0)}
	if s, ok := vgen.KV(in, "senders"); ok && s != "" {
		for _, part := range strings.Split(s, "|") {
			var ms []int
			for _, x := range strings.Split(part, ".") {
				if v, err := strconv.Atoi(x); err == nil {
					ms = append(ms, v)
				}
			}
			c.senders = append(c.senders, ms)
		}
	}
	var sched []int
	if s, ok := vgen.KV(in, "sched"); ok && s != "" {
		for _, x := range strings.Split(s, ",") {
			if v, err := strconv.Atoi(x); err == nil {
				sched = append(sched, v)
			}
		}
	}
	return c, sched
}

type vStepRec struct {
	tid     int
	enabled []int
}

// vRunSched runs one execution. choose picks the next thread among the enabled ones given the step
// index; it returns the schedule taken (with the enabled set at every step) and the step log.
func vRunSched(cfg vSchedCfg, choose func(step int, enabled []int, last int) int) (trace []vStepRec, log string) {
	c := vsched.New()
	c.Install()
	defer vsched.Uninstall()
	vBatch = int64(cfg.batch)
	in := NewInbox(cfg.size)
	in.scheduler = vSchedScheduler{c}
	proc := &vSchedProc{}
	c.Go(func() {
		vsched.Yield("life")
		in.Start(proc)
	})
	for _, ms := range cfg.senders {
		ms := ms
		c.Go(func() {
			for _, m := range ms {
				in.Send(Envelope{Msg: m})
			}
		})
	}
	for i := 0; i < cfg.stops; i++ {
		c.Go(func() { in.Stop() })
	}
	c.WaitSettled()
	var sb strings.Builder
	last := -1
	maxInside := 0
	for step := 0; step < 100000; step++ {
		en := c.Enabled()
		if len(en) == 0 {
			break
		}
		tid := choose(step, en, last)
		op, res := c.Step(tid)
		last = tid
		trace = append(trace, vStepRec{tid, en})
		inside := c.CountParkedAt("invoke", "life")
		if inside > maxInside {
			maxInside = inside
		}
		if res != "" {
			op = op + "=" + res
		}
		fmt.Fprintf(&sb, "t%d:%s:%d:%d:%d;", tid, op, atomic.LoadInt32(&in.procStatus), in.rb.Len(), inside)
	}
	ds := make([]string, len(proc.delivered))
	for i, d := range proc.delivered {
		ds[i] = strconv.Itoa(d)
	}
	fmt.Fprintf(&sb, "end:%d:%d:%s", atomic.LoadInt32(&in.procStatus), in.rb.Len(), strings.Join(ds, "."))
	return trace, sb.String()
}

func vSchedString(trace []vStepRec) string {
	xs := make([]string, len(trace))
	for i, s := range trace {
		xs[i] = strconv.Itoa(s.tid)
	}
	return strings.Join(xs, ",")
}

func vContains(xs []int, x int) bool {
	for _, y := range xs {
		if y == x {
			return true
		}
	}
	return false
}

// replay: follow sched while it names an enabled thread, then continue non-preemptively.
func vReplayChooser(sched []int) func(int, []int, int) int {
	return func(step int, en []int, last int) int {
		if step < len(sched) && vContains(en, sched[step]) {
			return sched[step]
		}
		if vContains(en, last) {
			return last
		}
		return en[0]
	}
}

func vShimActive() bool {
	c := vsched.New()
	c.Install()
	defer vsched.Uninstall()
	in := NewInbox(1)
	c.Go(func() { in.Send(Envelope{Msg: 1}) })
	c.WaitSettled()
	en := c.Enabled()
	for len(c.Enabled()) > 0 {
		c.Step(c.Enabled()[0])
	}
	return len(en) == 1
}

func TestVerifSched(t *testing.T) {
	if !vShimActive() {
		t.Fatal("scheduler shim not active: this test must be built with the shimmed copies of inbox.go/ringbuffer.go")
	}
	w, err := vgen.NewWriter("sched")
	if err != nil {
		t.Fatal(err)
	}
	defer w.Close()
	emit := func(id string, cfg vSchedCfg, trace []vStepRec, log string) {
		w.Case(id, cfg.String()+" sched="+vSchedString(trace), log)
	}
	if in, ok := vgen.ReplayInput(); ok {
		cfg, sched := vParseSchedCfg(in)
		tr, log := vRunSched(cfg, vReplayChooser(sched))
		emit("replay", cfg, tr, log)
		return
	}
	for i, in := range vgen.CorpusInputs() {
		cfg, sched := vParseSchedCfg(in)
		tr, log := vRunSched(cfg, vReplayChooser(sched))
		emit(fmt.Sprintf("corpus%d", i), cfg, tr, log)
	}

	// (1) systematic: iterative preemption bounding over small configurations
	type scope struct {
		cfg   vSchedCfg
		bound int
		max   int
	}
	scopes := []scope{
		{vSchedCfg{size: 1, batch: 4096, senders: [][]int{{1}}}, vgen.Scale(3, 6), vgen.Scale(3000, 40000)},
		{vSchedCfg{size: 1, batch: 4096, senders: [][]int{{1}, {2}}}, vgen.Scale(2, 3), vgen.Scale(6000, 60000)},
		{vSchedCfg{size: 2, batch: 1, senders: [][]int{{1, 2}}}, vgen.Scale(2, 4), vgen.Scale(4000, 40000)},
		{vSchedCfg{size: 1, batch: 1, senders: [][]int{{1}, {2}}}, vgen.Scale(2, 3), vgen.Scale(4000, 60000)},
		{vSchedCfg{size: 1, batch: 4096, senders: [][]int{{1}}, stops: 1}, vgen.Scale(2, 4), vgen.Scale(2000, 30000)},
		{vSchedCfg{size: 2, batch: 2, senders: [][]int{{1, 2}, {3}}}, vgen.Scale(1, 2), vgen.Scale(3000, 60000)},
	}
	total := 0
	for si, sc := range scopes {
		n := 0
		var explore func(prefix []int, preempt int)
		explore = func(prefix []int, preempt int) {
			if n >= sc.max {
				return
			}
			tr, log := vRunSched(sc.cfg, vReplayChooser(prefix))
			emit(fmt.Sprintf("dfs%d_%d", si, n), sc.cfg, tr, log)
			n++
			for i := len(prefix); i < len(tr); i++ {
				for _, alt := range tr[i].enabled {
					if alt == tr[i].tid {
						continue
					}
					cost := 0
					if i > 0 && vContains(tr[i].enabled, tr[i-1].tid) {
						cost = 1
					}
					if preempt+cost > sc.bound {
						continue
					}
					np := make([]int, 0, i+1)
					for _, s := range tr[:i] {
						np = append(np, s.tid)
					}
					np = append(np, alt)
					explore(np, preempt+cost)
					if n >= sc.max {
						return
					}
				}
			}
		}
		explore(nil, 0)
		total += n
		t.Logf("scope %d %s: %d executions (bound %d, exhausted=%v)", si, sc.cfg, n, sc.bound, n < sc.max)
	}

	// (2) seeded random schedules over wider configurations
	r := vgen.NewRng(vgen.Seed())
	nr := vgen.Scale(6000, 100000)
	for i := 0; i < nr; i++ {
		rr := r.Fork()
		cfg := vSchedCfg{size: vgen.Pick(rr, []int{1, 1, 2, 3, 4, 8}), batch: vgen.Pick(rr, []int{1, 2, 3, 4096, 4096}), stops: 0}
		if rr.Chance(1, 8) {
			cfg.stops = 1 + rr.Intn(2)
		}
		ns := 1 + rr.Intn(3)
		next := 1
		for s := 0; s < ns; s++ {
			k := 1 + rr.Intn(4)
			var ms []int
			for j := 0; j < k; j++ {
				ms = append(ms, next)
				next++
			}
			cfg.senders = append(cfg.senders, ms)
		}
		sticky := rr.Intn(4) // 0: uniform; otherwise stay on the same thread with probability sticky/4
		tr, log := vRunSched(cfg, func(step int, en []int, last int) int {
			if sticky > 0 && vContains(en, last) && rr.Intn(4) < sticky {
				return last
			}
			return en[rr.Intn(len(en))]
		})
		emit(fmt.Sprintf("rnd%d", i), cfg, tr, log)
	}
	t.Logf("sched: %d systematic + %d random executions", total, nr)
}
