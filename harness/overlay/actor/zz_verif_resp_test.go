package actor

// Injected by /verif (go test -overlay). Harness for C11 (stream "resp"): histories of
// Request / reply / Result on the real Engine, Registry and Response, plus a check of the response ids.

import (
	"runtime"
	"fmt"
	"strconv"
	"strings"
	"sync"
	"testing"
	"time"

	"github.com/anthdm/hollywood/internal/vgen"
)

type vRespSink struct {
	mu      sync.Mutex
	pid     *PID
	senders []*PID
}

func (s *vRespSink) Start()            {}
func (s *vRespSink) PID() *PID         { return s.pid }
func (s *vRespSink) Invoke([]Envelope) {}
func (s *vRespSink) Shutdown()         {}
func (s *vRespSink) Send(_ *PID, _ any, sender *PID) {
	s.mu.Lock()
	s.senders = append(s.senders, sender)
	s.mu.Unlock()
}

// vInlineEcho replies on the goroutine that delivers the request (before Engine.Request returns).
type vInlineEcho struct {
	e   *Engine
	pid *PID
	k   int
}

func (r *vInlineEcho) Start()            {}
func (r *vInlineEcho) PID() *PID         { return r.pid }
func (r *vInlineEcho) Invoke([]Envelope) {}
func (r *vInlineEcho) Shutdown()         {}
func (r *vInlineEcho) Send(_ *PID, _ any, sender *PID) {
	if sender != nil {
		r.e.Send(sender, vUser{r.k})
	}
}

type vRespEvents struct {
	mu   sync.Mutex
	pid  *PID
	dead int
	dup  int
}

func (r *vRespEvents) Start()            {}
func (r *vRespEvents) PID() *PID         { return r.pid }
func (r *vRespEvents) Invoke([]Envelope) {}
func (r *vRespEvents) Shutdown()         {}
func (r *vRespEvents) Send(_ *PID, msg any, _ *PID) {
	r.mu.Lock()
	defer r.mu.Unlock()
	switch msg.(type) {
	case DeadLetterEvent:
		r.dead++
	case ActorDuplicateIdEvent:
		r.dup++
	}
}

func runRespHistory(t testing.TB, ops []string) string {
	e, err := NewEngine(NewEngineConfig())
	if err != nil {
		t.Fatal(err)
	}
	evs := &vRespEvents{pid: NewPID(e.address, "verif/eventrec")}
	e.SpawnProc(evs)
	e.eventStream = evs.pid
	sink := &vRespSink{pid: NewPID(e.address, "verif/sink")}
	e.SpawnProc(sink)
	var resps []*Response
	var out []string
	for _, op := range ops {
		switch {
		case op == "rq":
			r := e.Request(sink.pid, vUser{0}, 25*time.Millisecond)
			resps = append(resps, r)
			sink.mu.Lock()
			snd := sink.senders[len(sink.senders)-1]
			sink.mu.Unlock()
			res := "requested" + strconv.Itoa(len(resps)-1)
			if snd == nil || !snd.Equals(r.PID()) {
				res += "!sender-is-not-the-response-pid"
			}
			evs.mu.Lock()
			if evs.dup > 0 {
				res += "!duplicate-id"
				evs.dup = 0
			}
			evs.mu.Unlock()
			out = append(out, res)
		case strings.HasPrefix(op, "qi"): // qi<k>: request to a target that replies k on the delivering goroutine, then Result
			k, _ := strconv.Atoi(op[2:])
			inl := &vInlineEcho{e: e, pid: NewPID(e.address, "verif/inline"), k: k}
			if e.Registry.get(inl.pid) == nil {
				e.SpawnProc(inl)
			} else {
				e.Registry.get(inl.pid).(*vInlineEcho).k = k
			}
			r := e.Request(inl.pid, vUser{0}, 25*time.Millisecond)
			v, err := r.Result()
			res := "timeout"
			if err == nil {
				if u, ok := v.(vUser); ok {
					res = "value" + strconv.Itoa(u.k)
				}
			}
			out = append(out, res)
		case strings.HasPrefix(op, "cc"): // cc<n>x<m>: n goroutines x m requests to an echo actor, tagged payloads
			parts := strings.Split(op[2:], "x")
			n, _ := strconv.Atoi(parts[0])
			m, _ := strconv.Atoi(parts[1])
			echo := e.SpawnFunc(func(c *Context) {
				if u, ok := c.Message().(vUser); ok {
					c.Respond(vUser{u.k + 1000000})
				}
			}, "verifecho", WithID(strconv.Itoa(len(out))))
			var mu sync.Mutex
			okc, timeouts, cross := 0, 0, 0
			var wg sync.WaitGroup
			for g := 0; g < n; g++ {
				g := g
				wg.Add(1)
				go func() {
					defer wg.Done()
					for j := 0; j < m; j++ {
						tag := g*10000 + j
						v, err := e.Request(echo, vUser{tag}, 2*time.Second).Result()
						mu.Lock()
						if err != nil {
							timeouts++
						} else if u, ok := v.(vUser); ok && u.k == tag+1000000 {
							okc++
						} else {
							cross++
						}
						mu.Unlock()
					}
				}()
			}
			wg.Wait()
			<-e.Poison(echo).Done()
			evs.mu.Lock()
			dup := evs.dup
			evs.dup = 0
			evs.mu.Unlock()
			out = append(out, fmt.Sprintf("ok=%d timeouts=%d crosstalk=%d dupid=%d", okc, timeouts, cross, dup))
		case strings.HasPrefix(op, "rp"): // rp<i>v<k>
			parts := strings.Split(op[2:], "v")
			i, _ := strconv.Atoi(parts[0])
			k, _ := strconv.Atoi(parts[1])
			if i >= len(resps) {
				out = append(out, "skip")
				continue
			}
			evs.mu.Lock()
			evs.dead = 0
			evs.mu.Unlock()
			done := make(chan struct{})
			go func() {
				e.Send(resps[i].PID(), vUser{k})
				close(done)
			}()
			select {
			case <-done:
				evs.mu.Lock()
				d := evs.dead
				evs.mu.Unlock()
				if d > 0 {
					out = append(out, "dead")
				} else {
					out = append(out, "sent")
				}
			case <-time.After(300 * time.Millisecond):
				out = append(out, "BLOCKED")
			}
		case strings.HasPrefix(op, "rs"): // rs<i>
			i, _ := strconv.Atoi(op[2:])
			if i >= len(resps) {
				out = append(out, "skip")
				continue
			}
			v, err := resps[i].Result()
			res := "timeout"
			if err == nil {
				if u, ok := v.(vUser); ok {
					res = "value" + strconv.Itoa(u.k)
				} else {
					res = fmt.Sprintf("value?%T", v)
				}
			}
			if e.Registry.get(resps[i].PID()) != nil {
				res += "!still-registered"
			}
			out = append(out, res)
		case op == "un": // a USER actor that happens to be named like the next response PID (kind "response", id = next number)
			next := responseSeq.Load() + 1
			user := e.SpawnFunc(func(c *Context) {}, "response", WithID(strconv.FormatUint(next, 10)))
			r := e.Request(sink.pid, vUser{0}, 25*time.Millisecond) // its Response draws that id: a duplicate, refused
			_, _ = r.Result()
			res := "user-actor-kept"
			if e.Registry.get(user) == nil {
				res = "user-actor-UNREGISTERED" // a refused duplicate must leave the existing actor untouched (C10)
			}
			evs.mu.Lock()
			evs.dup = 0
			evs.mu.Unlock()
			<-e.Poison(user).Done()
			out = append(out, res)
		case op == "zt": // a request with a zero timeout to a target that never replies: an error, promptly
			silent := e.SpawnFunc(func(c *Context) {}, "verifzt", WithID(strconv.Itoa(len(out))))
			res := "BLOCKED"
			done := make(chan string, 1)
			go func() {
				if _, err := e.Request(silent, vUser{-7}, 0).Result(); err != nil {
					done <- "timeout"
				} else {
					done <- "value"
				}
			}()
			select {
			case res = <-done:
			case <-time.After(500 * time.Millisecond):
			}
			<-e.Poison(silent).Done()
			out = append(out, res)
		case op == "cq": // two successive Context.Request calls made by ONE actor from inside Receive; the first one's reply comes late
			target := e.SpawnFunc(func(c *Context) {
				if u, ok := c.Message().(vUser); ok {
					if u.k < 0 {
						time.Sleep(40 * time.Millisecond) // later than the requester's 10 ms timeout
					}
					c.Respond(vUser{u.k})
				}
			}, "verifcqt", WithID(strconv.Itoa(len(out))))
			evs.mu.Lock()
			evs.dead = 0
			evs.mu.Unlock()
			resCh := make(chan string, 1)
			asker := e.SpawnFunc(func(c *Context) {
				if _, ok := c.Message().(vUser); ok {
					first := "value"
					if _, err := c.Request(target, vUser{-5}, 10*time.Millisecond).Result(); err != nil {
						first = "timeout"
					}
					// the second request is made at once: the late reply to the first one arrives WHILE the second is pending
					// and must become a dead letter, not the second request's result
					second := "timeout"
					if v, err := c.Request(target, vUser{9}, 2*time.Second).Result(); err == nil {
						second = fmt.Sprintf("value%v", v.(vUser).k)
					}
					resCh <- "first=" + first + " second=" + second
				}
			}, "verifcqa", WithID(strconv.Itoa(len(out))))
			e.Send(asker, vUser{0})
			res := "NOANSWER"
			select {
			case res = <-resCh:
			case <-time.After(4 * time.Second):
			}
			evs.mu.Lock()
			if evs.dead > 0 {
				res += " late=deadletter"
			} else {
				res += " late=SWALLOWED"
			}
			evs.mu.Unlock()
			<-e.Poison(asker).Done()
			<-e.Poison(target).Done()
			out = append(out, res)
		case op == "sl": // a request that gets no reply, then a SENDERLESS message whose handler calls Respond: the request must time out
			silent := e.SpawnFunc(func(c *Context) {
				if u, ok := c.Message().(vUser); ok && u.k == -8 {
					c.Respond(vUser{77}) // no sender: Respond has nobody to answer
				}
			}, "verifsilent", WithID(strconv.Itoa(len(out))))
			r := e.Request(silent, vUser{-7}, 40*time.Millisecond)
			e.Send(silent, vUser{-8})
			v, err := r.Result()
			res := "timeout"
			if err == nil {
				res = fmt.Sprintf("value(%v)", v)
			}
			<-e.Poison(silent).Done()
			out = append(out, res)
		case strings.HasPrefix(op, "ed"): // ed<n>: n rounds of a reply that races the deadline, each followed by a request with a generous timeout
			n, _ := strconv.Atoi(op[2:])
			func() {
				// one P: the responder replies just before the deadline and keeps the processor until after it, so the
				// requester is woken by the reply but runs only once its timer has fired as well
				defer runtime.GOMAXPROCS(runtime.GOMAXPROCS(1))
				slow := e.SpawnFunc(func(c *Context) {
					switch m := c.Message().(type) {
					case vUser:
						if m.k < 0 {
							time.Sleep(5 * time.Millisecond)
							c.Respond(vUser{-1})
							for start := time.Now(); time.Since(start) < 8*time.Millisecond; {
							}
						} else {
							c.Respond(vUser{m.k})
						}
					}
				}, "verifedge", WithID(strconv.Itoa(len(out))))
				early, wrong := 0, 0
				for i := 0; i < n; i++ {
					_, _ = e.Request(slow, vUser{-1}, 9*time.Millisecond).Result() // either outcome is fine
					start := time.Now()
					v, err := e.Request(slow, vUser{i}, 5*time.Second).Result()
					if err != nil {
						if time.Since(start) < 5*time.Second {
							early++ // an error before the timeout has passed
						}
					} else if u, ok := v.(vUser); !ok || u.k != i {
						wrong++
					}
				}
				<-e.Poison(slow).Done()
				out = append(out, fmt.Sprintf("early=%d wrong=%d", early, wrong))
			}()
		case strings.HasPrefix(op, "ids"): // ids<n>: how many of n fresh response ids (drawn by 8 goroutines at once) collide
			n, _ := strconv.Atoi(op[3:])
			const G = 8
			parts := make([][]string, G)
			var wg sync.WaitGroup
			for g := 0; g < G; g++ {
				g := g
				wg.Add(1)
				go func() {
					defer wg.Done()
					for j := 0; j < n/G; j++ {
						parts[g] = append(parts[g], NewResponse(e, time.Second).PID().ID)
					}
				}()
			}
			wg.Wait()
			seen := make(map[string]bool, n)
			dups := 0
			for _, p := range parts {
				for _, id := range p {
					if seen[id] {
						dups++
					}
					seen[id] = true
				}
			}
			out = append(out, "dups="+strconv.Itoa(dups))
		}
	}
	return strings.Join(out, ";")
}

func TestVerifResp(t *testing.T) {
	w, err := vgen.NewWriter("resp")
	if err != nil {
		t.Fatal(err)
	}
	defer w.Close()
	emit := func(id string, ops []string) {
		w.Case(id, "ops="+strings.Join(ops, ","), runRespHistory(t, ops))
	}
	if in, ok := vgen.ReplayInput(); ok {
		s, _ := vgen.KV(in, "ops")
		emit("replay", strings.Split(s, ","))
		return
	}
	for i, in := range vgen.CorpusInputs() {
		s, _ := vgen.KV(in, "ops")
		emit(fmt.Sprintf("corpus%d", i), strings.Split(s, ","))
	}
	emit("ids", []string{"ids" + strconv.Itoa(vgen.Scale(320000, 1600000))})
	emit("edge", []string{"ed" + strconv.Itoa(vgen.Scale(12, 60)), "qi3", "rq", "rp0v4", "rs0"})
	emit("silent", []string{"sl", "qi4", "sl"})
	emit("ctxreq", []string{"cq", "zt", "qi2", "cq"})
	emit("namesake", []string{"un", "qi1", "un"})
	emit("conc", []string{"cc" + strconv.Itoa(vgen.Scale(16, 64)) + "x" + strconv.Itoa(vgen.Scale(400, 2000)), "qi5", "cc2x50", "qi9"})
	r := vgen.NewRng(vgen.Seed())
	n := vgen.Scale(500, 4000)
	for i := 0; i < n; i++ {
		rr := r.Fork()
		k := 2 + rr.Intn(9)
		nreq := 0
		resulted := map[int]bool{}
		var ops []string
		val := 0
		for j := 0; j < k; j++ {
			switch c := rr.Intn(10); {
			case c < 1:
				val++
				ops = append(ops, "qi"+strconv.Itoa(val))
			case c < 3 || nreq == 0:
				ops = append(ops, "rq")
				nreq++
			case c < 7:
				val++
				ops = append(ops, fmt.Sprintf("rp%dv%d", rr.Intn(nreq), val))
			default:
				i := rr.Intn(nreq)
				if resulted[i] {
					val++
					ops = append(ops, fmt.Sprintf("rp%dv%d", i, val)) // a late reply instead of a second Result
				} else {
					resulted[i] = true
					ops = append(ops, "rs"+strconv.Itoa(i))
				}
			}
		}
		emit(fmt.Sprintf("g%d", i), ops)
	}
}
