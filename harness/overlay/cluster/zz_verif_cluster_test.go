package cluster

// Injected by /verif (go test -overlay). Harnesses for C18 (stream "members") and C20 (stream "provider").
// C18: a real Cluster/Agent actor on a real engine (fake Remoter, stub provider); snapshots are sent as
// *Members messages; Members()/HasKind go through the public API; events through the real event stream
// (a sentinel broadcast is the barrier). C20: the real SelfManaged.Receive is invoked from a wrapper
// actor for every message except Started (so zeroconf is never started), with the real context/sender.

import (
	"sync/atomic"
	"unsafe"
	"reflect"
	"fmt"
	"sort"
	"strconv"
	"strings"
	"sync"
	"testing"
	"time"

	"github.com/anthdm/hollywood/actor"
	"github.com/anthdm/hollywood/internal/vgen"
)

type vRemoter struct {
	mu   sync.Mutex
	addr string
	sent []string
}

func (r *vRemoter) Address() string            { return r.addr }
func (r *vRemoter) Start(*actor.Engine) error  { return nil }
func (r *vRemoter) Stop() *sync.WaitGroup      { return &sync.WaitGroup{} }
func (r *vRemoter) Send(pid *actor.PID, msg any, sender *actor.PID) {
	r.mu.Lock()
	defer r.mu.Unlock()
	switch m := msg.(type) {
	case *Members:
		r.sent = append(r.sent, "reply:"+pid.ID+":"+vMemberIDs(m.Members))
	case *ActorTopology:
		var ids []string
		for _, a := range m.Actors {
			ids = append(ids, a.PID.ID)
		}
		sort.Strings(ids)
		r.sent = append(r.sent, "topo:"+strings.TrimPrefix(pid.ID, "cluster/")+":"+strings.Join(ids, "+"))
	}
}
func (r *vRemoter) take() []string {
	r.mu.Lock()
	defer r.mu.Unlock()
	s := r.sent
	r.sent = nil
	return s
}

func vMemberIDs(ms []*Member) string {
	ids := make([]string, len(ms))
	for i, m := range ms {
		ids[i] = m.ID
	}
	sort.Strings(ids)
	return strings.Join(ids, "+")
}

// universe of members: id -> (host, kinds); the observing node is "A"
var vKindUniverse = []string{"k1", "k2", "k3"}

func vParseMember(tok string, selfHost string) *Member {
	// <id>[:kinds joined by +]   host = h<id>:1 (self: engine address)
	parts := strings.SplitN(tok, ":", 2)
	alt := ""
	if i := strings.Index(parts[0], "@"); i >= 0 { // <id>@<n>: the same member id seen at another address (h<id>:<n>)
		alt = parts[0][i+1:]
		parts[0] = parts[0][:i]
	}
	m := &Member{ID: parts[0], Host: "h" + parts[0] + ":1", Region: "default"}
	if alt != "" {
		m.Host = "h" + parts[0] + ":" + alt
	}
	switch parts[0] {
	case "A":
		m.Host = selfHost
	case "F": // F shares B's address, G shares C's (a node restarted on its old address under a new id)
		m.Host = "hB:1"
	case "G":
		m.Host = "hC:1"
	}
	if len(parts) == 2 && parts[1] != "" {
		m.Kinds = strings.Split(parts[1], "+")
	}
	return m
}

type vEventSub struct {
	mu  sync.Mutex
	pid *actor.PID
	evs []string
	ch  chan int
}

type vSentinel struct{ n int }

func (s *vEventSub) Start()                 {}
func (s *vEventSub) PID() *actor.PID        { return s.pid }
func (s *vEventSub) Invoke([]actor.Envelope) {}
func (s *vEventSub) Shutdown()              {}
func (s *vEventSub) Send(_ *actor.PID, msg any, _ *actor.PID) {
	switch ev := msg.(type) {
	case MemberJoinEvent:
		s.mu.Lock()
		s.evs = append(s.evs, "join:"+ev.Member.ID)
		s.mu.Unlock()
	case MemberLeaveEvent:
		s.mu.Lock()
		s.evs = append(s.evs, "leave:"+ev.Member.ID)
		s.mu.Unlock()
	case vSentinel:
		s.ch <- ev.n
	}
}

func vStubProvider(c *Cluster) actor.Producer {
	return func() actor.Receiver { return vNop{} }
}

type vNop struct{}

func (vNop) Receive(*actor.Context) {}

// one history: self kinds, then snapshots separated by '/'; a snapshot is a '.'-separated member list
func runMembersHistory(t testing.TB, selfKinds []string, snaps [][]string) string {
	rem := &vRemoter{addr: "hA:1"}
	e, err := actor.NewEngine(actor.NewEngineConfig().WithRemote(rem))
	if err != nil {
		t.Fatal(err)
	}
	c, err := New(NewConfig().WithEngine(e).WithID("A").WithProvider(vStubProvider).WithRequestTimeout(700 * time.Millisecond))
	if err != nil {
		t.Fatal(err)
	}
	for _, k := range selfKinds {
		c.RegisterKind(k, func() actor.Receiver { return vNop{} }, NewKindConfig())
	}
	sub := &vEventSub{pid: actor.NewPID(e.Address(), "verif/evsub"), ch: make(chan int, 4)}
	e.SpawnProc(sub)
	e.Subscribe(sub.pid)
	c.Start()
	// background askers: a kind that the observing node itself registered is advertised by every view (the node is in every
	// snapshot), so HasKind of it must be true at every moment, also while a snapshot is being processed
	var bgBad, bgStop int32
	var bgWG sync.WaitGroup
	hasAct := false // an activation attempt blocks the agent for a request timeout: queries time out meanwhile, which says nothing
	for _, sn := range snaps {
		if len(sn) == 1 && strings.HasPrefix(sn[0], "!act") {
			hasAct = true
		}
	}
	if len(selfKinds) > 0 && !hasAct {
		for g := 0; g < 3; g++ {
			bgWG.Add(1)
			go func() {
				defer bgWG.Done()
				defer func() {
					if recover() != nil {
						atomic.AddInt32(&bgBad, 1)
					}
				}()
				for atomic.LoadInt32(&bgStop) == 0 {
					t0 := time.Now()
					// (an answer that took as long as the request timeout is a timed-out query on a loaded machine, not an answer)
					if !c.HasKind(selfKinds[0]) && time.Since(t0) < 300*time.Millisecond {
						atomic.AddInt32(&bgBad, 1)
					}
				}
			}()
		}
	}
	var out []string
	for si, snap := range snaps {
		if len(snap) == 1 && strings.HasPrefix(snap[0], "!act") {
			// not a snapshot: an activation attempt. Remote members cannot be reached here (the remoter swallows the
			// request, which times out); whatever happens to the activation, the membership view must not move.
			c.Activate(snap[0][4:], NewActivationConfig().WithID("x"+strconv.Itoa(si)))
		} else {
			var ms []*Member
			for _, tok := range snap {
				ms = append(ms, vParseMember(tok, e.Address()))
			}
			e.Send(c.PID(), &Members{Members: ms})
		}
		view := vMemberIDs(c.Members()) // a request: handled after the snapshot
		var has []string
		for _, k := range vKindUniverse {
			if c.HasKind(k) {
				has = append(has, k)
			}
		}
		e.BroadcastEvent(vSentinel{si})
		select {
		case <-sub.ch:
		case <-time.After(3 * time.Second):
			out = append(out, "NOSENTINEL")
		}
		sub.mu.Lock()
		evs := sub.evs
		sub.evs = nil
		sub.mu.Unlock()
		sort.Strings(evs)
		out = append(out, "view="+view+" kinds="+strings.Join(has, "+")+" ev="+strings.Join(evs, ","))
	}
	atomic.StoreInt32(&bgStop, 1)
	bgWG.Wait()
	if n := atomic.LoadInt32(&bgBad); n > 0 {
		out = append(out, fmt.Sprintf("BACKGROUND-HASKIND-FALSE(%d times for the node's own kind %s)", n, selfKinds[0]))
	}
	<-e.Poison(c.PID()).Done()
	return strings.Join(out, ";")
}

func vShowSnaps(snaps [][]string) string {
	ss := make([]string, len(snaps))
	for i, s := range snaps {
		ss[i] = strings.Join(s, ".")
	}
	return strings.Join(ss, "/")
}

func vParseSnaps(s string) [][]string {
	var snaps [][]string
	for _, p := range strings.Split(s, "/") {
		if p == "" {
			snaps = append(snaps, nil)
		} else {
			snaps = append(snaps, strings.Split(p, "."))
		}
	}
	return snaps
}

func TestVerifMembers(t *testing.T) {
	w, err := vgen.NewWriter("members")
	if err != nil {
		t.Fatal(err)
	}
	defer w.Close()
	emit := func(id string, selfKinds []string, snaps [][]string) {
		w.Case(id, "self="+strings.Join(selfKinds, "+")+" snaps="+vShowSnaps(snaps), runMembersHistory(t, selfKinds, snaps))
	}
	parse := func(in string) ([]string, [][]string) {
		sk, _ := vgen.KV(in, "self")
		var selfKinds []string
		if sk != "" {
			selfKinds = strings.Split(sk, "+")
		}
		s, _ := vgen.KV(in, "snaps")
		return selfKinds, vParseSnaps(s)
	}
	if in, ok := vgen.ReplayInput(); ok {
		sk, snaps := parse(in)
		emit("replay", sk, snaps)
		return
	}
	for i, in := range vgen.CorpusInputs() {
		sk, snaps := parse(in)
		emit(fmt.Sprintf("corpus%d", i), sk, snaps)
	}
	r := vgen.NewRng(vgen.Seed())
	n := vgen.Scale(1000, 6000)
	others := []string{"B", "C", "D", "E", "F", "G", "b"} // "b" and "B" differ only in case: two members
	for i := 0; i < n; i++ {
		rr := r.Fork()
		var selfKinds []string
		for _, k := range vKindUniverse {
			if rr.Chance(1, 3) {
				selfKinds = append(selfKinds, k)
			}
		}
		// fixed kinds per member within one history (a member that stays keeps its stored kinds anyway)
		kindsOf := map[string]string{"A": strings.Join(selfKinds, "+")}
		for _, o := range others {
			var ks []string
			for _, k := range vKindUniverse {
				if rr.Chance(2, 5) {
					ks = append(ks, k)
				}
			}
			if rr.Chance(1, 4) { // a kind list with a repeated or already known kind first
				ks = append([]string{"k1"}, ks...)
			}
			kindsOf[o] = strings.Join(ks, "+")
		}
		ns := 1 + rr.Intn(5)
		var snaps [][]string
		for s := 0; s < ns; s++ {
			snap := []string{"A:" + kindsOf["A"]}
			for _, o := range others {
				if rr.Chance(1, 2) {
					tok := o
					if rr.Chance(1, 6) { // the member id shows up at another address (a node restarted on a new port)
						tok = o + "@2"
					}
					snap = append(snap, tok+":"+kindsOf[o])
					if rr.Chance(1, 5) { // duplicate entry
						snap = append(snap, o+":"+kindsOf[o])
					}
				}
			}
			// shuffle
			for a := len(snap) - 1; a > 0; a-- {
				b := rr.Intn(a + 1)
				snap[a], snap[b] = snap[b], snap[a]
			}
			if rr.Chance(1, 6) && s > 0 {
				snap = append([]string{}, snaps[s-1]...) // repeated snapshot
				if len(snap) == 1 && strings.HasPrefix(snap[0], "!act") {
					snap = []string{"A:" + kindsOf["A"]}
				}
			}
			if rr.Chance(1, 30) && s > 0 { // an activation attempt between two snapshots (costs a request timeout)
				snaps = append(snaps, []string{"!act" + vgen.Pick(rr, vKindUniverse)})
			}
			snaps = append(snaps, snap)
		}
		emit(fmt.Sprintf("g%d", i), selfKinds, snaps)
	}
}

// ------------------------------------------------------------------------------------------------
// C20: self-managed provider
// ------------------------------------------------------------------------------------------------

type vSync struct{ ch chan struct{} }

type vAgentRec struct {
	mu   sync.Mutex
	pid  *actor.PID
	reps []string
}

func (a *vAgentRec) Start()                 {}
func (a *vAgentRec) PID() *actor.PID        { return a.pid }
func (a *vAgentRec) Invoke([]actor.Envelope) {}
func (a *vAgentRec) Shutdown()              {}
func (a *vAgentRec) Send(_ *actor.PID, msg any, _ *actor.PID) {
	if m, ok := msg.(*Members); ok {
		a.mu.Lock()
		a.reps = append(a.reps, "agent:"+vMemberIDs(m.Members))
		a.mu.Unlock()
	}
}
func (a *vAgentRec) take() []string {
	a.mu.Lock()
	defer a.mu.Unlock()
	s := a.reps
	a.reps = nil
	return s
}

// ops: hs<id> (Handshake from peer <id>), ms<id+id+..> (Members list), lv<id> (unreachable report for the
// address of member <id>; ids that were never members give a non-member address)
func runProviderHistory(t testing.TB, ops []string) string {
	rem := &vRemoter{addr: "hA:1"}
	e, err := actor.NewEngine(actor.NewEngineConfig().WithRemote(rem))
	if err != nil {
		t.Fatal(err)
	}
	c := &Cluster{config: NewConfig().WithID("A"), engine: e}
	c.config.engine = e
	c.agentPID = actor.NewPID(e.Address(), "cluster/A")
	agent := &vAgentRec{pid: c.agentPID}
	e.SpawnProc(agent)
	flush := &vFlush{pid: actor.NewPID(e.Address(), "verif/flush")}
	e.SpawnProc(flush)
	e.Subscribe(flush.pid)
	incarnations := 0
	var cur *SelfManaged
	mkProvider := NewSelfManagedProvider(NewSelfManagedConfig()) // ONE provider value, used for two clusters of this process
	prod := mkProvider(c)
	// a second, idle cluster ("Q") built from the same provider value: its provider never receives anything, so its member
	// list must stay exactly [Q] whatever happens to cluster A
	e2, err := actor.NewEngine(actor.NewEngineConfig().WithRemote(&vRemoter{addr: "hQ:1"}))
	if err != nil {
		t.Fatal(err)
	}
	c2 := &Cluster{config: NewConfig().WithID("Q"), engine: e2}
	c2.config.engine = e2
	c2.agentPID = actor.NewPID(e2.Address(), "cluster/Q")
	e2.SpawnProc(&vAgentRec{pid: c2.agentPID})
	var other *SelfManaged
	prod2 := mkProvider(c2)
	pid2 := e2.Spawn(func() actor.Receiver {
		s := prod2().(*SelfManaged)
		other = s
		return vWrap{s: s, c: c2}
	}, "provider", actor.WithID("Q"), actor.WithRestartDelay(0), actor.WithMaxRestarts(5))
	pid := e.Spawn(func() actor.Receiver {
		incarnations++
		s := prod().(*SelfManaged)
		cur = s
		return vWrap{s: s, c: c}
	}, "provider", actor.WithID("A"), actor.WithRestartDelay(0), actor.WithMaxRestarts(5))
	agent.take()
	var out []string
	member := func(id string) *Member {
		return &Member{ID: id, Host: "h" + id + ":1", Kinds: []string{"k1"}, Region: "default"}
	}
	for _, op := range ops {
		arg := op[2:]
		switch op[:2] {
		case "hs":
			e.SendWithSender(pid, &Handshake{Member: member(arg)}, actor.NewPID("h"+arg+":1", "provider/"+arg))
		case "ms":
			var ms []*Member
			for _, id := range strings.Split(arg, "+") {
				if id != "" {
					ms = append(ms, member(id))
				}
			}
			e.Send(pid, &Members{Members: ms})
		case "lv":
			e.Send(pid, memberLeave{ListenAddr: "h" + arg + ":1"})
		case "hu": // a handshake is still QUEUED at the busy provider when the unreachable report for that peer is published
			hold := vHold{make(chan struct{}), make(chan struct{})}
			e.Send(pid, hold)
			<-hold.ack // the provider is inside the hold now
			e.SendWithSender(pid, &Handshake{Member: member(arg)}, actor.NewPID("h"+arg+":1", "provider/"+arg))
			e.BroadcastEvent(actor.RemoteUnreachableEvent{ListenAddr: "h" + arg + ":1"})
			mk := make(chan struct{})
			flush.set(mk)
			e.BroadcastEvent(vMarker{})
			select {
			case <-mk:
			case <-time.After(3 * time.Second):
				out = append(out, "NOFLUSH")
			}
			if cur != nil && cur.eventSubPID != nil {
				sy := vSync{make(chan struct{})}
				e.Send(cur.eventSubPID, sy)
				select {
				case <-sy.ch:
				case <-time.After(3 * time.Second):
					out = append(out, "NOCHILDSYNC")
				}
			}
			close(hold.ch) // now the provider handles the handshake, then the report: the peer joins and leaves again
		case "ur": // the report as the remote publishes it: RemoteUnreachableEvent on the event stream -> the provider's "event" child -> memberLeave
			e.BroadcastEvent(actor.RemoteUnreachableEvent{ListenAddr: "h" + arg + ":1"})
			// flush hop 1 (event stream actor): a marker event reaches a synchronous subscriber after it
			mk := make(chan struct{})
			flush.set(mk)
			e.BroadcastEvent(vMarker{})
			select {
			case <-mk:
			case <-time.After(3 * time.Second):
				out = append(out, "NOFLUSH")
			}
			// flush hop 2 (the provider's event child)
			if cur != nil && cur.eventSubPID != nil {
				sy := vSync{make(chan struct{})}
				e.Send(cur.eventSubPID, sy)
				select {
				case <-sy.ch:
				case <-time.After(3 * time.Second):
					out = append(out, "NOCHILDSYNC")
				}
			}
		}
		sy := vSync{make(chan struct{})}
		e.Send(pid, sy)
		select {
		case <-sy.ch:
		case <-time.After(3 * time.Second):
			out = append(out, "NOSYNC")
			continue
		}
		obs := append(agent.take(), rem.take()...)
		obs = append(obs, "members:"+vMemberIDs(cur.members.Slice()), "inc:"+strconv.Itoa(incarnations))
		out = append(out, strings.Join(obs, ","))
	}
	if other != nil && len(out) > 0 {
		if ids := vMemberIDs(other.members.Slice()); ids != "Q" {
			out[len(out)-1] += ",OTHER-CLUSTER-OF-THIS-PROCESS-NOW-HAS-MEMBERS:" + ids
		}
	}
	<-e2.Poison(pid2).Done()
	<-e.Poison(pid).Done()
	return strings.Join(out, ";")
}

// vMakeNilMaps gives every nil map field of *v a fresh map (the harness replaces the Started handler, which is where
// such state is created; a provider that grows a new map there must not crash under the harness for that reason alone).
func vMakeNilMaps(v any) {
	rv := reflect.ValueOf(v).Elem()
	for i := 0; i < rv.NumField(); i++ {
		f := rv.Field(i)
		if f.Kind() == reflect.Map && f.IsNil() {
			reflect.NewAt(f.Type(), unsafe.Pointer(f.UnsafeAddr())).Elem().Set(reflect.MakeMap(f.Type()))
		}
	}
}

type vMarker struct{}

// vHold parks the provider inside Receive until released.
type vHold struct{ ack, ch chan struct{} }

// vFlush is a synchronous subscriber of the event stream: Send runs on the event stream actor's goroutine.
type vFlush struct {
	pid *actor.PID
	mu  sync.Mutex
	ch  chan struct{}
}

func (f *vFlush) set(ch chan struct{}) { f.mu.Lock(); f.ch = ch; f.mu.Unlock() }
func (f *vFlush) Start()               {}
func (f *vFlush) PID() *actor.PID      { return f.pid }
func (f *vFlush) Invoke([]actor.Envelope) {}
func (f *vFlush) Shutdown()            {}
func (f *vFlush) Send(_ *actor.PID, msg any, _ *actor.PID) {
	if _, ok := msg.(vMarker); ok {
		f.mu.Lock()
		if f.ch != nil {
			close(f.ch)
			f.ch = nil
		}
		f.mu.Unlock()
	}
}

// vWrap hands every message except the life-cycle ones to the real SelfManaged.Receive; Started is
// replaced by the part of its handler that does not need zeroconf.
type vWrap struct {
	s *SelfManaged
	c *Cluster
}

func (w vWrap) Receive(c *actor.Context) {
	switch m := c.Message().(type) {
	case actor.Initialized, actor.Stopped:
	case actor.Started:
		w.s.pid = c.PID()
		vMakeNilMaps(w.s) // whatever map-typed state the real Started handler would have created
		w.s.members.Add(w.c.Member())
		w.s.sendMembersToAgent()
		// as SelfManaged.start does: the child that turns RemoteUnreachableEvent into memberLeave
		s := w.s
		s.eventSubPID = c.SpawnChildFunc(func(cc *actor.Context) {
			if m, ok := cc.Message().(vSync); ok {
				close(m.ch)
				return
			}
			s.handleEventStream(cc)
		}, "event")
		w.c.engine.Subscribe(s.eventSubPID)
	case vSync:
		close(m.ch)
	case vHold:
		close(m.ack)
		<-m.ch
	default:
		w.s.Receive(c)
	}
}

func TestVerifProvider(t *testing.T) {
	w, err := vgen.NewWriter("provider")
	if err != nil {
		t.Fatal(err)
	}
	defer w.Close()
	emit := func(id string, ops []string) {
		w.Case(id, "ops="+strings.Join(ops, ","), runProviderHistory(t, ops))
	}
	if in, ok := vgen.ReplayInput(); ok {
		s, _ := vgen.KV(in, "ops")
		emit("replay", strings.Split(s, ","))
		return
	}
	for i, in := range vgen.CorpusInputs() {
		s, _ := vgen.KV(in, "ops")
		emit(fmt.Sprintf("corpus%d", i), strings.Split(s, ","))
	}
	r := vgen.NewRng(vgen.Seed())
	n := vgen.Scale(1200, 8000)
	peers := []string{"B", "C", "D", "E"}
	for i := 0; i < n; i++ {
		rr := r.Fork()
		k := 1 + rr.Intn(8)
		var ops []string
		for j := 0; j < k; j++ {
			switch c := rr.Intn(10); {
			case c < 3:
				ops = append(ops, "hs"+vgen.Pick(rr, peers))
			case c < 5:
				var ids []string
				for _, p := range append([]string{"A"}, peers...) {
					if rr.Chance(1, 3) {
						ids = append(ids, p)
					}
				}
				ops = append(ops, "ms"+strings.Join(ids, "+"))
			case c < 7:
				ops = append(ops, "ur"+vgen.Pick(rr, append([]string{"Z"}, peers...)))
			case c < 8:
				ops = append(ops, "hu"+vgen.Pick(rr, peers))
			default:
				ops = append(ops, "lv"+vgen.Pick(rr, append([]string{"Z"}, peers...)))
			}
		}
		emit(fmt.Sprintf("g%d", i), ops)
	}
}
