package cluster

// Injected by /verif (go test -overlay). Harness for C19 (stream "clustersys"): real Cluster/Agent
// actors on real engines wired by an in-memory bus (a fake actor.Remoter per engine). Request/response
// traffic is delivered at once; Activation / Deactivation / ActorTopology notifications for OTHER nodes
// are held on the bus and released after each operation in a seeded permutation; stub providers, the
// harness pushes membership snapshots.

import (
	"fmt"
	"sort"
	"strconv"
	"strings"
	"sync"
	"testing"
	"time"

	"github.com/anthdm/hollywood/actor"
	"github.com/anthdm/hollywood/internal/vgen"
)

type vHeld struct {
	target *actor.PID
	msg    any
	sender *actor.PID
}

type vBus struct {
	mu      sync.Mutex
	engines map[string]*actor.Engine
	held    []vHeld
	log     []string
}

type vBusRemoter struct {
	bus  *vBus
	addr string
}

func (r *vBusRemoter) Address() string           { return r.addr }
func (r *vBusRemoter) Start(*actor.Engine) error { return nil }
func (r *vBusRemoter) Stop() *sync.WaitGroup     { return &sync.WaitGroup{} }
func (r *vBusRemoter) Send(pid *actor.PID, msg any, sender *actor.PID) {
	b := r.bus
	switch msg.(type) {
	case *Activation, *Deactivation, *ActorTopology:
		b.mu.Lock()
		b.held = append(b.held, vHeld{pid, msg, sender})
		b.mu.Unlock()
		return
	}
	b.mu.Lock()
	e := b.engines[pid.Address]
	b.mu.Unlock()
	if e != nil {
		e.SendLocal(pid, msg, sender)
	}
}

func vHeldKey(h vHeld) string {
	target := strings.TrimPrefix(h.target.ID, "cluster/")
	switch m := h.msg.(type) {
	case *Activation:
		return target + "|A|" + vPidStr(m.PID)
	case *Deactivation:
		return target + "|D|" + vPidStr(m.PID)
	case *ActorTopology:
		var ps []string
		for _, a := range m.Actors {
			ps = append(ps, vPidStr(a.PID))
		}
		sort.Strings(ps)
		return target + "|T|" + strings.Join(ps, "+")
	}
	return target + "|?"
}

func (b *vBus) logf(f string, a ...any) {
	b.mu.Lock()
	b.log = append(b.log, fmt.Sprintf(f, a...))
	b.mu.Unlock()
}

type vSysNode struct {
	id    string
	kinds []string
	e     *actor.Engine
	c     *Cluster
}

type vKindActor struct {
	bus  *vBus
	node string
}

func (a *vKindActor) Receive(c *actor.Context) {
	switch c.Message().(type) {
	case actor.Started:
		a.bus.logf("spawn:%s:%s", a.node, c.PID().ID)
	case actor.Stopped:
		a.bus.logf("stop:%s:%s", a.node, c.PID().ID)
	}
}

var vSysKinds = []string{"p", "q", "pp"} // one kind name is a prefix of another
var vSysIDs = []string{"1", "2", "e/7"} // an id may contain "/" (only kind names may not)

func vPidStr(p *actor.PID) string {
	if p == nil {
		return "nil"
	}
	return p.Address + "~" + p.ID
}

// config: nodes=<id>:<kinds+>,...   ops: join<id> leave<id> act<node>.<kind>.<id>.<sel|n> dea<node>.<kind>.<id> spw<node>.<kind>.<id>
func runClusterSys(t testing.TB, cfg string, ops []string, rng *vgen.Rng) string {
	bus := &vBus{engines: map[string]*actor.Engine{}}
	nodes := map[string]*vSysNode{}
	var order []string
	for _, tok := range strings.Split(cfg, ",") {
		parts := strings.SplitN(tok, ":", 2)
		n := &vSysNode{id: parts[0]}
		if len(parts) == 2 && parts[1] != "" {
			n.kinds = strings.Split(parts[1], "+")
		}
		addr := "h" + n.id + ":1"
		e, err := actor.NewEngine(actor.NewEngineConfig().WithRemote(&vBusRemoter{bus: bus, addr: addr}))
		if err != nil {
			t.Fatal(err)
		}
		n.e = e
		c, err := New(NewConfig().WithEngine(e).WithID(n.id).WithProvider(vStubProvider).WithRequestTimeout(2 * time.Second))
		if err != nil {
			t.Fatal(err)
		}
		for _, k := range n.kinds {
			node := n.id
			c.RegisterKind(k, func() actor.Receiver { return &vKindActor{bus: bus, node: node} }, NewKindConfig())
		}
		n.c = c
		nodes[n.id] = n
		order = append(order, n.id)
	}
	live := map[string]bool{}
	gone := map[string]bool{} // a node that has left does not come back
	member := func(id string) *Member {
		n := nodes[id]
		return &Member{ID: id, Host: "h" + id + ":1", Kinds: append([]string{}, n.kinds...), Region: "default"}
	}
	barrier := func() {
		for _, id := range order {
			if live[id] {
				nodes[id].c.Members()
			}
		}
	}
	release := func() {
		for {
			bus.mu.Lock()
			if len(bus.held) == 0 {
				bus.mu.Unlock()
				return
			}
			// canonical order of the held notifications (Go map iteration made the send order arbitrary)
			sort.SliceStable(bus.held, func(a, b int) bool { return vHeldKey(bus.held[a]) < vHeldKey(bus.held[b]) })
			i := rng.Intn(len(bus.held))
			h := bus.held[i]
			bus.held = append(bus.held[:i:i], bus.held[i+1:]...)
			e := bus.engines[h.target.Address]
			bus.mu.Unlock()
			if e != nil {
				e.SendLocal(h.target, h.msg, h.sender)
			}
			barrier()
		}
	}
	pushSnapshots := func() {
		var ids []string
		for _, id := range order {
			if live[id] {
				ids = append(ids, id)
			}
		}
		for _, id := range ids {
			var ms []*Member
			for _, o := range ids {
				ms = append(ms, member(o))
			}
			nodes[id].e.Send(nodes[id].c.PID(), &Members{Members: ms})
		}
	}
	observe := func() string {
		var parts []string
		for _, id := range order {
			if !live[id] {
				continue
			}
			c := nodes[id].c
			var byID []string
			for _, k := range vSysKinds {
				for _, i := range vSysIDs {
					if p := c.GetActiveByID(k + "/" + i); p != nil {
						byID = append(byID, vPidStr(p))
					}
				}
			}
			var byKind []string
			for _, k := range vSysKinds {
				var ps []string
				for _, p := range c.GetActiveByKind(k) {
					if p != nil {
						ps = append(ps, vPidStr(p))
					}
				}
				sort.Strings(ps)
				byKind = append(byKind, k+"="+strings.Join(ps, "+"))
			}
			parts = append(parts, id+"{"+strings.Join(byID, "+")+"|"+strings.Join(byKind, " ")+"}")
		}
		bus.mu.Lock()
		lg := bus.log
		bus.log = nil
		bus.mu.Unlock()
		sort.Strings(lg)
		return strings.Join(parts, " ") + " log=" + strings.Join(lg, ",")
	}
	registered := func() map[string]bool {
		m := map[string]bool{}
		for _, id := range order {
			for _, k := range vSysKinds {
				for _, i := range vSysIDs {
					if nodes[id].e.Registry.GetPID(k, i) != nil {
						m[id+":"+k+"/"+i] = true
					}
				}
			}
		}
		return m
	}
	waitStops := func(before map[string]bool, keys map[string]bool) []string {
		var ws []string
		for nk := range before {
			parts := strings.SplitN(nk, ":", 2)
			if keys[parts[1]] && live[parts[0]] {
				ws = append(ws, "stop:"+parts[0]+":"+parts[1])
			}
		}
		return ws
	}
	var out []string
	for _, op := range ops {
		res := "ok"
		registeredBefore := registered()
		deactKeys := map[string]bool{}
		bus.mu.Lock()
		for _, h := range bus.held {
			if d, ok := h.msg.(*Deactivation); ok {
				deactKeys[d.PID.ID] = true
			}
		}
		bus.mu.Unlock()
		switch {
		case strings.HasPrefix(op, "join"):
			id := op[4:]
			if n := nodes[id]; n != nil && !live[id] && !gone[id] {
				if n.c.agentPID == nil {
					n.c.Start()
				}
				bus.mu.Lock()
				bus.engines["h"+id+":1"] = n.e
				bus.mu.Unlock()
				live[id] = true
				pushSnapshots()
			} else {
				res = "skip"
			}
		case strings.HasPrefix(op, "leave"):
			id := op[5:]
			if live[id] {
				live[id] = false
				gone[id] = true
				bus.mu.Lock()
				delete(bus.engines, "h"+id+":1")
				bus.mu.Unlock()
				pushSnapshots()
			} else {
				res = "skip"
			}
		default:
			f := strings.Split(op[3:], ".")
			n := nodes[f[0]]
			if n == nil || !live[f[0]] {
				res = "skip"
				break
			}
			switch op[:3] {
			case "act":
				cfgA := NewActivationConfig().WithID(f[2])
				sel := f[3]
				cfgA = cfgA.WithSelectMemberFunc(func(d ActivationDetails) *Member {
					if sel == "n" {
						return nil
					}
					ms := append([]*Member{}, d.Members...)
					sort.Slice(ms, func(i, j int) bool { return ms[i].ID < ms[j].ID })
					i, _ := strconv.Atoi(sel)
					return ms[i%len(ms)]
				})
				res = "ret=" + vPidStr(n.c.Activate(f[1], cfgA))
			case "dea":
				if p := n.c.GetActiveByID(f[1] + "/" + f[2]); p != nil {
					n.c.Deactivate(p)
					deactKeys[p.ID] = true
					res = "deact=" + vPidStr(p)
				} else {
					res = "deact=nil"
				}
			case "spw":
				node := n.id
				p := n.c.Spawn(func() actor.Receiver { return &vKindActor{bus: bus, node: node} }, f[1], actor.WithID(f[2]))
				res = "ret=" + vPidStr(p)
			}
		}
		barrier()
		release()
		barrier()
		// an actor poisoned by a Deactivation stops asynchronously: wait (structurally) for the Stopped of
		// every actor that was registered before this operation and whose id was deactivated in it
		for _, w := range waitStops(registeredBefore, deactKeys) {
			deadline := time.Now().Add(3 * time.Second)
			for time.Now().Before(deadline) {
				bus.mu.Lock()
				found := false
				for _, l := range bus.log {
					if l == w {
						found = true
					}
				}
				bus.mu.Unlock()
				if found {
					break
				}
				time.Sleep(time.Millisecond)
			}
		}
		out = append(out, res+" "+observe())
	}
	for _, id := range order {
		if nodes[id].c.agentPID != nil {
			nodes[id].c.Stop()
		}
	}
	return strings.Join(out, ";")
}

func TestVerifClusterSys(t *testing.T) {
	w, err := vgen.NewWriter("clustersys")
	if err != nil {
		t.Fatal(err)
	}
	defer w.Close()
	emit := func(id string, cfg string, ops []string, seed uint64) {
		w.Case(id, fmt.Sprintf("nodes=%s perm=%d ops=%s", cfg, seed, strings.Join(ops, ",")), runClusterSys(t, cfg, ops, vgen.NewRng(seed)))
	}
	parse := func(in string) (string, []string, uint64) {
		cfg, _ := vgen.KV(in, "nodes")
		o, _ := vgen.KV(in, "ops")
		s, _ := vgen.KV(in, "perm")
		seed, _ := strconv.ParseUint(s, 10, 64)
		return cfg, strings.Split(o, ","), seed
	}
	if in, ok := vgen.ReplayInput(); ok {
		cfg, ops, seed := parse(in)
		emit("replay", cfg, ops, seed)
		return
	}
	for i, in := range vgen.CorpusInputs() {
		cfg, ops, seed := parse(in)
		emit(fmt.Sprintf("corpus%d", i), cfg, ops, seed)
	}
	r := vgen.NewRng(vgen.Seed())
	n := vgen.Scale(1200, 10000)
	ids := []string{"A", "B", "C"}
	for i := 0; i < n; i++ {
		rr := r.Fork()
		nn := 1 + rr.Intn(3)
		var cfgs []string
		for j := 0; j < nn; j++ {
			var ks []string
			for _, k := range vSysKinds {
				if rr.Chance(1, 2) {
					ks = append(ks, k)
				}
			}
			cfgs = append(cfgs, ids[j]+":"+strings.Join(ks, "+"))
		}
		ops := []string{"joinA"}
		liveG := map[string]bool{"A": true}
		goneG := map[string]bool{}
		if rr.Chance(3, 4) { // usually the whole cluster forms first
			for j := 1; j < nn; j++ {
				ops = append(ops, "join"+ids[j])
				liveG[ids[j]] = true
			}
		}
		var activeKeys [][2]string
		k := 2 + rr.Intn(9)
		for j := 0; j < k; j++ {
			var liveIDs []string
			for _, id := range ids[:nn] {
				if liveG[id] {
					liveIDs = append(liveIDs, id)
				}
			}
			if len(liveIDs) == 0 {
				break
			}
			node := vgen.Pick(rr, liveIDs)
			kind := vgen.Pick(rr, vSysKinds)
			id := vgen.Pick(rr, vSysIDs)
			switch c := rr.Intn(14); {
			case c < 1:
				cand := ids[rr.Intn(nn)]
				ops = append(ops, "join"+cand)
				if !goneG[cand] {
					liveG[cand] = true
				}
			case c < 3 && len(liveIDs) > 1:
				ops = append(ops, "leave"+node)
				liveG[node] = false
				goneG[node] = true
			case c < 8:
				sel := strconv.Itoa(rr.Intn(3))
				if rr.Chance(1, 12) {
					sel = "n"
				}
				if len(activeKeys) > 0 && rr.Chance(1, 4) { // duplicate activation of a known id, from any member
					ak := vgen.Pick(rr, activeKeys)
					kind, id = ak[0], ak[1]
				}
				ops = append(ops, fmt.Sprintf("act%s.%s.%s.%s", node, kind, id, sel))
				activeKeys = append(activeKeys, [2]string{kind, id})
			case c < 11:
				if len(activeKeys) > 0 && rr.Chance(3, 4) {
					ak := vgen.Pick(rr, activeKeys)
					kind, id = ak[0], ak[1]
				}
				ops = append(ops, fmt.Sprintf("dea%s.%s.%s", node, kind, id))
			default:
				ops = append(ops, fmt.Sprintf("spw%s.%s.%s", node, kind, id))
				activeKeys = append(activeKeys, [2]string{kind, id})
			}
		}
		emit(fmt.Sprintf("g%d", i), strings.Join(cfgs, ","), ops, rr.Next()%1000000)
	}
}
