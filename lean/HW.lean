import HW.Props.C14
import HW.Props.C15
import HW.Props.C16
