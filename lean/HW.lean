import HW.Props.C14
