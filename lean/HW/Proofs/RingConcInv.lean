import HW.Model.RingConc
namespace HW.RingConc

def fifoState (ops : List (RingOp Nat)) : List Nat :=
  ops.foldl (fun q op => (Fifo.step q op).1) []

theorem run_append (q : List Nat) (ops : List (RingOp Nat)) (op : RingOp Nat) :
    Fifo.run q (ops ++ [op]) =
      Fifo.run q ops ++ [(Fifo.step (ops.foldl (fun q o => (Fifo.step q o).1) q) op).2] := by
  induction ops generalizing q with
  | nil => simp [Fifo.run]
  | cons o ops ih => simp [Fifo.run, ih]

theorem countP_le_one_of_unique {α : Type} (p : α → Bool) (l : List α)
    (h : ∀ (i j : Nat) (a b : α), l[i]? = some a → p a = true → l[j]? = some b → p b = true → i = j) :
    l.countP p ≤ 1 := by
  induction l with
  | nil => simp
  | cons x xs ih =>
    rw [List.countP_cons]
    by_cases hx : p x = true
    · have : xs.countP p = 0 := by
        rw [List.countP_eq_zero]
        intro b hb hpb
        obtain ⟨j, hj⟩ := List.getElem?_of_mem hb
        have := h 0 (j+1) x b (by simp) hx (by simpa using hj) hpb
        omega
      simp [this, hx]
    · have := ih (fun i j a b hi ha hj hb => by
        have := h (i+1) (j+1) a b (by simpa using hi) ha (by simpa using hj) hb
        omega)
      simp [hx, this]

structure Inv (s : St) : Prop where
  cnt : s.cnt = s.q.length
  run : Fifo.run [] (s.lin.map (·.1)) = s.lin.map (·.2)
  qst : s.q = fifoState (s.lin.map (·.1))
  lock1 : ∀ (t : Nat) (pc : Pc), s.thr[t]? = some pc → inCritical pc = true → s.lock = some t
  lock2 : ∀ (t : Nat), s.lock = some t → ∃ pc, s.thr[t]? = some pc ∧ inCritical pc = true
  res : ∀ (t : Nat) (r : RingOut Nat), r ∈ s.results.getD t [] → r ∈ s.lin.map (·.2)
  fin : ∀ (t : Nat) (op : RingOp Nat) (res : RingOut Nat), s.thr[t]? = some (.finishing op res) → res ∈ s.lin.map (·.2)

theorem inv_init (progs : List (List (RingOp Nat))) : Inv (init progs) := by
  constructor <;> simp [init, Fifo.run, fifoState, inCritical]
  · intro t r h
    cases h' : progs[t]? <;> simp [h'] at h

theorem inv_set_nc {s : St} (h : Inv s) {t : Nat} {old new : Pc} (hpc : s.thr[t]? = some old)
    (ho : inCritical old = false) (hn : inCritical new = false) (todo' : List (List (RingOp Nat))) :
    Inv (setT { s with todo := todo' } t new) := by
  have hlt : t < s.thr.length := by
    rcases Nat.lt_or_ge t s.thr.length with h' | h'
    · exact h'
    · rw [List.getElem?_eq_none h'] at hpc; cases hpc
  refine ⟨h.cnt, h.run, h.qst, ?_, ?_, h.res, ?_⟩
  · intro t' pc hget hc
    simp only [setT, List.getElem?_set] at hget
    split at hget
    · simp at hget; subst hget; simp [hn] at hc
    · exact h.lock1 t' pc hget hc
  · intro t' hl
    obtain ⟨pc, hget, hc⟩ := h.lock2 t' hl
    have hne : t ≠ t' := by
      intro e; subst e; rw [hpc] at hget; cases hget; simp [ho] at hc
    exact ⟨pc, by simp [setT, hne, hget], hc⟩
  · intro t' op res hget
    simp only [setT, List.getElem?_set] at hget
    split at hget
    · simp at hget; subst hget; simp [inCritical] at hn
    · exact h.fin t' op res hget

theorem mem_getD_set {α : Type} (l : List (List α)) (t t' : Nat) (x r : α)
    (h : r ∈ (l.set t (l.getD t [] ++ [x])).getD t' []) : r ∈ l.getD t' [] ∨ r = x := by
  rw [List.getD_eq_getElem?_getD, List.getElem?_set] at h
  split at h
  · rename_i e; subst e
    split at h
    · simp at h; exact h
    · simp at h
  · left; rw [List.getD_eq_getElem?_getD]; exact h

theorem fifoState_append (ops : List (RingOp Nat)) (op : RingOp Nat) :
    fifoState (ops ++ [op]) = (Fifo.step (fifoState ops) op).1 := by
  simp [fifoState, List.foldl_append]

theorem inv_load {s : St} (h : Inv s) (t : Nat) :
    Inv (addResult { s with lin := s.lin ++ [(.len, .len s.cnt)] } t (.len s.cnt)) := by
  refine ⟨h.cnt, ?_, ?_, h.lock1, h.lock2, ?_, ?_⟩
  · show Fifo.run [] ((s.lin ++ [((RingOp.len, RingOut.len s.cnt) : RingOp Nat × RingOut Nat)]).map (·.1)) = (s.lin ++ [((RingOp.len, RingOut.len s.cnt) : RingOp Nat × RingOut Nat)]).map (·.2)
    rw [List.map_append, List.map_append, List.map_singleton, List.map_singleton, run_append, h.run]
    have := h.qst; unfold fifoState at this
    rw [← this, h.cnt]; rfl
  · show s.q = fifoState ((s.lin ++ [((RingOp.len, RingOut.len s.cnt) : RingOp Nat × RingOut Nat)]).map (·.1))
    rw [List.map_append, List.map_singleton, fifoState_append, ← h.qst]; rfl
  · intro t' r hr
    show r ∈ (s.lin ++ [((RingOp.len, RingOut.len s.cnt) : RingOp Nat × RingOut Nat)]).map (·.2)
    rcases mem_getD_set _ _ _ _ _ hr with h' | h'
    · have := h.res t' r h'; simp; left; simpa using this
    · simp [h']
  · intro t' op res hget
    show res ∈ (s.lin ++ [((RingOp.len, RingOut.len s.cnt) : RingOp Nat × RingOut Nat)]).map (·.2)
    have := h.fin t' op res hget
    simp; left; simpa using this

theorem lt_of_getElem?_some {α : Type} {l : List α} {t : Nat} {a : α} (h : l[t]? = some a) :
    t < l.length := by
  rcases Nat.lt_or_ge t l.length with h' | h'
  · exact h'
  · rw [List.getElem?_eq_none h'] at h; cases h

theorem inv_acquire {s : St} (h : Inv s) {t : Nat} {op : RingOp Nat}
    (hpc : s.thr[t]? = some (.waiting op)) (hlock : s.lock = none) :
    Inv (setT { s with lock := some t } t (.inCS op)) := by
  have hlt := lt_of_getElem?_some hpc
  refine ⟨h.cnt, h.run, h.qst, ?_, ?_, h.res, ?_⟩
  · intro t' pc hget hc
    simp only [setT, List.getElem?_set] at hget
    split at hget
    · rename_i e; subst e; rfl
    · have := h.lock1 t' pc hget hc; rw [hlock] at this; cases this
  · intro t' hl
    have e : t = t' := by simpa [setT] using hl
    subst e
    exact ⟨.inCS op, by simp [setT, hlt], rfl⟩
  · intro t' op' res hget
    simp only [setT, List.getElem?_set] at hget
    split at hget
    · simp at hget
    · exact h.fin t' op' res hget

theorem inv_linearize {s : St} (h : Inv s) {t : Nat} {op : RingOp Nat}
    (hpc : s.thr[t]? = some (.inCS op)) :
    Inv (setT { s with q := (Fifo.step s.q op).1, cnt := (Fifo.step s.q op).1.length,
                       lin := s.lin ++ [(op, (Fifo.step s.q op).2)] } t
          (.finishing op (Fifo.step s.q op).2)) := by
  have hlt := lt_of_getElem?_some hpc
  have hl := h.lock1 t _ hpc rfl
  refine ⟨rfl, ?_, ?_, ?_, ?_, ?_, ?_⟩
  · show Fifo.run [] ((s.lin ++ [(op, (Fifo.step s.q op).2)]).map (·.1))
        = (s.lin ++ [(op, (Fifo.step s.q op).2)]).map (·.2)
    rw [List.map_append, List.map_append, List.map_singleton, List.map_singleton, run_append, h.run]
    have := h.qst; unfold fifoState at this
    rw [← this]
  · show (Fifo.step s.q op).1 = fifoState ((s.lin ++ [(op, (Fifo.step s.q op).2)]).map (·.1))
    rw [List.map_append, List.map_singleton, fifoState_append, ← h.qst]
  · intro t' pc hget hc
    simp only [setT, List.getElem?_set] at hget
    split at hget
    · rename_i e; subst e; exact hl
    · exact h.lock1 t' pc hget hc
  · intro t' hl'
    obtain ⟨pc, hget, hc⟩ := h.lock2 t' hl'
    by_cases e : t = t'
    · subst e; exact ⟨.finishing op (Fifo.step s.q op).2, by simp [setT, hlt], rfl⟩
    · exact ⟨pc, by simp [setT, e, hget], hc⟩
  · intro t' r hr
    show r ∈ (s.lin ++ [(op, (Fifo.step s.q op).2)]).map (·.2)
    have := h.res t' r hr
    simp; left; simpa using this
  · intro t' op' res hget
    show res ∈ (s.lin ++ [(op, (Fifo.step s.q op).2)]).map (·.2)
    simp only [setT, List.getElem?_set] at hget
    split at hget
    · simp at hget; simp [hget.2]
    · have := h.fin t' op' res hget
      simp; left; simpa using this

theorem inv_release {s : St} (h : Inv s) {t : Nat} {op : RingOp Nat} {res : RingOut Nat}
    (hpc : s.thr[t]? = some (.finishing op res)) :
    Inv (addResult (setT { s with lock := none } t .idle) t res) := by
  have hlt := lt_of_getElem?_some hpc
  have hl := h.lock1 t _ hpc rfl
  refine ⟨h.cnt, h.run, h.qst, ?_, ?_, ?_, ?_⟩
  · intro t' pc hget hc
    simp only [addResult, setT, List.getElem?_set] at hget
    split at hget
    · simp at hget; subst hget; simp [inCritical] at hc
    · rename_i ne
      have := h.lock1 t' pc hget hc
      rw [hl] at this; exact absurd (by simpa using this) ne
  · intro t' hl'; simp [addResult, setT] at hl'
  · intro t' r hr
    rcases mem_getD_set _ _ _ _ _ hr with h' | h'
    · exact h.res t' r h'
    · subst h'; exact h.fin t op r hpc
  · intro t' op' res' hget
    simp only [addResult, setT, List.getElem?_set] at hget
    split at hget
    · simp at hget
    · exact h.fin t' op' res' hget

theorem inv_step {s s' : St} (h : Inv s) (t : Nat) (hs : step s t = some s') : Inv s' := by
  unfold step at hs
  split at hs
  · cases hs
  · -- idle
    rename_i hpc
    split at hs
    · cases hs
    · rename_i op rest htodo
      cases op <;>
        (simp only [Option.some.injEq] at hs; subst hs; exact inv_set_nc h hpc rfl rfl _)
  · -- waiting
    rename_i op hpc
    split at hs
    · cases hs
    · rename_i hlock
      simp only [Option.some.injEq] at hs; subst hs
      exact inv_acquire h hpc hlock
  · -- inCS
    rename_i op hpc
    simp only [Option.some.injEq] at hs; subst hs
    exact inv_linearize h hpc
  · -- finishing
    rename_i op res hpc
    simp only [Option.some.injEq] at hs; subst hs
    exact inv_release h hpc
  · -- loading
    rename_i hpc
    simp only [Option.some.injEq] at hs; subst hs
    exact inv_load (inv_set_nc h hpc rfl rfl s.todo) t

theorem inv_run {s : St} (h : Inv s) (sched : List Nat) : Inv (runSched s sched) := by
  induction sched generalizing s with
  | nil => exact h
  | cons t ts ih =>
    unfold runSched
    split
    · exact ih h
    · rename_i s' hs; exact ih (inv_step h t hs)

theorem inv_reach (progs : List (List (RingOp Nat))) (sched : List Nat) :
    Inv (runSched (init progs) sched) := inv_run (inv_init progs) sched

end HW.RingConc
