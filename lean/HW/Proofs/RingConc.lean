import HW.Model.RingConc
import HW.Proofs.RingConcInv
namespace HW.RingConc

/-- mutual exclusion + counter consistency, in every state reachable by any schedule. -/
theorem safety (progs : List (List (RingOp Nat))) (sched : List Nat) :
    let s := runSched (init progs) sched
    (s.thr.countP inCritical ≤ 1) ∧ (s.cnt = s.q.length) ∧
    ((s.thr.countP inCritical = 1) ↔ s.lock.isSome = true) := by
  intro s
  have h : Inv s := inv_reach progs sched
  have hle : s.thr.countP inCritical ≤ 1 := by
    apply countP_le_one_of_unique
    intro i j a b hi ha hj hb
    have h1 := h.lock1 i a hi ha
    have h2 := h.lock1 j b hj hb
    rw [h1] at h2
    exact Option.some.inj h2
  refine ⟨hle, h.cnt, ?_, ?_⟩
  · intro h1
    have hpos : 0 < s.thr.countP inCritical := by omega
    rw [List.countP_pos_iff] at hpos
    obtain ⟨a, ha, hc⟩ := hpos
    obtain ⟨i, hi⟩ := List.getElem?_of_mem ha
    rw [h.lock1 i a hi hc]; rfl
  · intro hl
    obtain ⟨t, ht⟩ := Option.isSome_iff_exists.mp hl
    obtain ⟨pc, hget, hc⟩ := h.lock2 t ht
    have hpos : 0 < s.thr.countP inCritical := by
      rw [List.countP_pos_iff]
      exact ⟨pc, List.mem_of_getElem? hget, hc⟩
    omega

/-- Linearizability: the results all operations returned so far are exactly those of the sequential
    FIFO queue applied to the operations in linearization order — for every program of every thread
    and EVERY interleaving. -/
theorem linearizable (progs : List (List (RingOp Nat))) (sched : List Nat) :
    let s := runSched (init progs) sched
    Fifo.run [] (s.lin.map (·.1)) = s.lin.map (·.2) :=
  (inv_reach progs sched).run

/-- … and the linearization order respects real time within each thread: what a thread has been
    returned so far is, in program order, what the linearization attributes to its completed
    operations (each returned result appears in `lin`). -/
theorem results_in_lin (progs : List (List (RingOp Nat))) (sched : List Nat) (t : Nat) (r : RingOut Nat) :
    let s := runSched (init progs) sched
    r ∈ s.results.getD t [] → r ∈ s.lin.map (·.2) :=
  (inv_reach progs sched).res t r

end HW.RingConc
