import HW.Model.Engine
namespace HW.Engine

theorem esReceive_nodup (e : Eng) (subs : List Key) (m : EMsg) (h : subs.Nodup) :
    (esReceive e subs m).1.Nodup := by
  cases m with
  | sub k =>
    simp only [esReceive]
    split
    · exact h
    · rename_i hk
      exact List.nodup_append.mpr ⟨h, (by simp : [k].Nodup), by
        intro a ha b hb
        simp at hb
        subst hb
        intro heq; subst heq; exact hk ha⟩
  | unsub k => exact h.filter _
  | event n => exact h.filter _

theorem count_nodup (l : List Key) (h : l.Nodup) (k : Key) : l.count k = if k ∈ l then 1 else 0 := by
  induction l with
  | nil => simp
  | cons a l ih =>
    have hn := List.nodup_cons.mp h
    rw [List.count_cons, ih hn.2]
    by_cases hak : a = k
    · subst hak
      simp [hn.1]
    · have : (a == k) = false := by simp [hak]
      by_cases hm : k ∈ l <;> simp [hm, this, Ne.symm hak]

theorem esRun_nodup (e : Eng) (subs : List Key) (ms : List EMsg) (h : subs.Nodup) :
    (esRun e subs ms).1.Nodup := by
  induction ms generalizing subs with
  | nil => exact h
  | cons m ms ih => simp only [esRun]; exact ih _ (esReceive_nodup e subs m h)

/-- membership after one message, for a deliverable key. -/
theorem mem_esReceive (e : Eng) (subs : List Key) (m : EMsg) (k : Key) (hd : deliverable e k = true) :
    (k ∈ (esReceive e subs m).1) ↔ subStep k (decide (k ∈ subs)) m = true := by
  cases m with
  | sub k' =>
    simp only [esReceive, subStep]
    by_cases hk : k' = k
    · subst hk
      by_cases hm : k' ∈ subs <;> simp [hm]
    · by_cases hm : k' ∈ subs
      · simp [hm, hk]
      · simp [hm, hk, Ne.symm hk]
  | unsub k' =>
    simp only [esReceive, subStep]
    by_cases hk : k' = k
    · subst hk; simp
    · simp [hk, Ne.symm hk]
  | event n =>
    simp [esReceive, subStep, hd]

theorem mem_esRun (e : Eng) (subs : List Key) (ms : List EMsg) (k : Key) (hd : deliverable e k = true) :
    (k ∈ (esRun e subs ms).1) ↔ subscribedAfter k (decide (k ∈ subs)) ms = true := by
  induction ms generalizing subs with
  | nil => simp [esRun, subscribedAfter]
  | cons m ms ih =>
    simp only [esRun, subscribedAfter, List.foldl_cons]
    rw [ih (esReceive e subs m).1]
    have h1 := mem_esReceive e subs m k hd
    have : decide (k ∈ (esReceive e subs m).1) = subStep k (decide (k ∈ subs)) m := by
      by_cases hk : k ∈ (esReceive e subs m).1
      · simp [hk, h1.mp hk]
      · have : subStep k (decide (k ∈ subs)) m = false := by
          cases hb : subStep k (decide (k ∈ subs)) m with
          | false => rfl
          | true => exact absurd (h1.mpr hb) hk
        simp [hk, this]
    rw [this]
    rfl

/-- one event is forwarded to a key exactly once if it is a deliverable subscriber, else not at all. -/
theorem forward_count (e : Eng) (subs : List Key) (n : Nat) (k : Key) (h : subs.Nodup) :
    (esReceive e subs (.event n)).2.count (k, n) =
      if k ∈ subs ∧ deliverable e k = true then 1 else 0 := by
  simp only [esReceive]
  have hnd : (subs.filter (deliverable e)).Nodup := h.filter _
  have hcount : ((subs.filter (deliverable e)).map (·, n)).count (k, n) = (subs.filter (deliverable e)).count k := by
    rw [List.count_eq_countP, List.count_eq_countP, List.countP_map]
    congr 1
    funext a
    by_cases hak : a = k
    · subst hak
      show ((a, n) == (a, n)) = (a == a)
      simp
    · have h1 : ((a, n) == (k, n)) = false := by
        apply beq_false_of_ne
        intro heq
        exact hak (Prod.mk.inj heq).1
      have h2 : (a == k) = false := beq_false_of_ne hak
      show ((a, n) == (k, n)) = (a == k)
      rw [h1, h2]
  rw [hcount, count_nodup _ hnd]
  simp [List.mem_filter]

/-- the event stream forwards only to deliverable keys … -/
theorem forwards_deliverable (e : Eng) (subs : List Key) (m : EMsg) :
    ∀ f ∈ (esReceive e subs m).2, deliverable e f.1 = true := by
  cases m with
  | sub k => simp [esReceive]
  | unsub k => simp [esReceive]
  | event n =>
    simp only [esReceive, List.mem_map, List.mem_filter]
    rintro f ⟨a, ⟨_, hd⟩, rfl⟩
    exact hd

/-- … and a message for a deliverable key never turns into an event (no feedback into the stream). -/
theorem send_deliverable (e : Eng) (k : Key) (msg : Payload) (sender : Option Key) (h : deliverable e k = true) :
    send e (some k) msg sender = .enqueue k.id ∨ send e (some k) msg sender = .remoteSend k := by
  unfold deliverable at h
  unfold send
  split at h
  · rename_i ha; simp [ha, h]
  · rename_i ha; simp [ha, h]

theorem forwards_bound (e : Eng) (subs : List Key) (m : EMsg) :
    (esReceive e subs m).2.length ≤ subs.length := by
  cases m with
  | sub k => simp [esReceive]
  | unsub k => simp [esReceive]
  | event n => simp [esReceive]; exact List.length_filter_le _ _

end HW.Engine

namespace HW.Engine

/-- event numbers of a stream, in stream order. -/
def eventsOf : List EMsg → List Nat
  | [] => []
  | .event n :: ms => n :: eventsOf ms
  | _ :: ms => eventsOf ms

/-- what subscriber `k` is forwarded, in the order of forwarding. -/
def forwardedTo (k : Key) (fw : List (Key × Nat)) : List Nat := (fw.filter (·.1 = k)).map (·.2)

theorem forwardedTo_append (k : Key) (a b : List (Key × Nat)) :
    forwardedTo k (a ++ b) = forwardedTo k a ++ forwardedTo k b := by
  simp [forwardedTo, List.filter_append]

theorem forwardedTo_map (k : Key) (l : List Key) (n : Nat) :
    forwardedTo k (l.map (·, n)) = List.replicate (l.count k) n := by
  induction l with
  | nil => simp [forwardedTo]
  | cons a l ih =>
    by_cases h : a = k
    · subst h
      simp only [List.map_cons, forwardedTo, List.count_cons_self] at ih ⊢
      simp [List.filter_cons, List.replicate_succ, ih]
    · have hb : (a == k) = false := beq_false_of_ne h
      simp only [List.map_cons, forwardedTo] at ih ⊢
      simp [List.filter_cons, h, List.count_cons, hb, ih]

theorem forwardedTo_event (e : Eng) (subs : List Key) (n : Nat) (k : Key) (h : subs.Nodup) :
    forwardedTo k (esReceive e subs (.event n)).2 = [] ∨ forwardedTo k (esReceive e subs (.event n)).2 = [n] := by
  simp only [esReceive]
  rw [forwardedTo_map]
  have hnd : (subs.filter (deliverable e)).Nodup := h.filter _
  rw [count_nodup _ hnd]
  split
  · right; rfl
  · left; rfl

/-- events reach each subscriber in stream order, each at most once: what `k` is forwarded is a
    sublist of the stream's events. -/
theorem forwards_in_order (e : Eng) (subs : List Key) (ms : List EMsg) (k : Key) (h : subs.Nodup) :
    (forwardedTo k (esRun e subs ms).2).Sublist (eventsOf ms) := by
  induction ms generalizing subs with
  | nil => simp [esRun, forwardedTo, eventsOf]
  | cons m ms ih =>
    simp only [esRun]
    rw [forwardedTo_append]
    have hnd := esReceive_nodup e subs m h
    have ih' := ih (esReceive e subs m).1 hnd
    cases m with
    | sub k' => simpa [esReceive, forwardedTo, eventsOf] using ih'
    | unsub k' => simpa [esReceive, forwardedTo, eventsOf] using ih'
    | event n =>
      simp only [eventsOf]
      rcases forwardedTo_event e subs n k h with h1 | h1
      · rw [h1]; simpa using List.Sublist.cons n ih'
      · rw [h1]; simpa using List.Sublist.cons_cons n ih'

end HW.Engine
