import HW.Model.Router
import HW.Proofs.Wire
namespace HW.Router

theorem inv_init : RouteInv {} := by intro a h; simp at h

theorem mem_filter_ne {a b : Addr} {l : List Addr} (h : a ∈ l) (hne : a ≠ b) : a ∈ l.filter (· ≠ b) := by
  simp [List.mem_filter, h, hne]

theorem shutdown_inv (s : St) (a : Addr) (h : RouteInv s) : RouteInv (shutdown s a).1 := by
  intro b hb
  simp only [shutdown] at hb ⊢
  by_cases hba : b = a
  · subst hba; right; simp
  · rcases h b hb with h1 | h1
    · left; exact mem_filter_ne h1 hba
    · right; exact List.mem_append_left _ h1

theorem send_inv (s : St) (a : Addr) (m : Nat) (h : RouteInv s) : RouteInv (send s a m) := by
  intro b hb
  rcases h b hb with h1 | h1
  · left; exact h1
  · right; exact List.mem_append_left _ h1

theorem connLost_inv (s : St) (a : Addr) (h : RouteInv s) : RouteInv (connLost s a).1 := by
  unfold connLost
  split
  · exact shutdown_inv s a h
  · exact h

theorem ensureRoute_inv (dial : Addr → Bool) (s : St) (a : Addr) (h : RouteInv s) :
    RouteInv (ensureRoute dial s a).1 := by
  unfold ensureRoute
  by_cases h1 : s.routes.contains a = true
  · simp only [h1, if_true]; exact h
  · by_cases h2 : s.registered.contains a = true
    · simp only [h1, h2, if_true, if_false, Bool.false_eq_true]
      intro b hb
      rcases List.mem_cons.mp hb with h3 | h3
      · subst h3; left; simpa using h2
      · exact h b h3
    · have hbase : RouteInv { s with routes := a :: s.routes, registered := a :: s.registered } := by
        intro b hb
        rcases List.mem_cons.mp hb with h3 | h3
        · subst h3; left; simp
        · rcases h b h3 with h4 | h4
          · left; exact List.mem_cons_of_mem _ h4
          · right; exact h4
      by_cases h3 : dial a = true
      · simp only [h1, h2, h3, if_true, if_false, Bool.false_eq_true]; exact hbase
      · simp only [h1, h2, h3, if_false, Bool.false_eq_true]; exact shutdown_inv _ a hbase

theorem routerStep_inv (dial : Addr → Bool) (s : St) (h : RouteInv s) : RouteInv (routerStep dial s).1 := by
  unfold routerStep
  split
  · exact h
  · rename_i a rest hin
    intro b hb
    simp only at hb ⊢
    have hb' := List.mem_filter.mp hb
    have hne : b ≠ a := by simpa using hb'.2
    rcases h b hb'.1 with h1 | h1
    · left; exact h1
    · right
      rw [hin] at h1
      rcases List.mem_cons.mp h1 with h2 | h2
      · cases h2; exact absurd rfl hne
      · exact h2
  · rename_i a m rest hin
    have hpop : RouteInv { s with inbox := rest } := by
      intro b hb
      rcases h b hb with h1 | h1
      · left; exact h1
      · right
        rw [hin] at h1
        rcases List.mem_cons.mp h1 with h2 | h2
        · cases h2
        · exact h2
    exact ensureRoute_inv dial _ a hpop

/-- once the router has worked through its inbox, every address it routes has a registered writer:
    a send to an address whose connection failed or was lost makes a fresh attempt. -/
theorem quiescent_routes_live (s : St) (h : RouteInv s) (hq : s.inbox = []) :
    ∀ a, a ∈ s.routes → a ∈ s.registered := by
  intro a ha
  rcases h a ha with h1 | h1
  · exact h1
  · rw [hq] at h1; cases h1

/-- every message handled by the router is accounted for: sent on a live writer or dead-lettered. -/
theorem deliver_accounted (dial : Addr → Bool) (s : St) (a : Addr) (m : Nat) (rest : List RMsg)
    (hin : s.inbox = .deliver a m :: rest) :
    Out.sent a m ∈ (routerStep dial s).2 ∨ Out.deadLetter a m ∈ (routerStep dial s).2 := by
  unfold routerStep
  rw [hin]
  simp only [sendToWriter]
  split <;> simp

/-- Start twice, Stop twice, Stop before Start are harmless; inbound connections are accepted exactly
    between a successful Start and the first Stop. -/
theorem remote_state_machine (s : RState) :
    (remoteStart (remoteStart s).1).1 = (remoteStart s).1 ∧
    (remoteStop (remoteStop s).1).1 = (remoteStop s).1 ∧
    accepting (remoteStop s).1 = false ∧
    (remoteStop .initialized).1 = .initialized ∧
    accepting (remoteStart .initialized).1 = true ∧
    (remoteStart (remoteStop .running).1).2 = .alreadyStarted := by
  cases s <;> simp [remoteStart, remoteStop, accepting]

end HW.Router
