import HW.Proofs.Inbox
import HW.Proofs.InboxMeasure
namespace HW.Inbox

/-- effective steps of a schedule (entries naming a finished / non-existent thread are skipped). -/
def effSteps (B : Nat) (s : St) : List Nat → Nat
  | [] => 0
  | t :: ts => match step B s t with
    | none => effSteps B s ts
    | some (s', _) => 1 + effSteps B s' ts

/-- along any schedule, the number of effective steps is bounded by the potential of the start state. -/
theorem effSteps_le_potential {B : Nat} (hB : 1 ≤ B) (W0 : Nat) (sched : List Nat) :
    ∀ s, wt s ≤ W0 → effSteps B s sched ≤ potential W0 s := by
  induction sched with
  | nil => intro s _; exact Nat.zero_le _
  | cons t ts ih =>
    intro s hW
    unfold effSteps
    split
    · exact ih s hW
    · rename_i s' l hs
      obtain ⟨pc, pc', extra, hpc, hS⟩ := step_Step hs
      obtain ⟨hW', hlt⟩ := hS.potential_lt hB hpc hW
      have := ih s' hW'
      omega

/-- Termination: from every initial configuration (any number of senders with any programs, any number
    of stoppers, any batch size ≥ 1) there is a bound on the number of steps ANY schedule can take —
    the protocol has no infinite runs (no live-lock: e.g. workers cannot keep re-spawning each other). -/
theorem terminates (B : Nat) (hB : 1 ≤ B) (senders : List (List Msg)) (nStop : Nat) :
    ∃ N, ∀ sched, effSteps B (init senders nStop) sched ≤ N :=
  ⟨potential (wt (init senders nStop)) (init senders nStop),
    fun sched => effSteps_le_potential hB _ sched _ (Nat.le_refl _)⟩

/-- a state in which no thread can take a step is quiescent. -/
theorem stuck_is_quiescent (B : Nat) (s : St) (h : ∀ t, step B s t = none) : quiescent s = true := by
  unfold quiescent
  rw [List.all_eq_true]
  intro pc hmem
  obtain ⟨t, ht⟩ := List.getElem?_of_mem hmem
  have hs := h t
  unfold step at hs
  rw [ht] at hs
  cases pc with
  | sPush ms => cases ms with
    | nil => rfl
    | cons m ms => simp at hs
  | done => rfl
  | wPop => by_cases hq : s.q = [] <;> simp [hq] at hs
  | wCasIdle => by_cases hq : s.status = .running <;> simp [hq] at hs
  | stCas => by_cases hq : s.status = .stopped <;> simp [hq] at hs
  | _ => simp at hs

/-- Liveness in its "every maximal run" form: every run that cannot be extended (no thread has a step
    left — which, by `terminates`, every run reaches after finitely many steps under any scheduler that
    keeps scheduling enabled threads) of a never stopped inbox has delivered everything that was
    accepted, with no further send needed. -/
theorem maximal_run_delivers_all (B : Nat) (hB : 1 ≤ B) (senders : List (List Msg)) (nStop : Nat) (sched : List Nat)
    (hmax : ∀ t, step B (runSched B (init senders nStop) sched) t = none)
    (hn : (runSched B (init senders nStop) sched).everStopped = false) :
    (runSched B (init senders nStop) sched).q = [] ∧
    (runSched B (init senders nStop) sched).delivered = (runSched B (init senders nStop) sched).pushed.map (·.2) := by
  have hq := stuck_is_quiescent B _ hmax
  have h := quiescent_all_delivered B hB senders nStop _ ⟨sched, rfl⟩ hq hn
  exact ⟨h.2.2.1, h.2.2.2⟩

end HW.Inbox
