/-
Basic facts about the process model: field-wise simp lemmas for the non-recursive primitives,
`no_escape`, one-level unfoldings of the mutual functions, a generic induction principle
(`proc_ind`) and a structural specification of `invokeLoop` (`LoopSpec`).
-/
import HW.Model.Proc
import HW.Spec.Lifecycle
namespace HW.Proc

/-! ### emit -/

@[simp] theorem emit_trace (s : PSt) (e : Ev) : (emit s e).trace = s.trace ++ [e] := rfl
@[simp] theorem emit_inc (s : PSt) (e : Ev) : (emit s e).inc = s.inc := rfl
@[simp] theorem emit_mbuffer (s : PSt) (e : Ev) : (emit s e).mbuffer = s.mbuffer := rfl
@[simp] theorem emit_script (s : PSt) (e : Ev) : (emit s e).script = s.script := rfl
@[simp] theorem emit_stopped (s : PSt) (e : Ev) : (emit s e).stopped = s.stopped := rfl
@[simp] theorem emit_fuelOut (s : PSt) (e : Ev) : (emit s e).fuelOut = s.fuelOut := rfl
@[simp] theorem emit_inboxOpen (s : PSt) (e : Ev) : (emit s e).inboxOpen = s.inboxOpen := rfl
@[simp] theorem emit_registered (s : PSt) (e : Ev) : (emit s e).registered = s.registered := rfl
@[simp] theorem emit_restarts (s : PSt) (e : Ev) : (emit s e).restarts = s.restarts := rfl
@[simp] theorem emit_maxRestarts (s : PSt) (e : Ev) : (emit s e).maxRestarts = s.maxRestarts := rfl
@[simp] theorem emit_mwLen (s : PSt) (e : Ev) : (emit s e).mwLen = s.mwLen := rfl

/-! ### callRecv -/

/-- the state after a delivery, up to the script. -/
theorem callRecv_fst (s : PSt) (m : LMsg) :
    (callRecv s m).1 = { s with trace := s.trace ++ [.recv s.inc m s.mwLen s.registered],
                                script := (callRecv s m).1.script } := by
  unfold callRecv nextOutcome emit
  cases m <;> simp <;> (cases h : s.script <;> simp) <;> (rename_i o _; cases o <;> simp)

@[simp] theorem callRecv_trace (s : PSt) (m : LMsg) :
    (callRecv s m).1.trace = s.trace ++ [.recv s.inc m s.mwLen s.registered] := by
  rw [callRecv_fst]
@[simp] theorem callRecv_inc (s : PSt) (m : LMsg) : (callRecv s m).1.inc = s.inc := by
  rw [callRecv_fst]
@[simp] theorem callRecv_mbuffer (s : PSt) (m : LMsg) : (callRecv s m).1.mbuffer = s.mbuffer := by
  rw [callRecv_fst]
@[simp] theorem callRecv_stopped (s : PSt) (m : LMsg) : (callRecv s m).1.stopped = s.stopped := by
  rw [callRecv_fst]
@[simp] theorem callRecv_fuelOut (s : PSt) (m : LMsg) : (callRecv s m).1.fuelOut = s.fuelOut := by
  rw [callRecv_fst]
@[simp] theorem callRecv_inboxOpen (s : PSt) (m : LMsg) : (callRecv s m).1.inboxOpen = s.inboxOpen := by
  rw [callRecv_fst]
@[simp] theorem callRecv_registered (s : PSt) (m : LMsg) : (callRecv s m).1.registered = s.registered := by
  rw [callRecv_fst]
@[simp] theorem callRecv_restarts (s : PSt) (m : LMsg) : (callRecv s m).1.restarts = s.restarts := by
  rw [callRecv_fst]
@[simp] theorem callRecv_maxRestarts (s : PSt) (m : LMsg) : (callRecv s m).1.maxRestarts = s.maxRestarts := by
  rw [callRecv_fst]
@[simp] theorem callRecv_mwLen (s : PSt) (m : LMsg) : (callRecv s m).1.mwLen = s.mwLen := by
  rw [callRecv_fst]

theorem callRecv_script_le (s : PSt) (m : LMsg) :
    (callRecv s m).1.script.length ≤ s.script.length := by
  unfold callRecv nextOutcome emit
  cases m <;> simp <;> (cases h : s.script <;> simp) <;> (rename_i o _; cases o <;> simp)

theorem callRecv_script_lt (s : PSt) (m : LMsg) (v : Pv) (h : (callRecv s m).2 = some v) :
    (callRecv s m).1.script.length < s.script.length := by
  revert h
  unfold callRecv nextOutcome emit
  cases m <;> simp <;> (cases h : s.script <;> simp) <;> (rename_i o _; cases o <;> simp)

@[simp] theorem callRecv_stopped_script (s : PSt) : (callRecv s .stopped).1.script = s.script := rfl
@[simp] theorem callRecv_stopped_snd (s : PSt) : (callRecv s .stopped).2 = none := rfl

/-! ### cleanup, inboxStart -/

def cleanupEvs (s : PSt) (c : Option Nat) : List Ev :=
  [.inboxStop, .unregister, .recv s.inc .stopped s.mwLen false, .ev .stopped] ++
    (match c with | none => [] | some id => [.cancel id])

theorem cleanup_eq (s : PSt) (c : Option Nat) :
    cleanup s c = { s with stopped := true, inboxOpen := false, registered := false,
                           trace := s.trace ++ cleanupEvs s c } := by
  cases c <;> simp [cleanup, cleanupEvs, callRecv, emit]

@[simp] theorem cleanup_trace (s : PSt) (c : Option Nat) :
    (cleanup s c).trace = s.trace ++ cleanupEvs s c := by rw [cleanup_eq]
@[simp] theorem cleanup_inc (s : PSt) (c : Option Nat) : (cleanup s c).inc = s.inc := by rw [cleanup_eq]
@[simp] theorem cleanup_mbuffer (s : PSt) (c : Option Nat) : (cleanup s c).mbuffer = s.mbuffer := by rw [cleanup_eq]
@[simp] theorem cleanup_script (s : PSt) (c : Option Nat) : (cleanup s c).script = s.script := by rw [cleanup_eq]
@[simp] theorem cleanup_stopped (s : PSt) (c : Option Nat) : (cleanup s c).stopped = true := by rw [cleanup_eq]
@[simp] theorem cleanup_fuelOut (s : PSt) (c : Option Nat) : (cleanup s c).fuelOut = s.fuelOut := by rw [cleanup_eq]
@[simp] theorem cleanup_inboxOpen (s : PSt) (c : Option Nat) : (cleanup s c).inboxOpen = false := by rw [cleanup_eq]
@[simp] theorem cleanup_registered (s : PSt) (c : Option Nat) : (cleanup s c).registered = false := by rw [cleanup_eq]
@[simp] theorem cleanup_restarts (s : PSt) (c : Option Nat) : (cleanup s c).restarts = s.restarts := by rw [cleanup_eq]
@[simp] theorem cleanup_maxRestarts (s : PSt) (c : Option Nat) : (cleanup s c).maxRestarts = s.maxRestarts := by rw [cleanup_eq]
@[simp] theorem cleanup_mwLen (s : PSt) (c : Option Nat) : (cleanup s c).mwLen = s.mwLen := by rw [cleanup_eq]

theorem inboxStart_eq (s : PSt) :
    inboxStart s = { s with inboxOpen := true, trace := s.trace ++ [.inboxStart (!s.inboxOpen)] } := by
  unfold inboxStart emit
  cases h : s.inboxOpen <;> simp

@[simp] theorem inboxStart_trace (s : PSt) :
    (inboxStart s).trace = s.trace ++ [.inboxStart (!s.inboxOpen)] := by rw [inboxStart_eq]
@[simp] theorem inboxStart_inc (s : PSt) : (inboxStart s).inc = s.inc := by rw [inboxStart_eq]
@[simp] theorem inboxStart_mbuffer (s : PSt) : (inboxStart s).mbuffer = s.mbuffer := by rw [inboxStart_eq]
@[simp] theorem inboxStart_script (s : PSt) : (inboxStart s).script = s.script := by rw [inboxStart_eq]
@[simp] theorem inboxStart_stopped (s : PSt) : (inboxStart s).stopped = s.stopped := by rw [inboxStart_eq]
@[simp] theorem inboxStart_fuelOut (s : PSt) : (inboxStart s).fuelOut = s.fuelOut := by rw [inboxStart_eq]
@[simp] theorem inboxStart_inboxOpen (s : PSt) : (inboxStart s).inboxOpen = true := by rw [inboxStart_eq]
@[simp] theorem inboxStart_registered (s : PSt) : (inboxStart s).registered = s.registered := by rw [inboxStart_eq]
@[simp] theorem inboxStart_restarts (s : PSt) : (inboxStart s).restarts = s.restarts := by rw [inboxStart_eq]
@[simp] theorem inboxStart_maxRestarts (s : PSt) : (inboxStart s).maxRestarts = s.maxRestarts := by rw [inboxStart_eq]
@[simp] theorem inboxStart_mwLen (s : PSt) : (inboxStart s).mwLen = s.mwLen := by rw [inboxStart_eq]

/-! ### the straight-line pieces of `start` and `tryRestart` -/

/-- `start` up to the Initialized delivery. -/
def stA (s : PSt) : PSt := emit { s with inc := s.inc + 1 } (.producer (s.inc + 1))
/-- `start` up to the Started delivery. -/
def stB (s : PSt) : PSt := emit (callRecv (stA s) .initialized).1 (.ev .initialized)
/-- `start` up to the replay of the buffer. -/
def stC (s : PSt) : PSt := emit (callRecv (stB s) .started).1 (.ev .started)
/-- the end of `start`. -/
def stEnd (s : PSt) : PSt := if s.stopped then s else inboxStart s
/-- `tryRestart` with an internal error, up to the call of `start`. -/
def trA (s : PSt) : PSt := (callRecv s .stopped).1
/-- `tryRestart` with a user panic within the budget, up to the call of `start`. -/
def trB (s : PSt) : PSt :=
  emit { (callRecv s .stopped).1 with restarts := s.restarts + 1 } (.ev (.restarted (s.restarts + 1)))

def stAEvs (s : PSt) : List Ev := [.producer (s.inc + 1)]
def stBEvs (s : PSt) : List Ev :=
  [.producer (s.inc + 1), .recv (s.inc + 1) .initialized s.mwLen s.registered, .ev .initialized]
def stCEvs (s : PSt) : List Ev :=
  [.producer (s.inc + 1), .recv (s.inc + 1) .initialized s.mwLen s.registered, .ev .initialized,
   .recv (s.inc + 1) .started s.mwLen s.registered, .ev .started]

@[simp] theorem stA_trace (s : PSt) : (stA s).trace = s.trace ++ stAEvs s := rfl
@[simp] theorem stA_inc (s : PSt) : (stA s).inc = s.inc + 1 := rfl
@[simp] theorem stA_mbuffer (s : PSt) : (stA s).mbuffer = s.mbuffer := rfl
@[simp] theorem stA_script (s : PSt) : (stA s).script = s.script := rfl
@[simp] theorem stA_stopped (s : PSt) : (stA s).stopped = s.stopped := rfl
@[simp] theorem stA_fuelOut (s : PSt) : (stA s).fuelOut = s.fuelOut := rfl
@[simp] theorem stA_inboxOpen (s : PSt) : (stA s).inboxOpen = s.inboxOpen := rfl
@[simp] theorem stA_registered (s : PSt) : (stA s).registered = s.registered := rfl
@[simp] theorem stA_restarts (s : PSt) : (stA s).restarts = s.restarts := rfl
@[simp] theorem stA_maxRestarts (s : PSt) : (stA s).maxRestarts = s.maxRestarts := rfl
@[simp] theorem stA_mwLen (s : PSt) : (stA s).mwLen = s.mwLen := rfl

@[simp] theorem stB_trace (s : PSt) : (stB s).trace = s.trace ++ stBEvs s := by
  simp [stB, stBEvs, stAEvs]
@[simp] theorem stB_inc (s : PSt) : (stB s).inc = s.inc + 1 := by simp [stB]
@[simp] theorem stB_mbuffer (s : PSt) : (stB s).mbuffer = s.mbuffer := by simp [stB]
@[simp] theorem stB_stopped (s : PSt) : (stB s).stopped = s.stopped := by simp [stB]
@[simp] theorem stB_fuelOut (s : PSt) : (stB s).fuelOut = s.fuelOut := by simp [stB]
@[simp] theorem stB_inboxOpen (s : PSt) : (stB s).inboxOpen = s.inboxOpen := by simp [stB]
@[simp] theorem stB_registered (s : PSt) : (stB s).registered = s.registered := by simp [stB]
@[simp] theorem stB_restarts (s : PSt) : (stB s).restarts = s.restarts := by simp [stB]
@[simp] theorem stB_maxRestarts (s : PSt) : (stB s).maxRestarts = s.maxRestarts := by simp [stB]
@[simp] theorem stB_mwLen (s : PSt) : (stB s).mwLen = s.mwLen := by simp [stB]
theorem stB_script_le (s : PSt) : (stB s).script.length ≤ s.script.length := by
  simpa [stB] using callRecv_script_le (stA s) .initialized

@[simp] theorem stC_trace (s : PSt) : (stC s).trace = s.trace ++ stCEvs s := by
  simp [stC, stCEvs, stBEvs]
@[simp] theorem stC_inc (s : PSt) : (stC s).inc = s.inc + 1 := by simp [stC]
@[simp] theorem stC_mbuffer (s : PSt) : (stC s).mbuffer = s.mbuffer := by simp [stC]
@[simp] theorem stC_stopped (s : PSt) : (stC s).stopped = s.stopped := by simp [stC]
@[simp] theorem stC_fuelOut (s : PSt) : (stC s).fuelOut = s.fuelOut := by simp [stC]
@[simp] theorem stC_inboxOpen (s : PSt) : (stC s).inboxOpen = s.inboxOpen := by simp [stC]
@[simp] theorem stC_registered (s : PSt) : (stC s).registered = s.registered := by simp [stC]
@[simp] theorem stC_restarts (s : PSt) : (stC s).restarts = s.restarts := by simp [stC]
@[simp] theorem stC_maxRestarts (s : PSt) : (stC s).maxRestarts = s.maxRestarts := by simp [stC]
@[simp] theorem stC_mwLen (s : PSt) : (stC s).mwLen = s.mwLen := by simp [stC]
theorem stC_script_le (s : PSt) : (stC s).script.length ≤ s.script.length := by
  have := callRecv_script_le (stB s) .started
  have := stB_script_le s
  simp [stC]; omega

def stEndEvs (s : PSt) : List Ev := if s.stopped then [] else [.inboxStart (!s.inboxOpen)]

@[simp] theorem stEnd_trace (s : PSt) : (stEnd s).trace = s.trace ++ stEndEvs s := by
  unfold stEnd stEndEvs; split <;> simp
@[simp] theorem stEnd_inc (s : PSt) : (stEnd s).inc = s.inc := by unfold stEnd; split <;> simp
@[simp] theorem stEnd_mbuffer (s : PSt) : (stEnd s).mbuffer = s.mbuffer := by unfold stEnd; split <;> simp
@[simp] theorem stEnd_script (s : PSt) : (stEnd s).script = s.script := by unfold stEnd; split <;> simp
@[simp] theorem stEnd_stopped (s : PSt) : (stEnd s).stopped = s.stopped := by unfold stEnd; split <;> simp
@[simp] theorem stEnd_fuelOut (s : PSt) : (stEnd s).fuelOut = s.fuelOut := by unfold stEnd; split <;> simp
theorem stEnd_inboxOpen (s : PSt) : (stEnd s).inboxOpen = (s.inboxOpen || !s.stopped) := by
  unfold stEnd; cases h : s.stopped <;> simp

def trBEvs (s : PSt) : List Ev :=
  [.recv s.inc .stopped s.mwLen s.registered, .ev (.restarted (s.restarts + 1))]

@[simp] theorem trA_trace (s : PSt) :
    (trA s).trace = s.trace ++ [.recv s.inc .stopped s.mwLen s.registered] := by simp [trA]
@[simp] theorem trA_inc (s : PSt) : (trA s).inc = s.inc := by simp [trA]
@[simp] theorem trA_mbuffer (s : PSt) : (trA s).mbuffer = s.mbuffer := by simp [trA]
@[simp] theorem trA_script (s : PSt) : (trA s).script = s.script := by simp [trA]
@[simp] theorem trA_stopped (s : PSt) : (trA s).stopped = s.stopped := by simp [trA]
@[simp] theorem trA_fuelOut (s : PSt) : (trA s).fuelOut = s.fuelOut := by simp [trA]
@[simp] theorem trA_inboxOpen (s : PSt) : (trA s).inboxOpen = s.inboxOpen := by simp [trA]

@[simp] theorem trB_trace (s : PSt) : (trB s).trace = s.trace ++ trBEvs s := by simp [trB, trBEvs]
@[simp] theorem trB_inc (s : PSt) : (trB s).inc = s.inc := by simp [trB]
@[simp] theorem trB_mbuffer (s : PSt) : (trB s).mbuffer = s.mbuffer := by simp [trB]
@[simp] theorem trB_script (s : PSt) : (trB s).script = s.script := by simp [trB]
@[simp] theorem trB_stopped (s : PSt) : (trB s).stopped = s.stopped := by simp [trB]
@[simp] theorem trB_fuelOut (s : PSt) : (trB s).fuelOut = s.fuelOut := by simp [trB]
@[simp] theorem trB_inboxOpen (s : PSt) : (trB s).inboxOpen = s.inboxOpen := by simp [trB]

/-! ### no panic escapes -/

theorem ite_pair_snd {α β : Type} (c : Prop) [Decidable c] (a b : α) (y : β) :
    (if c then (a, y) else (b, y)).2 = y := by split <;> rfl

theorem no_escape (f : Nat) : ∀ s : PSt,
    (start f s).2 = none ∧ (∀ msgs, (invoke f s msgs).2 = none) ∧ (∀ v, (tryRestart f s v).2 = none) := by
  induction f with
  | zero => intro s; simp [start, invoke, tryRestart]
  | succ f ih =>
    intro s
    refine ⟨?_, ?_, ?_⟩
    · rw [start]
      simp only []
      split
      · exact (ih _).2.2 _
      · split
        · exact (ih _).2.2 _
        · split
          · exact (ih _).2.2 _
          · exact ite_pair_snd _ _ _ _
    · intro msgs
      rw [invoke]
      split
      · rfl
      · exact (ih _).2.2 _
    · intro v
      cases v
      · rw [tryRestart]
        split
        · rfl
        · exact (ih _).1
      · rw [tryRestart]
        exact (ih _).1

theorem ite_pair_fst {α β : Type} (c : Prop) [Decidable c] (a b : α) (y : β) :
    (if c then (a, y) else (b, y)).1 = if c then a else b := by split <;> rfl

/-! ### one-level unfoldings -/

theorem start_succ_fst (f : Nat) (s : PSt) :
    (start (f + 1) s).1 =
      match (callRecv (stA s) .initialized).2 with
      | some v => (tryRestart f (callRecv (stA s) .initialized).1 v).1
      | none =>
        match (callRecv (stB s) .started).2 with
        | some v => (tryRestart f (callRecv (stB s) .started).1 v).1
        | none =>
          if s.mbuffer = [] then stEnd (stC s)
          else stEnd { (invoke f (stC s) s.mbuffer).1 with mbuffer := [] } := by
  rw [start]
  simp only []
  split
  · rename_i s2 v h
    have h' : callRecv (stA s) .initialized = (s2, some v) := h
    rw [h']
  · rename_i s2 h
    have h' : callRecv (stA s) .initialized = (s2, none) := h
    have hB : emit s2 (.ev .initialized) = stB s := by simp [stB, h']
    rw [h']; simp only []
    rw [hB]
    split
    · rename_i s4 v h4
      rw [h4]
    · rename_i s4 h4
      have hC : emit s4 (.ev .started) = stC s := by simp [stC, h4]
      rw [h4]; simp only []
      rw [hC]
      have hm : (stC s).mbuffer = s.mbuffer := stC_mbuffer s
      rw [hm]
      by_cases hb : s.mbuffer = []
      · simp only [hb, if_true]
        exact ite_pair_fst _ _ _ _
      · simp only [hb, if_false]
        have hn := (no_escape f (stC s)).2.1 s.mbuffer
        generalize invoke f (stC s) s.mbuffer = r at hn ⊢
        obtain ⟨r1, r2⟩ := r
        simp only at hn
        subst hn
        exact ite_pair_fst _ _ _ _

theorem invoke_succ_fst (f : Nat) (s : PSt) (msgs : List Msg) :
    (invoke (f + 1) s msgs).1 =
      match invokeLoop s msgs with
      | (s', .finished) => s'
      | (s', .panicked v buf) => (tryRestart f { s' with mbuffer := buf } v).1 := by
  rw [invoke]; split <;> simp_all

theorem tryRestart_succ_ierr_fst (f : Nat) (s : PSt) :
    (tryRestart (f + 1) s .ierr).1 = (start f (trA s)).1 := by
  rw [tryRestart]; rfl

theorem tryRestart_succ_user_fst (f : Nat) (s : PSt) :
    (tryRestart (f + 1) s .user).1 =
      if s.restarts = s.maxRestarts then cleanup (emit s (.ev .maxRestarts)) none
      else (start f (trB s)).1 := by
  rw [tryRestart]; split <;> rfl

/-! ### generic induction principle over the three mutual functions -/

theorem proc_ind
    {S : Nat → PSt → PSt → Prop} {I : Nat → PSt → List Msg → PSt → Prop}
    {T : Nat → PSt → Pv → PSt → Prop}
    (hS0 : ∀ s, S 0 s { s with fuelOut := true })
    (hI0 : ∀ s msgs, I 0 s msgs { s with fuelOut := true })
    (hT0 : ∀ s v, T 0 s v { s with fuelOut := true })
    (hS1 : ∀ f s v r, (callRecv (stA s) .initialized).2 = some v →
      T f (callRecv (stA s) .initialized).1 v r → S (f + 1) s r)
    (hS2 : ∀ f s v r, (callRecv (stA s) .initialized).2 = none →
      (callRecv (stB s) .started).2 = some v →
      T f (callRecv (stB s) .started).1 v r → S (f + 1) s r)
    (hS3 : ∀ f s, (callRecv (stA s) .initialized).2 = none →
      (callRecv (stB s) .started).2 = none → s.mbuffer = [] → S (f + 1) s (stEnd (stC s)))
    (hS4 : ∀ f s r, (callRecv (stA s) .initialized).2 = none →
      (callRecv (stB s) .started).2 = none → s.mbuffer ≠ [] →
      I f (stC s) s.mbuffer r → S (f + 1) s (stEnd { r with mbuffer := [] }))
    (hI1 : ∀ f s msgs s', invokeLoop s msgs = (s', .finished) → I (f + 1) s msgs s')
    (hI2 : ∀ f s msgs s' v buf r, invokeLoop s msgs = (s', .panicked v buf) →
      T f { s' with mbuffer := buf } v r → I (f + 1) s msgs r)
    (hT1 : ∀ f s r, S f (trA s) r → T (f + 1) s .ierr r)
    (hT2 : ∀ f s, s.restarts = s.maxRestarts →
      T (f + 1) s .user (cleanup (emit s (.ev .maxRestarts)) none))
    (hT3 : ∀ f s r, s.restarts ≠ s.maxRestarts → S f (trB s) r → T (f + 1) s .user r) :
    ∀ f s, S f s (start f s).1 ∧ (∀ msgs, I f s msgs (invoke f s msgs).1) ∧
      (∀ v, T f s v (tryRestart f s v).1) := by
  intro f
  induction f with
  | zero =>
    intro s
    refine ⟨?_, ?_, ?_⟩
    · rw [start]; exact hS0 s
    · intro msgs; rw [invoke]; exact hI0 s msgs
    · intro v; rw [tryRestart]; exact hT0 s v
  | succ f ih =>
    intro s
    refine ⟨?_, ?_, ?_⟩
    · rw [start_succ_fst]
      split
      · rename_i v h; exact hS1 f s v _ h ((ih _).2.2 v)
      · rename_i h1
        split
        · rename_i v h; exact hS2 f s v _ h1 h ((ih _).2.2 v)
        · rename_i h2
          split
          · rename_i hb; exact hS3 f s h1 h2 hb
          · rename_i hb; exact hS4 f s _ h1 h2 hb ((ih _).2.1 _)
    · intro msgs
      rw [invoke_succ_fst]
      split
      · rename_i s' h; exact hI1 f s msgs s' h
      · rename_i s' v buf h; exact hI2 f s msgs s' v buf _ h ((ih _).2.2 v)
    · intro v
      cases v
      · rw [tryRestart_succ_user_fst]
        split
        · rename_i h; exact hT2 f s h
        · rename_i h; exact hT3 f s _ h (ih _).1
      · rw [tryRestart_succ_ierr_fst]; exact hT1 f s _ (ih _).1

/-! ### observers distribute over append -/

@[simp] theorem usersOf_nil : usersOf [] = [] := rfl
@[simp] theorem usersOf_user (k : Nat) (snd : Option Nat) (ms : List Msg) :
    usersOf (.user k snd :: ms) = (k, snd) :: usersOf ms := rfl
@[simp] theorem usersOf_pill (i : Nat) (g : Bool) (ms : List Msg) :
    usersOf (.pill i g :: ms) = usersOf ms := rfl
@[simp] theorem usersOf_append (a b : List Msg) : usersOf (a ++ b) = usersOf a ++ usersOf b := by
  induction a with
  | nil => rfl
  | cons m a ih => cases m <;> simp [ih]

@[simp] theorem pillsOf_nil : pillsOf [] = [] := rfl
@[simp] theorem pillsOf_user (k : Nat) (snd : Option Nat) (ms : List Msg) :
    pillsOf (.user k snd :: ms) = pillsOf ms := rfl
@[simp] theorem pillsOf_pill (i : Nat) (g : Bool) (ms : List Msg) :
    pillsOf (.pill i g :: ms) = (i, g) :: pillsOf ms := rfl
@[simp] theorem pillsOf_append (a b : List Msg) : pillsOf (a ++ b) = pillsOf a ++ pillsOf b := by
  induction a with
  | nil => rfl
  | cons m a ih => cases m <;> simp [ih]

@[simp] theorem userRecvs_nil : userRecvs [] = [] := rfl
@[simp] theorem userRecvs_append (a b : List Ev) : userRecvs (a ++ b) = userRecvs a ++ userRecvs b := by
  induction a with
  | nil => rfl
  | cons e a ih =>
    cases e with
    | recv inc m mw reg => cases m <;> simp [userRecvs, ih]
    | _ => simp [userRecvs, ih]

@[simp] theorem cancelsOf_nil : cancelsOf [] = [] := rfl
@[simp] theorem cancelsOf_append (a b : List Ev) : cancelsOf (a ++ b) = cancelsOf a ++ cancelsOf b := by
  induction a with
  | nil => rfl
  | cons e a ih => cases e <;> simp [cancelsOf, ih]

/-! ### user deliveries as a state update -/

/-- the events of delivering the user messages `D` in state `s`. -/
def recvEvs (s : PSt) (D : List (Nat × Option Nat)) : List Ev :=
  D.map fun u => Ev.recv s.inc (.user u.1 u.2) s.mwLen s.registered

/-- `s` after delivering `D`, the script being `scr` afterwards. -/
def upd (s : PSt) (D : List (Nat × Option Nat)) (scr : List Outcome) : PSt :=
  { s with trace := s.trace ++ recvEvs s D, script := scr }

@[simp] theorem recvEvs_nil (s : PSt) : recvEvs s [] = [] := rfl
theorem recvEvs_append (s : PSt) (a b) : recvEvs s (a ++ b) = recvEvs s a ++ recvEvs s b := by
  simp [recvEvs]
@[simp] theorem userRecvs_recvEvs (s : PSt) (D) : userRecvs (recvEvs s D) = D := by
  induction D with
  | nil => rfl
  | cons u D ih => simpa [recvEvs, userRecvs] using ih
@[simp] theorem cancelsOf_recvEvs (s : PSt) (D) : cancelsOf (recvEvs s D) = [] := by
  induction D with
  | nil => rfl
  | cons u D ih => simpa [recvEvs, cancelsOf] using ih

@[simp] theorem upd_trace (s : PSt) (D scr) : (upd s D scr).trace = s.trace ++ recvEvs s D := rfl
@[simp] theorem upd_script (s : PSt) (D scr) : (upd s D scr).script = scr := rfl
@[simp] theorem upd_inc (s : PSt) (D scr) : (upd s D scr).inc = s.inc := rfl
@[simp] theorem upd_mbuffer (s : PSt) (D scr) : (upd s D scr).mbuffer = s.mbuffer := rfl
@[simp] theorem upd_stopped (s : PSt) (D scr) : (upd s D scr).stopped = s.stopped := rfl
@[simp] theorem upd_fuelOut (s : PSt) (D scr) : (upd s D scr).fuelOut = s.fuelOut := rfl
@[simp] theorem upd_inboxOpen (s : PSt) (D scr) : (upd s D scr).inboxOpen = s.inboxOpen := rfl
@[simp] theorem upd_registered (s : PSt) (D scr) : (upd s D scr).registered = s.registered := rfl
@[simp] theorem upd_restarts (s : PSt) (D scr) : (upd s D scr).restarts = s.restarts := rfl
@[simp] theorem upd_maxRestarts (s : PSt) (D scr) : (upd s D scr).maxRestarts = s.maxRestarts := rfl
@[simp] theorem upd_mwLen (s : PSt) (D scr) : (upd s D scr).mwLen = s.mwLen := rfl

theorem upd_nil (s : PSt) : upd s [] s.script = s := by simp [upd]
theorem upd_upd (s : PSt) (D D' scr scr') : upd (upd s D scr) D' scr' = upd s (D ++ D') scr' := by
  simp [upd, recvEvs]

theorem callRecv_user_fst (s : PSt) (k : Nat) (snd : Option Nat) :
    (callRecv s (.user k snd)).1 = upd s [(k, snd)] (callRecv s (.user k snd)).1.script := by
  rw [callRecv_fst]; simp [upd, recvEvs]

/-! ### structural specification of `drain` and `invokeLoop` -/

theorem drain_pill (s : PSt) (p : Msg) (i : Nat) (g : Bool) (rest : List Msg) :
    drain s p (.pill i g :: rest) = drain s p rest := rfl

theorem drain_user_none (s : PSt) (p : Msg) (k snd) (rest : List Msg)
    (h : (callRecv s (.user k snd)).2 = none) :
    drain s p (.user k snd :: rest) = drain (callRecv s (.user k snd)).1 p rest := by
  rw [drain, invokeMsg]; split <;> simp_all

theorem drain_user_some (s : PSt) (p : Msg) (k snd) (rest : List Msg) (v : Pv)
    (h : (callRecv s (.user k snd)).2 = some v) :
    drain s p (.user k snd :: rest) = ((callRecv s (.user k snd)).1, some (v, rest ++ [p])) := by
  rw [drain, invokeMsg]; split <;> simp_all

inductive DrainSpec (s : PSt) (p : Msg) (msgs : List Msg) : PSt → Option (Pv × List Msg) → Prop
  | done (scr : List Outcome) (hs : scr.length ≤ s.script.length) :
      DrainSpec s p msgs (upd s (usersOf msgs) scr) none
  | pan (post : List Msg) (k : Nat) (snd : Option Nat) (rest : List Msg) (scr : List Outcome) (v : Pv)
      (hm : msgs = post ++ .user k snd :: rest) (hs : scr.length < s.script.length) :
      DrainSpec s p msgs (upd s (usersOf post ++ [(k, snd)]) scr) (some (v, rest ++ [p]))

theorem drain_spec (p : Msg) (msgs : List Msg) : ∀ (s s' : PSt) (o : Option (Pv × List Msg)),
    drain s p msgs = (s', o) → DrainSpec s p msgs s' o := by
  induction msgs with
  | nil =>
    intro s s' o h
    simp [drain] at h
    obtain ⟨rfl, rfl⟩ := h
    have := DrainSpec.done (s := s) (p := p) (msgs := []) s.script (Nat.le_refl _)
    simpa [upd_nil] using this
  | cons m rest ih =>
    intro s s' o h
    cases m with
    | pill i g =>
      rw [drain_pill] at h
      cases ih s s' o h with
      | done scr hs => exact DrainSpec.done scr hs
      | pan post k snd rest' scr v hm hs =>
        have := DrainSpec.pan (s := s) (p := p) (msgs := .pill i g :: rest) (.pill i g :: post) k snd rest' scr v
          (by simp [hm]) hs
        simpa using this
    | user k snd =>
      cases hc : (callRecv s (.user k snd)).2 with
      | some v =>
        rw [drain_user_some s p k snd rest v hc] at h
        simp only [Prod.mk.injEq] at h
        obtain ⟨rfl, rfl⟩ := h
        have := DrainSpec.pan (s := s) (p := p) (msgs := .user k snd :: rest) [] k snd rest
          (callRecv s (.user k snd)).1.script v rfl (callRecv_script_lt _ _ v hc)
        rw [callRecv_user_fst]
        simpa using this
      | none =>
        rw [drain_user_none s p k snd rest hc] at h
        have hle := callRecv_script_le s (.user k snd)
        have ih' := ih _ s' o h
        rw [callRecv_user_fst] at ih'
        cases ih' with
        | done scr hs =>
          rw [upd_upd]
          exact DrainSpec.done scr (Nat.le_trans hs hle)
        | pan post k' snd' rest' scr v hm hs =>
          rw [upd_upd]
          have := DrainSpec.pan (s := s) (p := p) (msgs := .user k snd :: rest) (.user k snd :: post)
            k' snd' rest' scr v (by simp [hm]) (Nat.lt_of_lt_of_le hs hle)
          simpa using this

theorem invokeLoop_pill_ng (s : PSt) (i : Nat) (rest : List Msg) :
    invokeLoop s (.pill i false :: rest) = (cleanup s (some i), .finished) := by
  simp [invokeLoop]

theorem invokeLoop_pill_g (s : PSt) (i : Nat) (rest : List Msg) :
    invokeLoop s (.pill i true :: rest) =
      match drain s (.pill i true) rest with
      | (s', some (v, buf)) => (s', .panicked v buf)
      | (s', none) => (cleanup s' (some i), .finished) := by
  rw [invokeLoop]; simp only [if_true]; rfl

theorem invokeLoop_user_none (s : PSt) (k snd) (rest : List Msg)
    (h : (callRecv s (.user k snd)).2 = none) :
    invokeLoop s (.user k snd :: rest) = invokeLoop (callRecv s (.user k snd)).1 rest := by
  rw [invokeLoop]; split <;> simp_all

theorem invokeLoop_user_some (s : PSt) (k snd) (rest : List Msg) (v : Pv)
    (h : (callRecv s (.user k snd)).2 = some v) :
    invokeLoop s (.user k snd :: rest) = ((callRecv s (.user k snd)).1, .panicked v rest) := by
  rw [invokeLoop]; split <;> simp_all

inductive LoopSpec (s : PSt) (msgs : List Msg) : PSt → Loop → Prop
  | fin_nopill (scr : List Outcome) (hp : pillsOf msgs = []) (hs : scr.length ≤ s.script.length) :
      LoopSpec s msgs (upd s (usersOf msgs) scr) .finished
  | fin_pill (pre : List Msg) (id : Nat) (g : Bool) (post : List Msg) (scr : List Outcome)
      (hm : msgs = pre ++ .pill id g :: post) (hp : pillsOf pre = [])
      (hs : scr.length ≤ s.script.length) :
      LoopSpec s msgs
        (cleanup (upd s (usersOf pre ++ if g then usersOf post else []) scr) (some id)) .finished
  | pan_user (pre : List Msg) (k : Nat) (snd : Option Nat) (buf : List Msg) (scr : List Outcome)
      (v : Pv) (hm : msgs = pre ++ .user k snd :: buf) (hp : pillsOf pre = [])
      (hs : scr.length < s.script.length) :
      LoopSpec s msgs (upd s (usersOf pre ++ [(k, snd)]) scr) (.panicked v buf)
  | pan_drain (pre : List Msg) (id : Nat) (post : List Msg) (k : Nat) (snd : Option Nat)
      (rest : List Msg) (scr : List Outcome) (v : Pv)
      (hm : msgs = pre ++ .pill id true :: (post ++ .user k snd :: rest)) (hp : pillsOf pre = [])
      (hs : scr.length < s.script.length) :
      LoopSpec s msgs (upd s (usersOf pre ++ (usersOf post ++ [(k, snd)])) scr)
        (.panicked v (rest ++ [.pill id true]))

theorem invokeLoop_spec (msgs : List Msg) : ∀ (s s' : PSt) (o : Loop),
    invokeLoop s msgs = (s', o) → LoopSpec s msgs s' o := by
  induction msgs with
  | nil =>
    intro s s' o h
    simp [invokeLoop] at h
    obtain ⟨rfl, rfl⟩ := h
    have := LoopSpec.fin_nopill (s := s) (msgs := []) s.script rfl (Nat.le_refl _)
    simpa [upd_nil] using this
  | cons m rest ih =>
    intro s s' o h
    cases m with
    | pill i g =>
      cases g with
      | false =>
        rw [invokeLoop_pill_ng] at h
        simp only [Prod.mk.injEq] at h
        obtain ⟨rfl, rfl⟩ := h
        have := LoopSpec.fin_pill (s := s) (msgs := .pill i false :: rest) [] i false rest s.script
          rfl rfl (Nat.le_refl _)
        simpa [upd_nil] using this
      | true =>
        rw [invokeLoop_pill_g] at h
        have hd := drain_spec (.pill i true) rest s (drain s (.pill i true) rest).1
          (drain s (.pill i true) rest).2 rfl
        generalize drain s (.pill i true) rest = d at h hd
        obtain ⟨d1, d2⟩ := d
        cases hd with
        | done scr hs =>
          simp only [Prod.mk.injEq] at h
          obtain ⟨rfl, rfl⟩ := h
          have := LoopSpec.fin_pill (s := s) (msgs := .pill i true :: rest) [] i true rest scr
            rfl rfl hs
          simp at this
          exact this
        | pan post k snd rest' scr v hm hs =>
          simp only [Prod.mk.injEq] at h
          obtain ⟨rfl, rfl⟩ := h
          have := LoopSpec.pan_drain (s := s) (msgs := .pill i true :: rest) [] i post k snd rest' scr v
            (by simp [hm]) rfl hs
          simp at this
          exact this
    | user k snd =>
      cases hc : (callRecv s (.user k snd)).2 with
      | some v =>
        rw [invokeLoop_user_some s k snd rest v hc] at h
        simp only [Prod.mk.injEq] at h
        obtain ⟨rfl, rfl⟩ := h
        have := LoopSpec.pan_user (s := s) (msgs := .user k snd :: rest) [] k snd rest
          (callRecv s (.user k snd)).1.script v rfl rfl (callRecv_script_lt _ _ v hc)
        rw [callRecv_user_fst]
        simpa using this
      | none =>
        rw [invokeLoop_user_none s k snd rest hc] at h
        have hle := callRecv_script_le s (.user k snd)
        have ih' := ih _ s' o h
        rw [callRecv_user_fst] at ih'
        cases ih' with
        | fin_nopill scr hp hs =>
          rw [upd_upd]
          exact LoopSpec.fin_nopill scr (by simpa using hp) (Nat.le_trans hs hle)
        | fin_pill pre id g post scr hm hp hs =>
          rw [upd_upd]
          have := LoopSpec.fin_pill (s := s) (msgs := .user k snd :: rest) (.user k snd :: pre)
            id g post scr (by simp [hm]) (by simpa using hp) (Nat.le_trans hs hle)
          simpa using this
        | pan_user pre k' snd' buf scr v hm hp hs =>
          rw [upd_upd]
          have := LoopSpec.pan_user (s := s) (msgs := .user k snd :: rest) (.user k snd :: pre)
            k' snd' buf scr v (by simp [hm]) (by simpa using hp) (Nat.lt_of_lt_of_le hs hle)
          simpa using this
        | pan_drain pre id post k' snd' rest' scr v hm hp hs =>
          rw [upd_upd]
          have := LoopSpec.pan_drain (s := s) (msgs := .user k snd :: rest) (.user k snd :: pre)
            id post k' snd' rest' scr v (by simp [hm]) (by simpa using hp) (Nat.lt_of_lt_of_le hs hle)
          simpa using this

/-- `proc_ind` with the delivery loop replaced by its four structural cases. -/
theorem proc_ind2
    {S : Nat → PSt → PSt → Prop} {I : Nat → PSt → List Msg → PSt → Prop}
    {T : Nat → PSt → Pv → PSt → Prop}
    (hS0 : ∀ s, S 0 s { s with fuelOut := true })
    (hI0 : ∀ s msgs, I 0 s msgs { s with fuelOut := true })
    (hT0 : ∀ s v, T 0 s v { s with fuelOut := true })
    (hS1 : ∀ f s v r, (callRecv (stA s) .initialized).2 = some v →
      T f (callRecv (stA s) .initialized).1 v r → S (f + 1) s r)
    (hS2 : ∀ f s v r, (callRecv (stA s) .initialized).2 = none →
      (callRecv (stB s) .started).2 = some v →
      T f (callRecv (stB s) .started).1 v r → S (f + 1) s r)
    (hS3 : ∀ f s, (callRecv (stA s) .initialized).2 = none →
      (callRecv (stB s) .started).2 = none → s.mbuffer = [] → S (f + 1) s (stEnd (stC s)))
    (hS4 : ∀ f s r, (callRecv (stA s) .initialized).2 = none →
      (callRecv (stB s) .started).2 = none → s.mbuffer ≠ [] →
      I f (stC s) s.mbuffer r → S (f + 1) s (stEnd { r with mbuffer := [] }))
    (hI1 : ∀ f s msgs scr, pillsOf msgs = [] → scr.length ≤ s.script.length →
      I (f + 1) s msgs (upd s (usersOf msgs) scr))
    (hI2 : ∀ f s pre id g post scr, pillsOf pre = [] → scr.length ≤ s.script.length →
      I (f + 1) s (pre ++ .pill id g :: post)
        (cleanup (upd s (usersOf pre ++ if g then usersOf post else []) scr) (some id)))
    (hI3 : ∀ f s pre k snd buf scr v r, pillsOf pre = [] → scr.length < s.script.length →
      T f { upd s (usersOf pre ++ [(k, snd)]) scr with mbuffer := buf } v r →
      I (f + 1) s (pre ++ .user k snd :: buf) r)
    (hI4 : ∀ f s pre id post k snd rest scr v r, pillsOf pre = [] → scr.length < s.script.length →
      T f { upd s (usersOf pre ++ (usersOf post ++ [(k, snd)])) scr with
            mbuffer := rest ++ [.pill id true] } v r →
      I (f + 1) s (pre ++ .pill id true :: (post ++ .user k snd :: rest)) r)
    (hT1 : ∀ f s r, S f (trA s) r → T (f + 1) s .ierr r)
    (hT2 : ∀ f s, s.restarts = s.maxRestarts →
      T (f + 1) s .user (cleanup (emit s (.ev .maxRestarts)) none))
    (hT3 : ∀ f s r, s.restarts ≠ s.maxRestarts → S f (trB s) r → T (f + 1) s .user r) :
    ∀ f s, S f s (start f s).1 ∧ (∀ msgs, I f s msgs (invoke f s msgs).1) ∧
      (∀ v, T f s v (tryRestart f s v).1) := by
  apply proc_ind hS0 hI0 hT0 hS1 hS2 hS3 hS4 _ _ hT1 hT2 hT3
  · intro f s msgs s' h
    cases invokeLoop_spec msgs s s' _ h with
    | fin_nopill scr hp hs => exact hI1 f s msgs scr hp hs
    | fin_pill pre id g post scr hm hp hs => subst hm; exact hI2 f s pre id g post scr hp hs
  · intro f s msgs s' v buf r h ht
    generalize hb : buf = buf' at h
    cases invokeLoop_spec msgs s s' _ h with
    | pan_user pre k snd buf scr v hm hp hs =>
      subst hm; subst hb; exact hI3 f s pre k snd _ scr v r hp hs ht
    | pan_drain pre id post k snd rest scr v hm hp hs =>
      subst hm; subst hb; exact hI4 f s pre id post k snd rest scr v r hp hs ht

end HW.Proc
