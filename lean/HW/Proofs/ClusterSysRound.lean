import HW.Proofs.ClusterSysLemmas
/-! A generic "broadcast round": `bcast` of one notification followed by `drain` in any order. -/
namespace HW.ClusterSys
open HW.Cluster

/-- same statement as `ViewOK` of `HW.Proofs.ClusterSys` (which imports this file). -/
def View (s : Sys) : Prop := ∀ n ∈ s.nodes, ∀ id, id ∈ ids n.agent.members ↔ ∃ m ∈ s.nodes, m.id = id

/-! ### the structural part of `Consistent` only depends on the (id, view) skeleton -/

def Struct (s : Sys) : Prop :=
  (s.nodes.map (·.id)).Nodup ∧ (∀ n ∈ s.nodes, idsNodup n.agent.members) ∧ View s

def StructSk (sk : List (String × List Member)) : Prop :=
  (sk.map (·.1)).Nodup ∧ (∀ p ∈ sk, idsNodup p.2) ∧ ∀ p ∈ sk, ∀ id, id ∈ ids p.2 ↔ id ∈ sk.map (·.1)

theorem struct_iff (s : Sys) : Struct s ↔ StructSk (skel s) := by
  unfold Struct StructSk View
  rw [skel_ids]
  have hex : ∀ id, (∃ m ∈ s.nodes, m.id = id) ↔ id ∈ s.nodes.map (·.id) := by
    intro id; simp [List.mem_map]
  constructor
  · rintro ⟨h1, h2, h3⟩
    refine ⟨h1, ?_, ?_⟩
    · intro p hp
      obtain ⟨n, hn, _, hm⟩ := mem_skel hp
      rw [← hm]; exact h2 n hn
    · intro p hp id
      obtain ⟨n, hn, _, hm⟩ := mem_skel hp
      rw [← hm, h3 n hn id, hex]
  · rintro ⟨h1, h2, h3⟩
    refine ⟨h1, ?_, ?_⟩
    · intro n hn; exact h2 _ (mem_skel_of_mem hn)
    · intro n hn id
      rw [hex]; exact h3 _ (mem_skel_of_mem hn) id

theorem struct_of_skel {s s' : Sys} (h : skel s' = skel s) (hs : Struct s) : Struct s' := by
  rw [struct_iff] at hs ⊢; rw [h]; exact hs

/-! ### a broadcast round, abstractly -/

/-- what handling `note` does to one agent: it applies `f`, which only touches key `k`. -/
structure Spec (note : Note) (k : String) (f : AgentSt → AgentSt) (Done OK : AgentSt → Prop) : Prop where
  handle : ∀ (s : Sys) (n : Node), ∃ n' : Node, n'.id = n.id ∧ n'.agent = f n.agent ∧
    (handleNote s n note).nodes = (setNode s n').nodes ∧ (handleNote s n note).pool = s.pool
  members : ∀ a, (f a).members = a.members
  other : ∀ a k', k' ≠ k → (f a).activated.find? (·.1 = k') = a.activated.find? (·.1 = k')
  keys : ∀ a, (∀ e ∈ a.activated, e.1 = e.2.2) → ∀ e ∈ (f a).activated, e.1 = e.2.2
  done : ∀ a, OK a → Done (f a) ∧ OK (f a)

/-- invariant of a round that does not mention who still has to be notified. -/
structure Base (note : Note) (k : String) (OK : AgentSt → Prop) (s : Sys) : Prop where
  struct : Struct s
  keys : ∀ n ∈ s.nodes, ∀ a ∈ n.agent.activated, a.1 = a.2.2
  agreeOther : ∀ n ∈ s.nodes, ∀ m ∈ s.nodes, ∀ k', k' ≠ k → getActiveByID n k' = getActiveByID m k'
  ok : ∀ n ∈ s.nodes, OK n.agent
  poolNote : ∀ e ∈ s.pool, e.2 = note

section Round
variable {note : Note} {k : String} {f : AgentSt → AgentSt} {Done OK : AgentSt → Prop}

theorem base_congr {s s' : Sys} (hn : s'.nodes = s.nodes) (hp : ∀ e ∈ s'.pool, e.2 = note)
    (hb : Base note k OK s) : Base note k OK s' := by
  refine ⟨struct_of_skel (by simp [skel, hn]) hb.struct, ?_, ?_, ?_, hp⟩
  · rw [hn]; exact hb.keys
  · rw [hn]; exact hb.agreeOther
  · rw [hn]; exact hb.ok

theorem base_setNode {s : Sys} {t n' : Node} (hb : Base note k OK s) (ht : t ∈ s.nodes)
    (hid : n'.id = t.id) (hm : n'.agent.members = t.agent.members)
    (hk : ∀ a ∈ n'.agent.activated, a.1 = a.2.2) (hok : OK n'.agent)
    (ho : ∀ k', k' ≠ k → getActiveByID n' k' = getActiveByID t k') : Base note k OK (setNode s n') := by
  refine ⟨struct_of_skel (skel_setNode hb.struct.1 ht hid hm) hb.struct, ?_, ?_, ?_, hb.poolNote⟩
  · intro y hy
    rcases mem_setNode hy with rfl | ⟨hy', _⟩
    · exact hk
    · exact hb.keys y hy'
  · have key : ∀ y ∈ (setNode s n').nodes, ∀ k', k' ≠ k → getActiveByID y k' = getActiveByID t k' := by
      intro y hy k' hk'
      rcases mem_setNode hy with rfl | ⟨hy', _⟩
      · exact ho k' hk'
      · exact hb.agreeOther y hy' t ht k' hk'
    intro y hy z hz k' hk'
    rw [key y hy k' hk', key z hz k' hk']
  · intro y hy
    rcases mem_setNode hy with rfl | ⟨hy', _⟩
    · exact hok
    · exact hb.ok y hy'

theorem handle_base (sp : Spec note k f Done OK) {s : Sys} {n : Node} (hb : Base note k OK s)
    (hn : n ∈ s.nodes) :
    Base note k OK (handleNote s n note) ∧ (handleNote s n note).pool = s.pool ∧
    ∀ y ∈ (handleNote s n note).nodes, (y.id = n.id ∧ Done y.agent) ∨ (y ∈ s.nodes ∧ y.id ≠ n.id) := by
  obtain ⟨n', hid, hag, hnodes, hpool⟩ := sp.handle s n
  have hd := sp.done _ (hb.ok n hn)
  have hb' : Base note k OK (setNode s n') := by
    apply base_setNode hb hn hid
    · rw [hag]; exact sp.members _
    · rw [hag]; exact sp.keys _ (hb.keys n hn)
    · rw [hag]; exact hd.2
    · intro k' hk'
      simp only [getActiveByID, hag, sp.other _ k' hk']
  refine ⟨base_congr hnodes (by rw [hpool]; exact hb.poolNote) hb', hpool, ?_⟩
  intro y hy
  rw [hnodes] at hy
  rcases mem_setNode hy with rfl | ⟨hy', hne⟩
  · left; exact ⟨hid, by rw [hag]; exact hd.1⟩
  · right; exact ⟨hy', by rw [← hid]; exact hne⟩

/-- the round invariant: every node is done or still has its notification in the pool. -/
def Inv (note : Note) (k : String) (Done OK : AgentSt → Prop) (s : Sys) : Prop :=
  Base note k OK s ∧ ∀ n ∈ s.nodes, Done n.agent ∨ (n.id, note) ∈ s.pool

theorem deliver_inv (sp : Spec note k f Done OK) {s : Sys} {i : Nat} (hi : Inv note k Done OK s)
    (hlt : i < s.pool.length) :
    Inv note k Done OK (deliver s i) ∧ (deliver s i).pool.length + 1 = s.pool.length := by
  obtain ⟨hb, hp⟩ := hi
  have hget : s.pool[i]? = some s.pool[i] := List.getElem?_eq_getElem hlt
  have hlen : (s.pool.eraseIdx i).length + 1 = s.pool.length := by
    rw [List.length_eraseIdx, if_pos hlt]; omega
  have hnote : (s.pool[i]).2 = note := hb.poolNote _ (List.getElem_mem hlt)
  have hb1 : Base note k OK { s with pool := s.pool.eraseIdx i } :=
    base_congr (s := s) rfl (fun e he => hb.poolNote e (mem_of_mem_eraseIdx' he)) hb
  have hkeep : ∀ y ∈ s.nodes, y.id ≠ (s.pool[i]).1 → (y.id, note) ∈ s.pool → (y.id, note) ∈ s.pool.eraseIdx i := by
    intro y _ hne hmem
    apply mem_eraseIdx_of_ne hmem hget
    intro e; apply hne; rw [← e]
  unfold deliver
  rw [hget]
  rcases hte : s.pool[i] with ⟨target, nt⟩
  rw [hte] at hnote hkeep
  simp only at hnote hkeep ⊢
  subst hnote
  split
  · rename_i hnone
    refine ⟨⟨hb1, ?_⟩, hlen⟩
    intro y hy
    rcases hp y hy with h | h
    · exact Or.inl h
    · exact Or.inr (hkeep y hy (getNode_none hnone y hy) h)
  · rename_i nt hsome
    obtain ⟨hnt, hntid⟩ := getNode_some hsome
    obtain ⟨hb2, hpool, hnodes⟩ := handle_base sp hb1 hnt
    refine ⟨⟨hb2, ?_⟩, by rw [hpool]; exact hlen⟩
    intro y hy
    rcases hnodes y hy with ⟨_, hd⟩ | ⟨hy', hne⟩
    · exact Or.inl hd
    · rcases hp y hy' with h | h
      · exact Or.inl h
      · right; rw [hpool]; exact hkeep y hy' (by rw [← hntid]; exact hne) h

theorem drain_inv (sp : Spec note k f Done OK) (order : List Nat) {s : Sys} (hi : Inv note k Done OK s)
    (hlen : s.pool.length ≤ order.length) :
    Inv note k Done OK (drain s order) ∧ (drain s order).pool = [] := by
  induction order generalizing s with
  | nil => exact ⟨hi, by simpa [drain] using hlen⟩
  | cons i is ih =>
    unfold drain
    by_cases h0 : s.pool.length = 0
    · have : deliver s 0 = s := by
        unfold deliver
        rw [List.eq_nil_of_length_eq_zero h0]; rfl
      rw [if_pos h0, this]
      exact ih hi (by omega)
    · rw [if_neg h0]
      have hlt : i % s.pool.length < s.pool.length := Nat.mod_lt _ (by omega)
      obtain ⟨hi', hl'⟩ := deliver_inv sp hi hlt
      exact ih hi' (by simp at hlen; omega)

theorem bcast_fold_inv (sp : Spec note k f Done OK) (nid : String) (ms : List Member) {s : Sys}
    (hb : Base note k OK s)
    (h1 : ∀ y ∈ s.nodes, y.id ≠ nid → Done y.agent ∨ (y.id, note) ∈ s.pool ∨ y.id ∈ ids ms)
    (h2 : ∀ y ∈ s.nodes, y.id = nid → Done y.agent ∨ nid ∈ ids ms) :
    Inv note k Done OK (ms.foldl (fun s m =>
      if m.id = nid then
        match getNode s nid with
        | some self => handleNote s self note
        | none => s
      else { s with pool := s.pool ++ [(m.id, note)] }) s) := by
  induction ms generalizing s with
  | nil =>
    refine ⟨hb, ?_⟩
    intro y hy
    by_cases hid : y.id = nid
    · rcases h2 y hy hid with h | h
      · exact Or.inl h
      · simp [ids] at h
    · rcases h1 y hy hid with h | h | h
      · exact Or.inl h
      · exact Or.inr h
      · simp [ids] at h
  | cons m ms ih =>
    rw [List.foldl_cons]
    by_cases hm : m.id = nid
    · rw [if_pos hm]
      split
      · rename_i self hself
        obtain ⟨hs, hsid⟩ := getNode_some hself
        obtain ⟨hb2, hpool, hnodes⟩ := handle_base sp hb hs
        apply ih hb2
        · intro y hy hne
          rcases hnodes y hy with ⟨hid, _⟩ | ⟨hy', _⟩
          · exact absurd (hid.trans hsid) hne
          · rcases h1 y hy' hne with h | h | h
            · exact Or.inl h
            · right; left; rw [hpool]; exact h
            · right; right
              simp only [ids, List.map_cons, List.mem_cons] at h
              rcases h with h | h
              · exact absurd (h.trans hm) hne
              · exact h
        · intro y hy heq
          rcases hnodes y hy with ⟨_, hd⟩ | ⟨_, hne⟩
          · exact Or.inl hd
          · exact absurd (heq.trans hsid.symm) hne
      · rename_i hnone
        apply ih hb
        · intro y hy hne
          rcases h1 y hy hne with h | h | h
          · exact Or.inl h
          · exact Or.inr (Or.inl h)
          · right; right
            simp only [ids, List.map_cons, List.mem_cons] at h
            rcases h with h | h
            · exact absurd (h.trans hm) hne
            · exact h
        · intro y hy hid
          exact absurd hid (getNode_none hnone y hy)
    · rw [if_neg hm]
      apply ih
      · refine base_congr (s := s) (s' := { s with pool := s.pool ++ [(m.id, note)] }) rfl ?_ hb
        intro e he
        rcases List.mem_append.mp he with he | he
        · exact hb.poolNote e he
        · simp at he; rw [he]
      · intro y hy hne
        rcases h1 y hy hne with h | h | h
        · exact Or.inl h
        · right; left; exact List.mem_append_left _ h
        · simp only [ids, List.map_cons, List.mem_cons] at h
          rcases h with h | h
          · right; left; rw [h]; simp
          · right; right; exact h
      · intro y hy hid
        rcases h2 y hy hid with h | h
        · exact Or.inl h
        · right
          simp only [ids, List.map_cons, List.mem_cons] at h
          rcases h with h | h
          · exact absurd h.symm hm
          · exact h

theorem bcast_inv (sp : Spec note k f Done OK) (n : Node) (ms : List Member) {s : Sys}
    (hb : Base note k OK s) (hv : ∀ y ∈ s.nodes, y.id ∈ ids ms) :
    Inv note k Done OK (bcast s n ms note) := by
  unfold bcast
  exact bcast_fold_inv sp n.id ms hb (fun y hy _ => Or.inr (Or.inr (hv y hy)))
    (fun y hy hid => Or.inr (hid ▸ hv y hy))

end Round

/-- the shape of `activate`: nil and unchanged (or only a spawn), or a spawn followed by a broadcast. -/
theorem activate_shape (s : Sys) (nid kind id : String) (sel : Option Nat) :
    (activate s nid kind id sel).2 = none ∨
    ∃ n t m n1, getNode s nid = some n ∧ n.agent.activated.any (·.1 = key kind id) = false ∧
      m ∈ n.agent.members ∧ m.kinds.contains kind = true ∧ getNode s m.id = some t ∧
      t.localKinds.contains kind = true ∧
      getNode (spawnOn s t (key kind id)) nid = some n1 ∧
      activate s nid kind id sel =
        (bcast (spawnOn s t (key kind id)) n1 n1.agent.members (.activation (t.host, key kind id)),
         some (t.host, key kind id)) := by
  unfold activate
  split
  · left; rfl
  · rename_i n hn
    simp only
    split
    · left; rfl
    · rename_i hk
      split
      · left; rfl
      · split
        · left; rfl
        · rename_i i
          split
          · left; rfl
          · rename_i m hm
            split
            · left; rfl
            · rename_i t ht
              split
              · left; rfl
              · rename_i hl
                split
                · left; rfl
                · rename_i n1 hn1
                  right
                  have hmem := List.mem_of_getElem? hm
                  rw [mem_sortById, List.mem_filter] at hmem
                  refine ⟨n, t, m, n1, hn, Bool.eq_false_iff.mpr hk, hmem.1, hmem.2, ht, by simpa using hl, hn1, rfl⟩

end HW.ClusterSys
