import HW.Model.Tree
namespace HW.Tree

/-! ### helpers -/

theorem postorderOK_append (all : List Path) : ∀ (a seen b : List Ev),
    postorderOK all seen (a ++ b) = (postorderOK all seen a && postorderOK all (seen ++ a) b)
  | [], seen, b => by simp [postorderOK]
  | e :: a, seen, b => by
    simp only [List.cons_append, postorderOK]
    rw [postorderOK_append all a (seen ++ [e]) b]
    simp [Bool.and_assoc, List.append_assoc]

/-- all three events of `q` have been seen. -/
def Seen3 (seen : List Ev) (q : Path) : Prop :=
  Ev.unregister q ∈ seen ∧ Ev.stopped q ∈ seen ∧ Ev.done q ∈ seen

theorem Seen3.mono {seen seen' : List Ev} {q : Path} (h : Seen3 seen q)
    (hs : ∀ e ∈ seen, e ∈ seen') : Seen3 seen' q :=
  ⟨hs _ h.1, hs _ h.2.1, hs _ h.2.2⟩

mutual
theorem seen3_stopTree : ∀ (pre : Path) (t : T) (q : Path), q ∈ paths pre t →
    Seen3 (stopTree pre t) q
  | pre, .node name cs, q, h => by
    simp only [paths, List.mem_cons] at h
    unfold Seen3
    simp only [stopTree, List.mem_append, List.mem_cons]
    rcases h with rfl | h
    · simp
    · have := seen3_stopForest (pre ++ [name]) cs q h
      unfold Seen3 at this
      simp [this]
theorem seen3_stopForest : ∀ (pre : Path) (cs : List T) (q : Path), q ∈ pathsForest pre cs →
    Seen3 (stopForest pre cs) q
  | pre, [], q, h => by simp [pathsForest] at h
  | pre, c :: cs, q, h => by
    simp only [pathsForest, List.mem_append] at h
    unfold Seen3
    simp only [stopForest, List.mem_append]
    rcases h with h | h
    · have := seen3_stopTree pre c q h
      unfold Seen3 at this
      simp [this]
    · have := seen3_stopForest pre cs q h
      unfold Seen3 at this
      simp [this]
end

/-- every path of a forest under `p` extends `p ++ [n]` for the name `n` of one of the roots, and
    that root path is itself a path of the forest. -/
theorem pathsForest_prefix : ∀ (p : Path) (cs : List T) (q : Path), q ∈ pathsForest p cs →
    ∃ n, (p ++ [n]) <+: q ∧ (p ++ [n]) ∈ pathsForest p cs
  | p, [], q, h => by simp [pathsForest] at h
  | p, .node n cs' :: cs, q, h => by
    simp only [pathsForest, paths, List.mem_append, List.mem_cons] at h
    simp only [pathsForest, paths, List.mem_append, List.mem_cons]
    rcases h with (rfl | h) | h
    · exact ⟨n, List.prefix_refl _, Or.inl (Or.inl rfl)⟩
    · obtain ⟨m, hm, _⟩ := pathsForest_prefix (p ++ [n]) cs' q h
      refine ⟨n, ?_, Or.inl (Or.inl rfl)⟩
      exact List.IsPrefix.trans (List.prefix_append _ _) hm
    · obtain ⟨m, hm, hm'⟩ := pathsForest_prefix p cs q h
      exact ⟨m, hm, Or.inr hm'⟩

theorem below_iff (q p : Path) : below q p = true ↔ p <+: q ∧ p.length < q.length := by
  simp [below, List.isPrefixOf_iff_prefix]

theorem below_irrefl (p : Path) : below p p = false := by
  simp [below]

theorem below_of_below_snoc {q p : Path} {n : String} (h : below q (p ++ [n]) = true) :
    below q p = true := by
  rw [below_iff] at h ⊢
  refine ⟨List.IsPrefix.trans (List.prefix_append _ _) h.1, ?_⟩
  have := h.2
  simp at this
  omega

theorem snoc_prefix_inj {p q : Path} {n m : String} (h1 : (p ++ [n]) <+: q) (h2 : (p ++ [m]) <+: q) :
    n = m := by
  obtain ⟨r1, rfl⟩ := h1
  obtain ⟨r2, h2⟩ := h2
  simp only [List.append_assoc, List.append_cancel_left_eq, List.cons_append, List.nil_append,
    List.cons.injEq] at h2
  exact h2.1.symm

/-- context condition: every path of `all` strictly below `p` is a path of the forest under `p` or has
    already completed. -/
def Ctx (all : List Path) (seen : List Ev) (p : Path) (cs : List T) : Prop :=
  ∀ q ∈ all, below q p = true → q ∈ pathsForest p cs ∨ Seen3 seen q

theorem contains_of_mem {seen : List Ev} {e : Ev} (h : e ∈ seen) : seen.contains e = true := by
  simpa using h

mutual
theorem po_tree : ∀ (pre : Path) (t : T) (all : List Path) (seen : List Ev),
    (paths pre t).Nodup →
    (match t with | .node name cs => Ctx all seen (pre ++ [name]) cs) →
    postorderOK all seen (stopTree pre t) = true
  | pre, .node name cs, all, seen, hnd, hctx => by
    simp only at hctx
    simp only [paths, List.nodup_cons] at hnd
    have hf := po_forest (pre ++ [name]) cs all seen hnd.2 hctx
    simp only [stopTree]
    rw [postorderOK_append, hf, Bool.true_and]
    have key : ∀ q ∈ all, below q (pre ++ [name]) = true →
        Seen3 (seen ++ stopForest (pre ++ [name]) cs) q := by
      intro q hq hb
      rcases hctx q hq hb with h | h
      · exact (seen3_stopForest _ _ _ h).mono (fun e he => List.mem_append_right _ he)
      · exact h.mono (fun e he => List.mem_append_left _ he)
    simp only [postorderOK, Bool.and_true, Bool.true_and, Bool.and_eq_true, List.all_eq_true,
      Bool.or_eq_true, Bool.not_eq_true']
    refine ⟨⟨?_, ?_⟩, ?_, ?_⟩
    · apply contains_of_mem; simp
    · intro q hq
      cases hb : below q (pre ++ [name]) with
      | false => exact Or.inl rfl
      | true =>
        right
        obtain ⟨h1, h2, _⟩ := key q hq hb
        simp only [List.mem_append] at h1 h2
        exact ⟨contains_of_mem (by simp [h2]), contains_of_mem (by simp; rcases h1 with h | h <;> simp [h])⟩
    · apply contains_of_mem; simp
    · intro q hq
      cases hb : below q (pre ++ [name]) with
      | false => exact Or.inl rfl
      | true =>
        right
        obtain ⟨_, _, h3⟩ := key q hq hb
        simp only [List.mem_append] at h3
        exact contains_of_mem (by simp [h3])
theorem po_forest : ∀ (p : Path) (cs : List T) (all : List Path) (seen : List Ev),
    (pathsForest p cs).Nodup → Ctx all seen p cs →
    postorderOK all seen (stopForest p cs) = true
  | p, [], all, seen, _, _ => by simp [stopForest, postorderOK]
  | p, .node n cs' :: cs, all, seen, hnd, hctx => by
    simp only [pathsForest] at hnd
    rw [List.nodup_append] at hnd
    obtain ⟨hnd1, hnd2, hdisj⟩ := hnd
    simp only [stopForest]
    rw [postorderOK_append, Bool.and_eq_true]
    constructor
    · apply po_tree p (.node n cs') all seen hnd1
      intro q hq hb
      rcases hctx q hq (below_of_below_snoc hb) with h | h
      · simp only [pathsForest, paths, List.mem_append, List.mem_cons] at h
        rcases h with (rfl | h) | h
        · rw [below_irrefl] at hb; exact absurd hb (by simp)
        · exact Or.inl h
        · exfalso
          obtain ⟨m, hm, hm'⟩ := pathsForest_prefix p cs q h
          have hnm : n = m := snoc_prefix_inj ((below_iff _ _).1 hb).1 hm
          subst hnm
          exact hdisj (p ++ [n]) (by simp [paths]) (p ++ [n]) hm' rfl
      · exact Or.inr h
    · apply po_forest p cs all _ hnd2
      intro q hq hb
      rcases hctx q hq hb with h | h
      · simp only [pathsForest, List.mem_append] at h
        rcases h with h | h
        · exact Or.inr ((seen3_stopTree _ _ _ h).mono (fun e he => List.mem_append_right _ he))
        · exact Or.inl h
      · exact Or.inr (h.mono (fun e he => List.mem_append_left _ he))
end

/-! ### main theorems -/

/-- for every tree (any depth, any fan-out, any sibling order) whose nodes have pairwise distinct paths
    (sibling names are distinct: a second SpawnChild of a taken name is a duplicate id): the shutdown
    trace is a post-order. -/
theorem stop_postorder (pre : Path) (t : T) (hnd : (paths pre t).Nodup) :
    postorderOK (paths pre t) [] (stopTree pre t) = true := by
  apply po_tree pre t _ _ hnd
  cases t with
  | node name cs =>
    intro q hq hb
    simp only [paths, List.mem_cons] at hq
    rcases hq with rfl | hq
    · rw [below_irrefl] at hb; exact absurd hb (by simp)
    · exact Or.inl hq

mutual
theorem count_tree : ∀ (pre : Path) (t : T) (p : Path),
    (stopTree pre t).count (.stopped p) = (paths pre t).count p
  | pre, .node name cs, p => by
    simp only [stopTree, paths, List.count_append, List.count_cons, List.count_nil,
      count_forest (pre ++ [name]) cs p]
    by_cases h : pre ++ [name] = p <;> simp [h]
theorem count_forest : ∀ (pre : Path) (cs : List T) (p : Path),
    (stopForest pre cs).count (.stopped p) = (pathsForest pre cs).count p
  | pre, [], p => by simp [stopForest, pathsForest]
  | pre, c :: cs, p => by
    simp only [stopForest, pathsForest, List.count_append, count_tree pre c p, count_forest pre cs p]
end

/-- every node of the tree handles Stopped exactly once during the shutdown. -/
theorem stop_covers (pre : Path) (t : T) (p : Path) :
    (stopTree pre t).count (.stopped p) = (paths pre t).count p :=
  count_tree pre t p

/-- the root's context is the last thing to become done. -/
theorem root_done_last (pre : Path) (name : String) (cs : List T) :
    (stopTree pre (.node name cs)).getLast? = some (.done (pre ++ [name])) := by
  simp [stopTree, List.getLast?_append]

/-- after a node has stopped, its whole subtree has left the live set and nothing else has. -/
theorem stopAt_spec (live : List Path) (p q : Path) :
    q ∈ stopAt live p ↔ q ∈ live ∧ q ≠ p ∧ below q p = false := by
  simp [stopAt, List.mem_filter]

end HW.Tree
