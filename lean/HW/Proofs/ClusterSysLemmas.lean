import HW.Model.ClusterSys
import HW.Proofs.Cluster
/-! Basic facts about the multi-node model: `getNode`/`setNode`, `sortById`, `find?` on the
    `activated` table, the shape of `activate`. -/
namespace HW.ClusterSys
open HW.Cluster

/-! ### sorting keeps membership -/

theorem mem_insertSorted {m x : Member} {l : List Member} : x ∈ insertSorted m l ↔ x = m ∨ x ∈ l := by
  induction l with
  | nil => simp [insertSorted]
  | cons y ys ih =>
    unfold insertSorted
    split
    · simp
    · simp [ih]; constructor
      · rintro (h | h | h) <;> simp [h]
      · rintro (h | h | h) <;> simp [h]

theorem mem_foldl_insertSorted (l acc : List Member) (x : Member) :
    x ∈ l.foldl (fun acc m => insertSorted m acc) acc ↔ x ∈ acc ∨ x ∈ l := by
  induction l generalizing acc with
  | nil => simp
  | cons y ys ih =>
    simp only [List.foldl_cons, ih, mem_insertSorted, List.mem_cons]
    constructor
    · rintro ((h | h) | h) <;> simp [h]
    · rintro (h | h | h) <;> simp [h]

theorem mem_sortById {l : List Member} {x : Member} : x ∈ sortById l ↔ x ∈ l := by
  simp [sortById, mem_foldl_insertSorted]

/-! ### getNode / setNode -/

theorem getNode_some {s : Sys} {id : String} {n : Node} (h : getNode s id = some n) :
    n ∈ s.nodes ∧ n.id = id := by
  unfold getNode at h
  exact ⟨List.mem_of_find?_eq_some h, by simpa using List.find?_some h⟩

theorem getNode_of_mem {s : Sys} {n : Node} (h : n ∈ s.nodes) : ∃ n', getNode s n.id = some n' := by
  unfold getNode
  cases hf : s.nodes.find? (·.id = n.id) with
  | some n' => exact ⟨n', rfl⟩
  | none =>
    have := List.find?_eq_none.mp hf n h
    simp at this

theorem getNode_none {s : Sys} {id : String} (h : getNode s id = none) : ∀ n ∈ s.nodes, n.id ≠ id := by
  unfold getNode at h
  intro n hn
  have := List.find?_eq_none.mp h n hn
  simpa using this

theorem nodup_ids_unique {l : List Node} (hn : (l.map (·.id)).Nodup) {x y : Node}
    (hx : x ∈ l) (hy : y ∈ l) (h : x.id = y.id) : x = y := by
  induction l with
  | nil => cases hx
  | cons z zs ih =>
    simp only [List.map_cons, List.nodup_cons, List.mem_map, not_exists, not_and] at hn
    rcases List.mem_cons.mp hx with rfl | hx' <;> rcases List.mem_cons.mp hy with rfl | hy'
    · rfl
    · exact absurd h.symm (hn.1 y hy')
    · exact absurd h (hn.1 x hx')
    · exact ih hn.2 hx' hy'

@[simp] theorem setNode_pool (s : Sys) (n : Node) : (setNode s n).pool = s.pool := rfl
@[simp] theorem setNode_log (s : Sys) (n : Node) : (setNode s n).log = s.log := rfl

theorem setNode_ids (s : Sys) (n : Node) :
    (setNode s n).nodes.map (·.id) = s.nodes.map (·.id) := by
  simp only [setNode, List.map_map]
  apply List.map_congr_left
  intro x _
  simp only [Function.comp]
  split
  · rename_i h; rw [h]
  · rfl

/-- the nodes after `setNode`: the new record, or an old node with another id. -/
theorem mem_setNode {s : Sys} {n y : Node} (h : y ∈ (setNode s n).nodes) :
    y = n ∨ (y ∈ s.nodes ∧ y.id ≠ n.id) := by
  simp only [setNode, List.mem_map] at h
  obtain ⟨x, hx, rfl⟩ := h
  split
  · exact Or.inl rfl
  · rename_i hne; exact Or.inr ⟨hx, hne⟩

/-- the (id, view) skeleton of a system. -/
def skel (s : Sys) : List (String × List Member) := s.nodes.map fun n => (n.id, n.agent.members)

theorem skel_setNode {s : Sys} {t n : Node} (hn : (s.nodes.map (·.id)).Nodup) (ht : t ∈ s.nodes)
    (hid : n.id = t.id) (hm : n.agent.members = t.agent.members) : skel (setNode s n) = skel s := by
  simp only [skel, setNode, List.map_map]
  apply List.map_congr_left
  intro x hx
  simp only [Function.comp]
  split
  · rename_i h
    have : x = t := nodup_ids_unique hn hx ht (h.trans hid)
    subst this; rw [hid, hm]
  · rfl

theorem skel_ids (s : Sys) : (skel s).map (·.1) = s.nodes.map (·.id) := by
  simp [skel, List.map_map, Function.comp_def]

theorem mem_skel_of_mem {s : Sys} {n : Node} (h : n ∈ s.nodes) : (n.id, n.agent.members) ∈ skel s :=
  List.mem_map.mpr ⟨n, h, rfl⟩

theorem mem_skel {s : Sys} {p : String × List Member} (h : p ∈ skel s) :
    ∃ n ∈ s.nodes, n.id = p.1 ∧ n.agent.members = p.2 := by
  obtain ⟨n, hn, rfl⟩ := List.mem_map.mp h
  exact ⟨n, hn, rfl, rfl⟩

/-! ### the activated table -/

theorem find_any_false {l : List (String × Pid)} {k : String} :
    l.any (·.1 = k) = false ↔ l.find? (·.1 = k) = none := by
  simp [List.find?_eq_none]

theorem getActiveByID_none {n : Node} {k : String} :
    getActiveByID n k = none ↔ n.agent.activated.find? (·.1 = k) = none := by
  simp [getActiveByID]

theorem addActivated_members (a : AgentSt) (pid : Pid) : (addActivated a pid).members = a.members := by
  unfold addActivated; split <;> rfl

theorem addActivated_find_other (a : AgentSt) (pid : Pid) (k' : String) (h : k' ≠ pid.2) :
    (addActivated a pid).activated.find? (·.1 = k') = a.activated.find? (·.1 = k') := by
  unfold addActivated
  split
  · rfl
  · simp only [List.find?_append, List.find?_cons, List.find?_nil]
    have : decide (pid.2 = k') = false := by simpa using fun e => h e.symm
    simp [this]

theorem addActivated_find_new (a : AgentSt) (pid : Pid)
    (h : a.activated.find? (·.1 = pid.2) = none) :
    (addActivated a pid).activated.find? (·.1 = pid.2) = some (pid.2, pid) := by
  unfold addActivated
  rw [if_neg (by rw [find_any_false.mpr h]; simp)]
  simp [List.find?_append, h]

theorem addActivated_find_known (a : AgentSt) (pid : Pid) (e : String × Pid)
    (h : a.activated.find? (·.1 = pid.2) = some e) :
    (addActivated a pid).activated.find? (·.1 = pid.2) = some e := by
  unfold addActivated
  have : a.activated.any (·.1 = pid.2) = true := by
    cases hb : a.activated.any (·.1 = pid.2) with
    | true => rfl
    | false => rw [find_any_false.mp hb] at h; cases h
  rw [if_pos this]; exact h

theorem addActivated_keys (a : AgentSt) (pid : Pid) (h : ∀ e ∈ a.activated, e.1 = e.2.2) :
    ∀ e ∈ (addActivated a pid).activated, e.1 = e.2.2 := by
  unfold addActivated
  split
  · exact h
  · intro e he
    rcases List.mem_append.mp he with he | he
    · exact h e he
    · simp at he; subst he; rfl

theorem removeActivated_find_other (a : AgentSt) (pid : Pid) (k' : String) (h : k' ≠ pid.2) :
    (removeActivated a pid).activated.find? (·.1 = k') = a.activated.find? (·.1 = k') := by
  unfold removeActivated
  simp only [List.find?_filter]
  congr 1
  funext x
  by_cases hk : x.1 = k'
  · subst hk
    simp [h]
  · simp [hk]

theorem removeActivated_find_self (a : AgentSt) (pid : Pid) :
    (removeActivated a pid).activated.find? (·.1 = pid.2) = none := by
  unfold removeActivated
  simp [List.find?_eq_none]

theorem removeActivated_keys (a : AgentSt) (pid : Pid) (h : ∀ e ∈ a.activated, e.1 = e.2.2) :
    ∀ e ∈ (removeActivated a pid).activated, e.1 = e.2.2 := by
  intro e he
  exact h e (List.mem_filter.mp he).1

/-! ### lists -/

theorem mem_eraseIdx_of_ne {α} {l : List α} {i : Nat} {x y : α} (hx : x ∈ l) (hy : l[i]? = some y)
    (hne : x ≠ y) : x ∈ l.eraseIdx i := by
  induction l generalizing i with
  | nil => cases hx
  | cons z zs ih =>
    cases i with
    | zero =>
      simp at hy; subst hy
      rcases List.mem_cons.mp hx with rfl | h
      · exact absurd rfl hne
      · simpa using h
    | succ j =>
      simp only [List.getElem?_cons_succ] at hy
      simp only [List.eraseIdx_cons_succ, List.mem_cons]
      rcases List.mem_cons.mp hx with rfl | h
      · exact Or.inl rfl
      · exact Or.inr (ih h hy)

theorem mem_of_mem_eraseIdx' {α} {l : List α} {i : Nat} {x : α} (hx : x ∈ l.eraseIdx i) : x ∈ l := by
  induction l generalizing i with
  | nil => simp at hx
  | cons z zs ih =>
    cases i with
    | zero => simp at hx; exact List.mem_cons_of_mem _ hx
    | succ j =>
      simp only [List.eraseIdx_cons_succ, List.mem_cons] at hx
      rcases hx with rfl | h
      · exact List.mem_cons_self
      · exact List.mem_cons_of_mem _ (ih h)

end HW.ClusterSys
