import HW.Model.Proc
import HW.Spec.Lifecycle
namespace HW.Proc

/-- containment: no panic ever propagates out of Start / Invoke / tryRestart. -/
theorem no_escape (f : Nat) (s : PSt) :
    (start f s).2 = none ∧ (∀ msgs, (invoke f s msgs).2 = none) ∧ (∀ v, (tryRestart f s v).2 = none) := by
  sorry

theorem runHistory_no_escape (max mw : Nat) (script : List Outcome) (batches : List (List Msg)) :
    (runHistory max mw script batches).2 = none := by
  sorry

/-- every delivery of every history goes through the whole middleware chain. -/
theorem all_wrapped (max mw : Nat) (script : List Outcome) (batches : List (List Msg)) :
    allWrapped mw (runHistory max mw script batches).1.trace = true := by
  sorry

/-- restart events are numbered 1, 2, 3, … and there are at most `max` of them. -/
theorem restarts_ok (max mw : Nat) (script : List Outcome) (batches : List (List Msg)) :
    restartsOK max (runHistory max mw script batches).1.trace = true := by
  sorry

/-- life-cycle shape of every incarnation. -/
theorem lifecycle_ok (max mw : Nat) (script : List Outcome) (batches : List (List Msg)) :
    lifecycleOK (runHistory max mw script batches).1.trace = true := by
  sorry

/-- when the budget is exhausted the trace ends with the clean stop sequence. -/
theorem after_max_ok (max mw : Nat) (script : List Outcome) (batches : List (List Msg)) :
    afterMaxOK (runHistory max mw script batches).1.trace = true := by
  sorry

end HW.Proc
