import HW.Model.Proc
import HW.Spec.Lifecycle
import HW.Proofs.ProcHoare
namespace HW.Proc
namespace Shape

/-- containment: no panic ever propagates out of Start / Invoke / tryRestart. -/
theorem no_escape (f : Nat) (s : PSt) :
    (start f s).2 = none ∧ (∀ msgs, (invoke f s msgs).2 = none) ∧ (∀ v, (tryRestart f s v).2 = none) :=
  no_escape' f s

theorem runHistory_no_escape (max mw : Nat) (script : List Outcome) (batches : List (List Msg)) :
    (runHistory max mw script batches).2 = none :=
  runHistory_no_escape' max mw script batches

/-! ### C13 -/

theorem allWrapped_append (n : Nat) (tr tr' : List Ev) :
    allWrapped n (tr ++ tr') = (allWrapped n tr && allWrapped n tr') := by
  induction tr with
  | nil => simp [allWrapped]
  | cons e tr ih => cases e <;> simp [allWrapped, ih, Bool.and_assoc]

def WrapInv (mw : Nat) (s : PSt) : Prop := s.mwLen = mw ∧ allWrapped mw s.trace = true

theorem wrapInv (mw : Nat) : Inv (WrapInv mw) where
  fuel := fun s h => h
  mbuf := fun s b h => h
  recv := by
    intro s m ⟨h1, h2⟩
    obtain ⟨sc, he, -⟩ := callRecv_fst s m
    rw [he]; simp [WrapInv, allWrapped_append, allWrapped, h1, h2]
  pre := by intro s ⟨h1, h2⟩; simp [WrapInv, startPre, emit, allWrapped_append, allWrapped, h1, h2]
  ev := by intro s k _ ⟨h1, h2⟩; simp [WrapInv, emit, allWrapped_append, allWrapped, h1, h2]
  cleanup := by
    intro s c ⟨h1, h2⟩
    rw [cleanup_eq]; cases c <;> simp [WrapInv, allWrapped_append, allWrapped, h1, h2]
  inboxStart := by
    intro s ⟨h1, h2⟩
    unfold inboxStart; split <;> simp [WrapInv, emit, allWrapped_append, allWrapped, h1, h2]
  restart := by intro s ⟨h1, h2⟩ _; simp [WrapInv, emit, allWrapped_append, allWrapped, h1, h2]

/-- every delivery of every history goes through the whole middleware chain. -/
theorem all_wrapped (max mw : Nat) (script : List Outcome) (batches : List (List Msg)) :
    allWrapped mw (runHistory max mw script batches).1.trace = true :=
  ((wrapInv mw).runHistory max mw script batches ⟨rfl, rfl⟩).2

/-! ### C05/C06: restart numbering -/

theorem restartNumbers_append (tr tr' : List Ev) :
    restartNumbers (tr ++ tr') = restartNumbers tr ++ restartNumbers tr' := by
  induction tr with
  | nil => simp [restartNumbers]
  | cons e tr ih =>
    cases e with
    | ev k => cases k <;> simp [restartNumbers, ih]
    | _ => simp [restartNumbers, ih]

def RestartInv (max : Nat) (s : PSt) : Prop :=
  s.maxRestarts = max ∧ restartNumbers s.trace = (List.range s.restarts).map (· + 1) ∧ s.restarts ≤ max

theorem restartInv (max : Nat) : Inv (RestartInv max) where
  fuel := fun s h => h
  mbuf := fun s b h => h
  recv := by
    intro s m ⟨h1, h2, h3⟩
    obtain ⟨sc, he, -⟩ := callRecv_fst s m
    rw [he]; simp [RestartInv, restartNumbers_append, restartNumbers, h1, h2, h3]
  pre := by
    intro s ⟨h1, h2, h3⟩; simp [RestartInv, startPre, emit, restartNumbers_append, restartNumbers, h1, h2, h3]
  ev := by
    intro s k hk ⟨h1, h2, h3⟩
    cases k <;> simp_all [RestartInv, emit, restartNumbers_append, restartNumbers]
  cleanup := by
    intro s c ⟨h1, h2, h3⟩
    rw [cleanup_eq]; cases c <;> simp [RestartInv, restartNumbers_append, restartNumbers, h1, h2, h3]
  inboxStart := by
    intro s ⟨h1, h2, h3⟩
    unfold inboxStart; split <;> simp [RestartInv, emit, restartNumbers_append, restartNumbers, h1, h2, h3]
  restart := by
    intro s ⟨h1, h2, h3⟩ hne
    simp [RestartInv, emit, restartNumbers_append, restartNumbers, h1, h2, List.range_succ]
    omega

/-- restart events are numbered 1, 2, 3, … and there are at most `max` of them. -/
theorem restarts_ok (max mw : Nat) (script : List Outcome) (batches : List (List Msg)) :
    restartsOK max (runHistory max mw script batches).1.trace = true := by
  obtain ⟨h1, h2, h3⟩ := (restartInv max).runHistory max mw script batches ⟨rfl, rfl, Nat.zero_le _⟩
  simp [restartsOK, h2, h3]

/-! ### C04: life-cycle shape -/

theorem lcRun_append (tr l : List Ev) : lcRun (tr ++ l) = l.foldl lcStep (lcRun tr) := by
  simp [lcRun, List.foldl_append]

/-- acceptor is fine so far and follows the current incarnation. -/
def LBase (s : PSt) : Prop := (lcRun s.trace).ok = true ∧ (lcRun s.trace).cur = s.inc

def LS (n f : Nat) (s : PSt) : Prop :=
  3 * s.script.length + 2 ≤ f ∧ s.script.length ≤ n ∧ LBase s ∧
  ((lcRun s.trace).phase = .none ∨ (lcRun s.trace).phase = .stopped) ∧ s.stopped = false

/-- loop invariant of the delivery loop (no fuel). -/
def LLoop (n : Nat) (s : PSt) : Prop :=
  s.script.length ≤ n ∧ LBase s ∧ (lcRun s.trace).phase = .started ∧ s.stopped = false

def LI (n f : Nat) (s : PSt) : Prop := 3 * s.script.length + 1 ≤ f ∧ LLoop n s

def LT (n f : Nat) (s : PSt) : Prop :=
  3 * s.script.length + 3 ≤ f ∧ s.script.length ≤ n ∧ LBase s ∧
  ((lcRun s.trace).phase = .inited ∨ (lcRun s.trace).phase = .started) ∧ s.stopped = false

def LQ (n : Nat) (s : PSt) : Prop :=
  s.script.length ≤ n ∧ LBase s ∧
  (s.stopped = true → (lcRun s.trace).phase = .stopped ∧ s.inboxOpen = false) ∧
  (s.stopped = false → (lcRun s.trace).phase = .started)

theorem LLoop_recv (n : Nat) (s : PSt) (k : Nat) (snd : Option Nat) (h : LLoop n s) :
    LLoop n (callRecv s (.user k snd)).1 := by
  obtain ⟨sc, he, hl⟩ := callRecv_fst s (.user k snd)
  obtain ⟨h1, ⟨h2, h3⟩, h4, h5⟩ := h
  rw [he]
  simp [LLoop, LBase, lcRun_append, lcStep, h2, h3, h4, h5]
  omega

theorem LLoop_cleanup (n : Nat) (s : PSt) (c : Option Nat) (h : LLoop n s) : LQ n (cleanup s c) := by
  obtain ⟨h1, ⟨h2, h3⟩, h4, h5⟩ := h
  rw [cleanup_eq]
  cases c <;> simp [LQ, LBase, lcRun_append, lcStep, h1, h2, h3, h4]

theorem LLoop_fin (n : Nat) (s : PSt) (h : LLoop n s) : LQ n s := by
  obtain ⟨h1, ⟨h2, h3⟩, h4, h5⟩ := h
  simp [LQ, LBase, h1, h2, h3, h4, h5]

theorem LQ_fin (n : Nat) (s : PSt) (h : LQ n s) : LQ n (fin s) := by
  obtain ⟨h1, ⟨h2, h3⟩, h4, h5⟩ := h
  unfold fin inboxStart
  split
  · exact ⟨h1, ⟨h2, h3⟩, h4, h5⟩
  next hs =>
    simp only [Bool.not_eq_true] at hs
    split <;> simp [LQ, LBase, emit, lcRun_append, lcStep, h1, h2, h3, h5 hs, hs]

/-- after `producer`, `recv initialized` (no panic), `ev initialized`, `recv started` (no panic),
    `ev started` the acceptor is in phase started. -/
theorem lTriple (n : Nat) : Triple (LS n) (LI n) (LT n) (LQ n) where
  s0 := by intro s h; have := h.1; omega
  i0 := by intro s h; have := h.1; omega
  t0 := by intro s h; have := h.1; omega
  sInit := by
    intro f s s2 v ⟨hf, hn, ⟨hok, hcur⟩, hph, hst⟩ he
    obtain ⟨sc, rfl, hl, hlt, -⟩ := callRecv_spec he
    have hlt := hlt (by simp)
    simp only [startPre, emit] at hl hlt
    rcases hph with hph | hph <;>
      simp [LT, LBase, startPre, emit, lcRun_append, lcStep, hok, hcur, hph, hst] <;> omega
  sStarted := by
    intro f s s2 s4 v ⟨hf, hn, ⟨hok, hcur⟩, hph, hst⟩ he1 he2
    obtain ⟨sc, rfl, hl, -, -⟩ := callRecv_spec he1
    obtain ⟨sc', rfl, hl', hlt, -⟩ := callRecv_spec he2
    have hlt := hlt (by simp)
    simp only [startPre, emit] at hl hl' hlt
    rcases hph with hph | hph <;>
      simp [LT, LBase, startPre, emit, lcRun_append, lcStep, hok, hcur, hph, hst] <;> omega
  sMid := by
    intro f s s2 s4 ⟨hf, hn, ⟨hok, hcur⟩, hph, hst⟩ he1 he2
    have key : LI n f (emit s4 (.ev .started)) := by
      obtain ⟨sc, rfl, hl, -, -⟩ := callRecv_spec he1
      obtain ⟨sc', rfl, hl', -, -⟩ := callRecv_spec he2
      simp only [startPre, emit] at hl hl'
      rcases hph with hph | hph <;>
        simp [LI, LLoop, LBase, startPre, emit, lcRun_append, lcStep, hok, hcur, hph, hst] <;> omega
    exact ⟨fun _ => LQ_fin n _ (LLoop_fin n _ key.2), fun _ => key⟩
  sFin := by
    intro s h
    exact LQ_fin n _ h
  iFin := by
    intro f s msgs s' ⟨_, h⟩ he
    exact invokeLoop_fin (LLoop_recv n) (fun s id h => LLoop_cleanup n s _ h) (LLoop_fin n) h he
  iPanic := by
    intro f s msgs s' v buf ⟨hf, h⟩ he
    have hlt := (invokeLoop_script msgs s).2 v buf (by rw [he])
    rw [he] at hlt
    obtain ⟨h1, h2, h3, h4⟩ : LLoop n s' :=
      invokeLoop_panicked (LLoop_recv n) (fun s id h => LLoop_cleanup n s _ h) (LLoop_fin n) h he
    refine ⟨?_, h1, h2, Or.inr h3, h4⟩
    simp only at hlt ⊢; omega
  tIerr := by
    intro f s ⟨hf, hn, ⟨hok, hcur⟩, hph, hst⟩
    obtain ⟨sc, he, hl⟩ := callRecv_fst s .stopped
    rw [he]
    rcases hph with hph | hph <;>
      simp [LS, LBase, lcRun_append, lcStep, hok, hcur, hph, hst] <;> omega
  tMax := by
    intro f s ⟨hf, hn, ⟨hok, hcur⟩, hph, hst⟩ _
    rw [cleanup_eq]
    rcases hph with hph | hph <;>
      simp [LQ, LBase, emit, lcRun_append, lcStep, hok, hcur, hph, hst, hn]
  tRestart := by
    intro f s ⟨hf, hn, ⟨hok, hcur⟩, hph, hst⟩ _
    obtain ⟨sc, he, hl⟩ := callRecv_fst s .stopped
    rw [he]
    rcases hph with hph | hph <;>
      simp [LS, LBase, emit, lcRun_append, lcStep, hok, hcur, hph, hst] <;> omega

/-- life-cycle shape of every incarnation. -/
theorem lifecycle_ok (max mw : Nat) (script : List Outcome) (batches : List (List Msg)) :
    lifecycleOK (runHistory max mw script batches).1.trace = true := by
  have := (lTriple script.length).runHistory max mw script batches
    (by simp [LS, LBase, lcRun])
    (by
      intro s ⟨h1, h2, h3, h4⟩ ho
      refine ⟨by omega, h1, h2, ?_⟩
      cases hs : s.stopped with
      | true => have := (h3 hs).2; rw [this] at ho; cases ho
      | false => exact ⟨h4 hs, rfl⟩)
  exact this.2.1.1

/-- the post-condition of a whole history: ended actors are in phase `stopped` with the inbox
    closed, live ones in phase `started`. -/
theorem history_post (max mw : Nat) (script : List Outcome) (batches : List (List Msg)) :
    LQ script.length (runHistory max mw script batches).1 :=
  (lTriple script.length).runHistory max mw script batches
    (by simp [LS, LBase, lcRun])
    (by
      intro s ⟨h1, h2, h3, h4⟩ ho
      refine ⟨by omega, h1, h2, ?_⟩
      cases hs : s.stopped with
      | true => have := (h3 hs).2; rw [this] at ho; cases ho
      | false => exact ⟨h4 hs, rfl⟩)

/-- when the spawn returns, the acceptor is fine and the actor has either handled Started (alive) or
    has handled its final Stopped with the inbox closed — for every budget, chain, crash script and
    any sufficient fuel. -/
theorem spawn_post (f max mw : Nat) (script : List Outcome) (hf : 3 * script.length + 2 ≤ f) :
    LQ script.length (spawn f max mw script).1 := by
  unfold spawn
  exact ((lTriple script.length).sound f _).1 (by simp [LS, LBase, lcRun]; omega)

theorem lcFold_ok_mono (tr : List Ev) : ∀ st : LcSt, (tr.foldl lcStep st).ok = true → st.ok = true := by
  induction tr with
  | nil => intro st h; exact h
  | cons e tr ih =>
    intro st h
    have h1 := ih _ h
    cases hst : st.ok with
    | true => rfl
    | false =>
      exfalso
      cases e <;> simp only [lcStep] at h1 <;> (try split at h1) <;> (try split at h1) <;> simp_all

theorem chainTarget_of_lc (tr : List Ev) : ∀ st : LcSt, (tr.foldl lcStep st).ok = true →
    chainTargetOK st.cur tr = true := by
  induction tr with
  | nil => intro st _; rfl
  | cons e tr ih =>
    intro st h
    have hok := lcFold_ok_mono tr _ h
    have ht := ih _ h
    cases e with
    | producer n =>
      simp only [lcStep] at hok ht
      split at hok
      · rename_i hc
        rw [if_pos hc] at ht
        simpa [chainTargetOK] using ht
      · simp at hok
    | recv inc m a b =>
      simp only [lcStep] at hok ht
      split at hok
      · simp at hok
      · rename_i hi
        have hi' : inc = st.cur := by simpa using hi
        have hc : (lcStep st (.recv inc m a b)).cur = st.cur := by
          simp only [lcStep]; split
          · rfl
          · split <;> rfl
        have ht' := ih _ h
        rw [hc] at ht'
        simp [chainTargetOK, hi', ht']
    | _ => simpa [chainTargetOK, lcStep] using ht

/-- C13 "the receiver last": every delivery ends at the current incarnation. -/
theorem chain_target_ok (max mw : Nat) (script : List Outcome) (batches : List (List Msg)) :
    chainTargetOK 0 (runHistory max mw script batches).1.trace = true :=
  chainTarget_of_lc _ {} (lifecycle_ok max mw script batches)

/-! ### C06: after the budget is exhausted -/

theorem afterMaxOK_append (pre suf : List Ev) (h : Ev.ev .maxRestarts ∉ pre) :
    afterMaxOK (pre ++ suf) = afterMaxOK suf := by
  induction pre with
  | nil => rfl
  | cons e pre ih =>
    simp only [List.mem_cons, not_or] at h
    cases e with
    | ev k =>
      cases k with
      | maxRestarts => exact absurd rfl h.1
      | _ => simp [afterMaxOK, ih h.2]
    | _ => simp [afterMaxOK, ih h.2]

theorem afterMaxOK_of_not_mem (tr : List Ev) (h : Ev.ev .maxRestarts ∉ tr) : afterMaxOK tr = true := by
  have := afterMaxOK_append tr [] h
  simpa [afterMaxOK] using this

def AMPre (s : PSt) : Prop := Ev.ev .maxRestarts ∉ s.trace
def AMPost (s : PSt) : Prop :=
  Ev.ev .maxRestarts ∉ s.trace ∨ (s.stopped = true ∧ s.inboxOpen = false ∧ afterMaxOK s.trace = true)

theorem AMPre_recv (s : PSt) (m : LMsg) (h : AMPre s) : AMPre (callRecv s m).1 := by
  obtain ⟨sc, he, -⟩ := callRecv_fst s m
  rw [he]; simpa [AMPre] using h

theorem AMPre_fin (s : PSt) (h : AMPre s) : AMPre (fin s) := by
  unfold fin inboxStart
  split
  · exact h
  · split <;> simpa [AMPre, emit] using h

theorem amTriple : Triple (fun _ => AMPre) (fun _ => AMPre) (fun _ => AMPre) AMPost where
  s0 := fun s h => Or.inl h
  i0 := fun s h => Or.inl h
  t0 := fun s h => Or.inl h
  sInit := by
    intro f s s2 v h he
    have : AMPre (startPre s) := by simpa [AMPre, startPre, emit] using h
    have := AMPre_recv _ .initialized this; rw [he] at this; exact this
  sStarted := by
    intro f s s2 s4 v h he1 he2
    have h0 : AMPre (startPre s) := by simpa [AMPre, startPre, emit] using h
    have h1 := AMPre_recv _ .initialized h0; rw [he1] at h1
    have h1' : AMPre (emit s2 (.ev .initialized)) := by simpa [AMPre, emit] using h1
    have h2 := AMPre_recv _ .started h1'; rw [he2] at h2
    exact h2
  sMid := by
    intro f s s2 s4 h he1 he2
    have h0 : AMPre (startPre s) := by simpa [AMPre, startPre, emit] using h
    have h1 := AMPre_recv _ .initialized h0; rw [he1] at h1
    have h1' : AMPre (emit s2 (.ev .initialized)) := by simpa [AMPre, emit] using h1
    have h2 := AMPre_recv _ .started h1'; rw [he2] at h2
    have h3 : AMPre (emit s4 (.ev .started)) := by simpa [AMPre, emit] using h2
    exact ⟨fun _ => Or.inl (AMPre_fin _ h3), fun _ => h3⟩
  sFin := by
    intro s h
    rcases h with h | ⟨h1, h2, h3⟩
    · exact Or.inl (AMPre_fin _ h)
    · right; simp [fin, h1, h2, h3]
  iFin := by
    intro f s msgs s' h he
    refine Or.inl (invokeLoop_fin (P := AMPre) (Q := AMPre) (fun s k snd h => AMPre_recv s _ h) ?_
      (fun s h => h) h he)
    intro s id h
    rw [cleanup_eq]; simpa [AMPre] using h
  iPanic := by
    intro f s msgs s' v buf h he
    have : AMPre s' := invokeLoop_panicked (P := AMPre) (Q := AMPre) (fun s k snd h => AMPre_recv s _ h) ?_
      (fun s h => h) h he
    · exact this
    intro s id h
    rw [cleanup_eq]; simpa [AMPre] using h
  tIerr := fun f s h => AMPre_recv s _ h
  tMax := by
    intro f s h _
    right
    rw [cleanup_eq]
    refine ⟨rfl, rfl, ?_⟩
    simp only [emit, List.append_assoc, List.append_nil]
    rw [afterMaxOK_append _ _ h]
    simp [afterMaxOK]
  tRestart := by
    intro f s h _
    have := AMPre_recv s .stopped h
    simpa [AMPre, emit] using this

/-- when the budget is exhausted the trace ends with the clean stop sequence. -/
theorem after_max_ok (max mw : Nat) (script : List Outcome) (batches : List (List Msg)) :
    afterMaxOK (runHistory max mw script batches).1.trace = true := by
  have := amTriple.runHistory max mw script batches (by simp [AMPre]) (by
    intro s h ho
    rcases h with h | ⟨_, h2, _⟩
    · exact h
    · rw [h2] at ho; cases ho)
  rcases this with h | ⟨_, _, h⟩
  · exact afterMaxOK_of_not_mem _ h
  · exact h

end Shape
end HW.Proc
