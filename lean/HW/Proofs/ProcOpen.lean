/-
Process-level half of C03: a process that is still registered at the end of a history (so senders'
messages are accepted into its inbox) is not stopped and its inbox is open — the premise `started`
of the inbox-level theorems (C03.no_idle_backlog, quiescent_all_processed) holds for it.
-/
import HW.Proofs.ProcReplay
namespace HW.Proc
set_option linter.unusedSimpArgs false

/-- a stopped process is unregistered. -/
def U (s : PSt) : Prop := s.stopped = true → s.registered = false

theorem stEnd_registered (s : PSt) : (stEnd s).registered = s.registered := by
  unfold stEnd; split <;> simp

theorem U_all : ∀ f s, (U s → U (start f s).1) ∧ (∀ msgs, U s → U (invoke f s msgs).1) ∧
    (∀ v, U s → U (tryRestart f s v).1) := by
  apply proc_ind2 (S := fun _ s r => U s → U r) (I := fun _ s _ r => U s → U r)
    (T := fun _ s _ r => U s → U r)
  · intro s h; exact h
  · intro s _ h; exact h
  · intro s _ h; exact h
  · intro f s v r _ h hu; exact h (by simpa [U] using hu)
  · intro f s v r _ _ h hu; exact h (by simpa [U] using hu)
  · intro f s _ _ _ hu; simpa [U, stEnd_registered] using hu
  · intro f s r _ _ _ h hu
    have := h (by simpa [U] using hu)
    simpa [U, stEnd_registered] using this
  · intro f s msgs scr _ _ hu; simpa [U] using hu
  · intro f s pre id g post scr _ _ _; simp [U]
  · intro f s pre k snd buf scr v r _ _ h hu; exact h (by simpa [U] using hu)
  · intro f s pre id post k snd rest scr v r _ _ h hu; exact h (by simpa [U] using hu)
  · intro f s r h hu; exact h (by simpa [U, trA] using hu)
  · intro f s _ _; simp [U]
  · intro f s r _ h hu; exact h (by simpa [U, trB] using hu)

/-- fuel exhausted, or: not stopped ⇒ inbox open. -/
def PO (s : PSt) : Prop := s.fuelOut = true ∨ (s.stopped = false → s.inboxOpen = true)

theorem PO_runBatches (fuel : Nat) (bs : List (List Msg)) : ∀ s, PO s → PO (runBatches fuel s bs).1 := by
  induction bs with
  | nil => intro s h; simpa using h
  | cons b bs ih =>
    intro s h
    rw [runBatches_cons]
    split
    · rename_i ho
      apply ih
      by_cases hf : (invoke fuel s b).1.fuelOut = true
      · exact Or.inl hf
      · right
        intro hs
        exact (alive_open_all fuel s).2.1 b hs (by simpa using hf) ho
    · exact h

theorem U_runBatches (fuel : Nat) (bs : List (List Msg)) : ∀ s, U s → U (runBatches fuel s bs).1 := by
  induction bs with
  | nil => intro s h; simpa using h
  | cons b bs ih =>
    intro s h
    rw [runBatches_cons]
    split
    · exact ih _ ((U_all fuel s).2.1 b h)
    · exact h

theorem registered_open_aux (fuel : Nat) (s0 : PSt) (batches : List (List Msg)) (hU0 : U s0)
    (hf : (runBatches fuel (start fuel s0).1 batches).1.fuelOut = false)
    (hr : (runBatches fuel (start fuel s0).1 batches).1.registered = true) :
    (runBatches fuel (start fuel s0).1 batches).1.stopped = false ∧
    (runBatches fuel (start fuel s0).1 batches).1.inboxOpen = true := by
  have hU := U_runBatches fuel batches _ ((U_all fuel s0).1 hU0)
  have hP0 : PO (start fuel s0).1 := by
    by_cases hf0 : (start fuel s0).1.fuelOut = true
    · exact Or.inl hf0
    · exact Or.inr fun hs => (alive_open_all fuel s0).1 hs (by simpa using hf0)
  have hP := PO_runBatches fuel batches _ hP0
  have hns : (runBatches fuel (start fuel s0).1 batches).1.stopped = false := by
    cases hc : (runBatches fuel (start fuel s0).1 batches).1.stopped with
    | false => rfl
    | true =>
      have := hU hc
      rw [this] at hr; cases hr
  refine ⟨hns, ?_⟩
  rcases hP with h | h
  · rw [hf] at h; cases h
  · exact h hns

/-- at the end of every history: a process that is still registered is not stopped and its inbox is open. -/
theorem registered_open (max mw : Nat) (script : List Outcome) (batches : List (List Msg))
    (hr : (runHistory max mw script batches).1.registered = true) :
    (runHistory max mw script batches).1.stopped = false ∧
    (runHistory max mw script batches).1.inboxOpen = true := by
  have hf := fuel_sufficient max mw script batches
  rw [runHistory_fst] at hr hf ⊢
  exact registered_open_aux _ _ batches (by simp [U]) hf hr

end HW.Proc
