/-
C07: every `cancel` is emitted after the final Stopped, the unregistration and (graceful pill) after
every user message that precedes the pill in the history has been delivered.
-/
import HW.Proofs.ProcReplayAux
namespace HW.Proc
set_option linter.unusedSimpArgs false

/-- the scan of `cancelOK`, from an arbitrary scan state. -/
def cfold (hist : List Msg) (st : CSt) (tr : List Ev) : CSt := tr.foldl (cancelStep hist) st

@[simp] theorem cfold_nil (hist st) : cfold hist st [] = st := rfl
@[simp] theorem cfold_cons (hist st e tr) :
    cfold hist st (e :: tr) = cfold hist (cancelStep hist st e) tr := rfl
theorem cfold_append (hist st a b) : cfold hist st (a ++ b) = cfold hist (cfold hist st a) b := by
  simp [cfold, List.foldl_append]

theorem cfold_users (hist : List Msg) (tr : List Ev) : ∀ st,
    (cfold hist st tr).users = st.users ++ userRecvs tr := by
  induction tr with
  | nil => intro st; simp
  | cons e tr ih =>
    intro st
    cases e with
    | recv inc m mw reg => cases m <;> simp [ih, cancelStep]
    | _ => simp [ih, cancelStep]

theorem cfold_recvEvs (hist : List Msg) (s : PSt) (D) : ∀ st,
    cfold hist st (recvEvs s D) = { st with users := st.users ++ D } := by
  induction D with
  | nil => intro st; simp
  | cons u D ih =>
    intro st
    simp only [recvEvs, List.map_cons, cfold_cons] at ih ⊢
    rw [ih]
    simp [cancelStep]

/-- pills of `msgs` are ready to be cancelled once reached: everything the history has before them
    is in `R` or ahead of them in `msgs`. -/
def Ready (hist : List Msg) : List (Nat × Option Nat) → List Msg → Prop
  | _, [] => True
  | R, .user k s :: ms => Ready hist (R ++ [(k, s)]) ms
  | R, .pill id _ :: ms => (∀ u ∈ usersBeforePill id hist, u ∈ R) ∧ Ready hist R ms

theorem Ready.mono (hist : List Msg) (ms : List Msg) : ∀ R R', (∀ u ∈ R, u ∈ R') →
    Ready hist R ms → Ready hist R' ms := by
  induction ms with
  | nil => intro _ _ _ _; trivial
  | cons m ms ih =>
    intro R R' hR h
    cases m with
    | user k s =>
      simp only [Ready] at h ⊢
      refine ih _ _ ?_ h
      intro u hu
      simp only [List.mem_append] at hu ⊢
      exact hu.imp_left (hR u)
    | pill id g =>
      simp only [Ready] at h ⊢
      exact ⟨fun u hu => hR u (h.1 u hu), ih _ _ hR h.2⟩

theorem Ready_append (hist : List Msg) (a b : List Msg) : ∀ R,
    Ready hist R (a ++ b) ↔ Ready hist R a ∧ Ready hist (R ++ usersOf a) b := by
  induction a with
  | nil => intro R; simp [Ready]
  | cons m a ih =>
    intro R
    cases m with
    | user k s => simp [Ready, ih]
    | pill id g => simp [Ready, ih, and_assoc]

theorem usersBeforePill_append_pill (id : Nat) (g : Bool) (pre x : List Msg) :
    ∀ u ∈ usersBeforePill id (pre ++ .pill id g :: x), u ∈ usersOf pre := by
  induction pre with
  | nil => simp [usersBeforePill]
  | cons m pre ih =>
    intro u hu
    cases m with
    | user k s =>
      simp only [List.cons_append, usersBeforePill, List.mem_cons, usersOf_user] at hu ⊢
      exact hu.imp_right (ih u)
    | pill i g' =>
      simp only [List.cons_append, usersBeforePill, usersOf_pill] at hu ⊢
      split at hu
      · cases hu
      · exact ih u hu

theorem Ready_hist (hist : List Msg) (ms : List Msg) : ∀ pre, hist = pre ++ ms →
    Ready hist (usersOf pre) ms := by
  induction ms with
  | nil => intro _ _; trivial
  | cons m ms ih =>
    intro pre h
    cases m with
    | user k s =>
      simp only [Ready]
      have := ih (pre ++ [.user k s]) (by simp [h])
      simpa using this
    | pill id g =>
      simp only [Ready]
      refine ⟨?_, ?_⟩
      · rw [h]; exact usersBeforePill_append_pill id g pre ms
      · have := ih (pre ++ [.pill id g]) (by simp [h])
        simpa using this

/-- the scan of the trace so far is fine and knows the current incarnation. -/
def CInv (hist : List Msg) (s : PSt) : Prop :=
  (cfold hist {} s.trace).ok = true ∧ (cfold hist {} s.trace).cur = s.inc

theorem cancel_all (hist : List Msg) : ∀ f s,
    (CInv hist s → Ready hist (userRecvs s.trace) s.mbuffer → CInv hist (start f s).1) ∧
    (∀ msgs, CInv hist s → s.inc ≠ 0 → Ready hist (userRecvs s.trace) msgs →
      CInv hist (invoke f s msgs).1) ∧
    (∀ v, CInv hist s → Ready hist (userRecvs s.trace) s.mbuffer → CInv hist (tryRestart f s v).1) := by
  apply proc_ind2
    (S := fun _ s r => CInv hist s → Ready hist (userRecvs s.trace) s.mbuffer → CInv hist r)
    (I := fun _ s msgs r => CInv hist s → s.inc ≠ 0 → Ready hist (userRecvs s.trace) msgs → CInv hist r)
    (T := fun _ s _ r => CInv hist s → Ready hist (userRecvs s.trace) s.mbuffer → CInv hist r)
  · intro s h _; exact h
  · intro s _ h _ _; exact h
  · intro s _ h _; exact h
  · intro f s v r _ h hc hr
    refine h ?_ (by simpa using hr)
    obtain ⟨h1, h2⟩ := hc
    refine ⟨?_, ?_⟩ <;> simp [cfold_append, stAEvs, cancelStep, h1, h2]
  · intro f s v r _ _ h hc hr
    refine h ?_ (by simpa using hr)
    obtain ⟨h1, h2⟩ := hc
    refine ⟨?_, ?_⟩ <;> simp [cfold_append, stBEvs, cancelStep, h1, h2]
  · intro f s _ _ _ hc _
    obtain ⟨h1, h2⟩ := hc
    refine ⟨?_, ?_⟩ <;> simp [cfold_append, stCEvs, stEndEvs, cancelStep, h1, h2] <;>
      split <;> simp [cancelStep, h1, h2]
  · intro f s r _ _ _ h hc hr
    have hc' : CInv hist (stC s) := by
      obtain ⟨h1, h2⟩ := hc
      refine ⟨?_, ?_⟩ <;> simp [cfold_append, stCEvs, cancelStep, h1, h2]
    obtain ⟨h1, h2⟩ := h hc' (by simp) (by simpa using hr)
    refine ⟨?_, ?_⟩ <;> simp [cfold_append, stEndEvs, h1, h2] <;>
      split <;> simp [cancelStep, h1, h2]
  · intro f s msgs scr _ _ hc _ _
    obtain ⟨h1, h2⟩ := hc
    refine ⟨?_, ?_⟩ <;> simp [cfold_append, cfold_recvEvs, h1, h2]
  · intro f s pre id g post scr _ _ hc hi hr
    obtain ⟨h1, h2⟩ := hc
    rw [Ready_append] at hr
    have hd := hr.2.1
    have hu := cfold_users hist s.trace {}
    simp only [List.nil_append] at hu
    refine ⟨?_, ?_⟩ <;>
      simp [cfold_append, cfold_recvEvs, cleanupEvs, cancelStep, h1, h2, hi, hu]
    right
    intro a b hab
    have := hd _ hab
    simp only [List.mem_append] at this
    rcases this with h | h
    · exact Or.inl h
    · exact Or.inr (Or.inl h)
  · intro f s pre k snd buf scr v r _ _ h hc _ hr
    refine h ?_ ?_
    · obtain ⟨h1, h2⟩ := hc
      refine ⟨?_, ?_⟩ <;> simp [cfold_append, cfold_recvEvs, h1, h2]
    · rw [Ready_append] at hr
      simpa [Ready] using hr.2
  · intro f s pre id post k snd rest scr v r _ _ h hc _ hr
    refine h ?_ ?_
    · obtain ⟨h1, h2⟩ := hc
      refine ⟨?_, ?_⟩ <;> simp [cfold_append, cfold_recvEvs, h1, h2]
    · rw [Ready_append] at hr
      obtain ⟨_, hd, hr⟩ := hr
      rw [Ready_append] at hr
      simp only [upd_trace, userRecvs_append, userRecvs_recvEvs, Ready_append, Ready, and_true]
      refine ⟨?_, ?_⟩
      · simpa [Ready] using hr.2
      · intro u hu
        have := hd u hu
        simp only [List.mem_append] at this ⊢
        rcases this with h | h
        · exact Or.inl (Or.inl h)
        · exact Or.inl (Or.inr (Or.inl h))
  · intro f s r h hc hr
    refine h ?_ (by simpa using hr)
    obtain ⟨h1, h2⟩ := hc
    refine ⟨?_, ?_⟩ <;> simp [cfold_append, cancelStep, h1, h2]
  · intro f s _ hc _
    obtain ⟨h1, h2⟩ := hc
    refine ⟨?_, ?_⟩ <;> simp [cfold_append, cleanupEvs, cancelStep, h1, h2]
  · intro f s r _ h hc hr
    refine h ?_ (by simpa using hr)
    obtain ⟨h1, h2⟩ := hc
    refine ⟨?_, ?_⟩ <;> simp [cfold_append, trBEvs, cancelStep, h1, h2]

/-- `start` with fuel creates an incarnation. -/
theorem inc_pos_all : ∀ f s,
    (f ≠ 0 → s.inc < (start f s).1.inc) ∧ (∀ msgs, s.inc ≤ (invoke f s msgs).1.inc) ∧
    (∀ v, s.inc ≤ (tryRestart f s v).1.inc) :=
  fun f s => ⟨by
    intro hf
    obtain ⟨f, rfl⟩ := Nat.exists_eq_succ_of_ne_zero hf
    rw [start_succ_fst]
    split
    · have := (frame_tryRestart f (callRecv (stA s) .initialized).1 ‹Pv›).inc
      simp at this; omega
    · split
      · have := (frame_tryRestart f (callRecv (stB s) .started).1 ‹Pv›).inc
        simp at this; omega
      · split
        · simp
        · have := (frame_invoke f (stC s) s.mbuffer).inc
          simp at this ⊢; omega,
   fun msgs => (frame_invoke f s msgs).inc, fun v => (frame_tryRestart f s v).inc⟩

theorem cancel_runBatches (hist : List Msg) (fuel : Nat) (bs : List (List Msg)) : ∀ s,
    (runBatches fuel s bs).1.fuelOut = false → (s.inboxOpen = true → s.stopped = false) →
    CInv hist s → s.inc ≠ 0 → Ready hist (userRecvs s.trace) bs.flatten →
    CInv hist (runBatches fuel s bs).1 := by
  induction bs with
  | nil => intro s _ _ h _ _; exact h
  | cons b bs ih =>
    intro s hf ho hc hi hr
    rw [runBatches_cons] at hf ⊢
    cases hopen : s.inboxOpen with
    | false => simpa using hc
    | true =>
      simp only [hopen, if_true] at hf ⊢
      have hfr := (frame_runBatches fuel bs (invoke fuel s b).1).fuel_false hf
      have hor := (frame_invoke fuel s b).opn ho
      rw [List.flatten_cons, Ready_append] at hr
      have hcr := (cancel_all hist fuel s).2.1 b hc hi hr.1
      have hir : (invoke fuel s b).1.inc ≠ 0 := by
        have := (frame_invoke fuel s b).inc; omega
      cases hst : (invoke fuel s b).1.stopped with
      | true =>
        have hcl : (invoke fuel s b).1.inboxOpen = false := by
          cases hio : (invoke fuel s b).1.inboxOpen
          · rfl
          · rw [hor hio] at hst; cases hst
        rw [runBatches_closed _ _ _ hcl]
        exact hcr
      | false =>
        obtain ⟨D0, a1, _, a3⟩ := replay_invoke fuel s b
        have hD0 := a3 hst hfr
        subst hD0
        refine ih _ hf hor hcr hir ?_
        rw [a1]; exact hr.2

theorem cancel_ok_aux (max mw : Nat) (script : List Outcome) (batches : List (List Msg))
    (hf : (runHistory max mw script batches).1.fuelOut = false) :
    cancelOK batches (runHistory max mw script batches).1.trace = true := by
  rw [runHistory_fst] at hf ⊢
  obtain ⟨h0, ho⟩ := spawn_facts (3 * script.length + 6) max mw script
  have hc0 : CInv batches.flatten ({ maxRestarts := max, mwLen := mw, script := script } : PSt) :=
    ⟨rfl, rfl⟩
  have hc := (cancel_all batches.flatten (3 * script.length + 6) _).1 hc0 trivial
  have hi := (inc_pos_all (3 * script.length + 6)
    { maxRestarts := max, mwLen := mw, script := script }).1 (by omega)
  have hr : Ready batches.flatten [] batches.flatten := Ready_hist batches.flatten _ [] rfl
  exact (cancel_runBatches batches.flatten _ batches _ hf ho hc (by omega) (by rw [h0]; exact hr)).1

end HW.Proc
