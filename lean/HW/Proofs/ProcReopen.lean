import HW.Proofs.ProcFrame
namespace HW.Proc
set_option linter.unusedSimpArgs false

/-- number of successful `inbox.Start`s so far. -/
def opens (s : PSt) : Nat := s.trace.count (.inboxStart true)

/-- the inbox was opened at most once; it is closed before the first opening, and after it stays
    open until the process stops; a stopped process has a closed inbox. -/
def RI (s : PSt) : Prop :=
  (s.stopped = true → s.inboxOpen = false) ∧
  ((opens s = 0 ∧ s.inboxOpen = false) ∨ (opens s = 1 ∧ (s.inboxOpen = true ∨ s.stopped = true)))

theorem RI.same {s r : PSt} (h : RI s) (hn : opens r = opens s) (ho : r.inboxOpen = s.inboxOpen)
    (hs : r.stopped = s.stopped) : RI r := by
  unfold RI at *; rw [hn, ho, hs]; exact h

theorem count_recvEvs (s : PSt) (D) : (recvEvs s D).count (.inboxStart true) = 0 := by
  induction D with
  | nil => rfl
  | cons u D ih => simpa [recvEvs, List.count_cons] using ih

theorem RI_cleanup {s : PSt} (h : RI s) (c) : RI (cleanup s c) := by
  have hn : opens (cleanup s c) = opens s := by
    cases c <;> simp [opens, cleanupEvs, List.count_cons]
  obtain ⟨_, h2⟩ := h
  refine ⟨by simp, ?_⟩
  rw [hn]
  rcases h2 with ⟨a, _⟩ | ⟨a, _⟩
  · exact Or.inl ⟨a, by simp⟩
  · exact Or.inr ⟨a, Or.inr (by simp)⟩

theorem RI_stEnd {s : PSt} (h : RI s) : RI (stEnd s) := by
  unfold stEnd
  cases hs : s.stopped with
  | true => simpa using h
  | false =>
    simp only [Bool.false_eq_true, if_false]
    obtain ⟨_, h2⟩ := h
    refine ⟨by simp [hs], ?_⟩
    cases ho : s.inboxOpen with
    | true =>
      rcases h2 with ⟨_, b⟩ | ⟨a, _⟩
      · rw [ho] at b; cases b
      · right
        refine ⟨?_, Or.inl (by simp)⟩
        simpa [opens, ho, List.count_cons] using a
    | false =>
      rcases h2 with ⟨a, _⟩ | ⟨_, b⟩
      · right
        refine ⟨?_, Or.inl (by simp)⟩
        simpa [opens, ho, List.count_cons] using a
      · rw [ho, hs] at b; simp at b

theorem reopen_all : ∀ f s, (RI s → RI (start f s).1) ∧ (∀ msgs, RI s → RI (invoke f s msgs).1) ∧
    (∀ v, RI s → RI (tryRestart f s v).1) := by
  apply proc_ind2 (S := fun _ s r => RI s → RI r) (I := fun _ s _ r => RI s → RI r)
    (T := fun _ s _ r => RI s → RI r)
  · intro s h; exact h.same rfl rfl rfl
  · intro s _ h; exact h.same rfl rfl rfl
  · intro s _ h; exact h.same rfl rfl rfl
  · intro f s v r _ h hi
    exact h (hi.same (by simp [opens, stAEvs, List.count_cons]) (by simp) (by simp))
  · intro f s v r _ _ h hi
    exact h (hi.same (by simp [opens, stBEvs, List.count_cons]) (by simp) (by simp))
  · intro f s _ _ _ hi
    exact RI_stEnd (hi.same (r := stC s) (by simp [opens, stCEvs, List.count_cons]) (by simp) (by simp))
  · intro f s r _ _ _ h hi
    have := h (hi.same (r := stC s) (by simp [opens, stCEvs, List.count_cons]) (by simp) (by simp))
    exact RI_stEnd (this.same (r := { r with mbuffer := [] }) rfl rfl rfl)
  · intro f s msgs scr _ _ hi
    exact hi.same (by simp [opens, count_recvEvs]) (by simp) (by simp)
  · intro f s pre id g post scr _ _ hi
    exact RI_cleanup (hi.same (r := upd s _ scr) (by simp [opens, count_recvEvs]) (by simp) (by simp)) _
  · intro f s pre k snd buf scr v r _ _ h hi
    exact h (hi.same (by simp [opens, count_recvEvs]) (by simp) (by simp))
  · intro f s pre id post k snd rest scr v r _ _ h hi
    exact h (hi.same (by simp [opens, count_recvEvs]) (by simp) (by simp))
  · intro f s r h hi
    exact h (hi.same (by simp [opens, List.count_cons]) (by simp) (by simp))
  · intro f s _ hi
    exact RI_cleanup (hi.same (r := emit s (.ev .maxRestarts)) (by simp [opens, List.count_cons]) (by simp)
      (by simp)) _
  · intro f s r _ h hi
    exact h (hi.same (by simp [opens, trBEvs, List.count_cons]) (by simp) (by simp))

theorem reopen_runBatches (fuel : Nat) (bs : List (List Msg)) : ∀ s, RI s → RI (runBatches fuel s bs).1 := by
  induction bs with
  | nil => intro s h; exact h
  | cons b bs ih =>
    intro s h
    rw [runBatches_cons]
    split
    · exact ih _ ((reopen_all fuel s).2.1 b h)
    · exact h

/-- the inbox of a process is opened at most once in its life. -/
theorem no_reopen (max mw : Nat) (script : List Outcome) (batches : List (List Msg)) :
    noReopen (runHistory max mw script batches).1.trace = true := by
  rw [runHistory_fst]
  have h0 : RI ({ maxRestarts := max, mwLen := mw, script := script } : PSt) :=
    ⟨by simp, Or.inl ⟨rfl, rfl⟩⟩
  have h := reopen_runBatches (3 * script.length + 6) batches _ ((reopen_all (3 * script.length + 6) _).1 h0)
  unfold noReopen
  rcases h.2 with ⟨a, _⟩ | ⟨a, _⟩ <;> (unfold opens at a; simp [a])

end HW.Proc
