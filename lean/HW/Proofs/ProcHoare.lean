import HW.Model.Proc
import HW.Spec.Lifecycle
/-!
Unfolding lemmas for the mutually recursive `start` / `invoke` / `tryRestart`, containment
(`no_escape'`), and a generic Hoare-style rule (`Triple.sound`) that reduces a property of the three
functions to facts about the non-recursive primitives.
-/
namespace HW.Proc
namespace Shape

/-- the middle of `start`: replay of the buffer. -/
def startMid (f : Nat) (s : PSt) : PSt × Option Pv :=
  if s.mbuffer = [] then (s, none) else
    (match invoke f s s.mbuffer with
     | (s, some v) => (s, some v)
     | (s, none) => ({ s with mbuffer := [] }, none))

theorem startMid_snd (f : Nat) (hi : ∀ s msgs, (invoke f s msgs).2 = none) (s : PSt) :
    (startMid f s).2 = none := by
  unfold startMid
  split
  · rfl
  · split
    next heq => have := hi s s.mbuffer; rw [heq] at this; exact this
    · rfl

theorem startMid_fst (f : Nat) (hi : ∀ s msgs, (invoke f s msgs).2 = none) (s : PSt) :
    (startMid f s).1 = if s.mbuffer = [] then s else { (invoke f s s.mbuffer).1 with mbuffer := [] } := by
  unfold startMid
  split
  · rfl
  · split
    next heq => have := hi s s.mbuffer; rw [heq] at this; cases this
    next heq => rw [heq]

theorem start_succ_raw (f : Nat) (s : PSt) : start (f+1) s =
    match callRecv (emit { s with inc := s.inc + 1 } (.producer (s.inc + 1))) .initialized with
    | (s, some v) => tryRestart f s v
    | (s, none) =>
      match callRecv (emit s (.ev .initialized)) .started with
      | (s, some v) => tryRestart f s v
      | (s, none) =>
        match startMid f (emit s (.ev .started)) with
        | (s, p) =>
          match p with
          | some v => tryRestart f s v
          | none => if s.stopped then (s, none) else (inboxStart s, none) := by
  rw [start]
  rfl

theorem no_escape' (f : Nat) : ∀ (s : PSt),
    (start f s).2 = none ∧ (∀ msgs, (invoke f s msgs).2 = none) ∧ (∀ v, (tryRestart f s v).2 = none) := by
  induction f with
  | zero => intro s; simp [start, invoke, tryRestart]
  | succ f ih =>
    intro s
    refine ⟨?_, ?_, ?_⟩
    · rw [start_succ_raw]
      split
      · exact (ih _).2.2 _
      · split
        · exact (ih _).2.2 _
        · split
          split
          · exact (ih _).2.2 _
          · split <;> rfl
    · intro msgs
      rw [invoke]
      split
      · rfl
      · exact (ih _).2.2 _
    · intro v
      cases v with
      | ierr => rw [tryRestart]; exact (ih _).1
      | user => rw [tryRestart]; split; rfl; exact (ih _).1

def startPre (s : PSt) : PSt := emit { s with inc := s.inc + 1 } (.producer (s.inc + 1))
def fin (s : PSt) : PSt := if s.stopped then s else inboxStart s
def startTail (f : Nat) (s : PSt) : PSt :=
  if s.mbuffer = [] then fin s else fin { (invoke f s s.mbuffer).1 with mbuffer := [] }

theorem start_succ (f : Nat) (s : PSt) : start (f+1) s =
    match callRecv (startPre s) .initialized with
    | (s2, some v) => tryRestart f s2 v
    | (s2, none) =>
      match callRecv (emit s2 (.ev .initialized)) .started with
      | (s4, some v) => tryRestart f s4 v
      | (s4, none) => (startTail f (emit s4 (.ev .started)), none) := by
  rw [start_succ_raw]
  dsimp only [startPre]
  split
  · rfl
  · split
    · rfl
    · have h2 := startMid_snd f (fun s m => (no_escape' f s).2.1 m)
      split
      · next heq => rw [h2] at heq; cases heq
      · rw [startMid_fst f (fun s m => (no_escape' f s).2.1 m)]
        unfold startTail fin
        split <;> split <;> rfl

/-! ### primitives in explicit form -/

theorem nextOutcome_spec (s : PSt) : ∃ sc, (nextOutcome s).1 = { s with script := sc } ∧
    sc.length ≤ s.script.length ∧ ((nextOutcome s).2 ≠ .ok → sc.length < s.script.length) := by
  unfold nextOutcome
  cases hs : s.script with
  | nil => exact ⟨[], by simp [← hs]⟩
  | cons o rest => exact ⟨rest, by simp⟩

theorem callRecv_spec {s : PSt} {m : LMsg} {s' : PSt} {r : Option Pv} (h : callRecv s m = (s', r)) :
    ∃ sc, s' = { s with trace := s.trace ++ [.recv s.inc m s.mwLen s.registered], script := sc } ∧
      sc.length ≤ s.script.length ∧ (r ≠ none → sc.length < s.script.length) ∧
      (m = .stopped → r = none) := by
  obtain ⟨sc, h1, h2, h3⟩ := nextOutcome_spec (emit s (.recv s.inc m s.mwLen s.registered))
  unfold callRecv at h
  cases m
  case stopped =>
    simp only [Prod.mk.injEq] at h
    obtain ⟨rfl, rfl⟩ := h
    exact ⟨s.script, by simp [emit]⟩
  all_goals
    simp only at h
    revert h h1 h3
    cases nextOutcome (emit s _) with
    | mk s1 o =>
      intro h h1 h3
      simp only at h h1 h3
      subst h1
      refine ⟨sc, ?_, by simpa [emit] using h2, ?_, by simp⟩
      · cases o <;> simp only [Prod.mk.injEq] at h <;> obtain ⟨rfl, rfl⟩ := h <;> simp [emit]
      · cases o <;> simp only [Prod.mk.injEq] at h <;> obtain ⟨rfl, rfl⟩ := h <;> simp_all [emit]

theorem callRecv_fst (s : PSt) (m : LMsg) : ∃ sc,
    (callRecv s m).1 = { s with trace := s.trace ++ [.recv s.inc m s.mwLen s.registered], script := sc } ∧
      sc.length ≤ s.script.length := by
  obtain ⟨sc, h1, h2, -⟩ := callRecv_spec (s := s) (m := m) (s' := (callRecv s m).1) (r := (callRecv s m).2) rfl
  exact ⟨sc, h1, h2⟩

theorem cleanup_eq (s : PSt) (c : Option Nat) : cleanup s c =
    { s with stopped := true, inboxOpen := false, registered := false,
             trace := s.trace ++ [.inboxStop, .unregister, .recv s.inc .stopped s.mwLen false, .ev .stopped] ++
               (match c with | none => [] | some id => [.cancel id]) } := by
  cases c <;> simp [cleanup, emit, callRecv]

/-! ### the generic rule -/

structure Triple (PS PI PT : Nat → PSt → Prop) (Q : PSt → Prop) : Prop where
  s0 : ∀ s, PS 0 s → Q { s with fuelOut := true }
  i0 : ∀ s, PI 0 s → Q { s with fuelOut := true }
  t0 : ∀ s, PT 0 s → Q { s with fuelOut := true }
  sInit : ∀ f s s2 v, PS (f+1) s → callRecv (startPre s) .initialized = (s2, some v) → PT f s2
  sStarted : ∀ f s s2 s4 v, PS (f+1) s → callRecv (startPre s) .initialized = (s2, none) →
    callRecv (emit s2 (.ev .initialized)) .started = (s4, some v) → PT f s4
  sMid : ∀ f s s2 s4, PS (f+1) s → callRecv (startPre s) .initialized = (s2, none) →
    callRecv (emit s2 (.ev .initialized)) .started = (s4, none) →
    ((emit s4 (.ev .started)).mbuffer = [] → Q (fin (emit s4 (.ev .started)))) ∧
    ((emit s4 (.ev .started)).mbuffer ≠ [] → PI f (emit s4 (.ev .started)))
  sFin : ∀ s, Q s → Q (fin { s with mbuffer := [] })
  iFin : ∀ f s msgs s', PI (f+1) s → invokeLoop s msgs = (s', .finished) → Q s'
  iPanic : ∀ f s msgs s' v buf, PI (f+1) s → invokeLoop s msgs = (s', .panicked v buf) →
    PT f { s' with mbuffer := buf }
  tIerr : ∀ f s, PT (f+1) s → PS f (callRecv s .stopped).1
  tMax : ∀ f s, PT (f+1) s → s.restarts = s.maxRestarts → Q (cleanup (emit s (.ev .maxRestarts)) none)
  tRestart : ∀ f s, PT (f+1) s → s.restarts ≠ s.maxRestarts →
    PS f (emit { (callRecv s .stopped).1 with restarts := (callRecv s .stopped).1.restarts + 1 }
      (.ev (.restarted ((callRecv s .stopped).1.restarts + 1))))

theorem Triple.sound {PS PI PT : Nat → PSt → Prop} {Q : PSt → Prop} (T : Triple PS PI PT Q) (f : Nat) :
    ∀ s, (PS f s → Q (start f s).1) ∧ (∀ msgs, PI f s → Q (invoke f s msgs).1) ∧
      (∀ v, PT f s → Q (tryRestart f s v).1) := by
  induction f with
  | zero =>
    intro s
    refine ⟨fun h => ?_, fun msgs h => ?_, fun v h => ?_⟩
    · rw [start]; exact T.s0 s h
    · rw [invoke]; exact T.i0 s h
    · rw [tryRestart]; exact T.t0 s h
  | succ f ih =>
    intro s
    refine ⟨fun h => ?_, fun msgs h => ?_, fun v h => ?_⟩
    · rw [start_succ]
      split
      next s2 v h1 => exact (ih _).2.2 _ (T.sInit f s s2 v h h1)
      next s2 h1 =>
        split
        next s4 v h2 => exact (ih _).2.2 _ (T.sStarted f s s2 s4 v h h1 h2)
        next s4 h2 =>
          obtain ⟨ha, hb⟩ := T.sMid f s s2 s4 h h1 h2
          show Q (startTail f _)
          unfold startTail
          split
          next hm => exact ha hm
          next hm => exact T.sFin _ ((ih _).2.1 _ (hb hm))
    · rw [invoke]
      split
      next s' h1 => exact T.iFin f s msgs s' h h1
      next s' v buf h1 => exact (ih _).2.2 _ (T.iPanic f s msgs s' v buf h h1)
    · cases v with
      | ierr => rw [tryRestart]; exact (ih _).1 (T.tIerr f s h)
      | user =>
        rw [tryRestart]
        split
        next hr => exact T.tMax f s h hr
        next hr => exact (ih _).1 (T.tRestart f s h hr)

theorem Triple.runBatches {PS PI PT : Nat → PSt → Prop} {Q : PSt → Prop} (T : Triple PS PI PT Q) (F : Nat)
    (hopen : ∀ s, Q s → s.inboxOpen = true → PI F s) (bs : List (List Msg)) :
    ∀ s, Q s → Q (runBatches F s bs).1 := by
  induction bs with
  | nil => intro s h; exact h
  | cons b bs ih =>
    intro s h
    rw [HW.Proc.runBatches]
    split
    next ho =>
      have hq := (T.sound F s).2.1 b (hopen s h ho)
      split
      next s' v he => rw [he] at hq; exact hq
      next s' he => rw [he] at hq; exact ih s' hq
    · exact h

theorem Triple.runHistory {PS PI PT : Nat → PSt → Prop} {Q : PSt → Prop} (T : Triple PS PI PT Q)
    (max mw : Nat) (script : List Outcome) (batches : List (List Msg))
    (hinit : PS (3 * script.length + 6) { maxRestarts := max, mwLen := mw, script := script })
    (hopen : ∀ s, Q s → s.inboxOpen = true → PI (3 * script.length + 6) s) :
    Q (runHistory max mw script batches).1 := by
  unfold HW.Proc.runHistory spawn
  have hq := (T.sound _ _).1 hinit
  dsimp only
  split
  next s v he => rw [he] at hq; exact hq
  next s he => rw [he] at hq; exact T.runBatches _ hopen batches s hq

theorem runBatches_no_escape (F : Nat) (bs : List (List Msg)) : ∀ s, (runBatches F s bs).2 = none := by
  induction bs with
  | nil => intro s; rfl
  | cons b bs ih =>
    intro s
    rw [runBatches]
    split
    · split
      next s' v he => have := (no_escape' F s).2.1 b; rw [he] at this; cases this
      next s' he => exact ih s'
    · rfl

theorem runHistory_no_escape' (max mw : Nat) (script : List Outcome) (batches : List (List Msg)) :
    (runHistory max mw script batches).2 = none := by
  unfold runHistory spawn
  dsimp only
  split
  next s v he => have := (no_escape' (3 * script.length + 6) { maxRestarts := max, mwLen := mw, script := script }).1; rw [he] at this; cases this
  next s he => exact runBatches_no_escape _ _ _

/-! ### the delivery loop -/

theorem drain_rule {P : PSt → Prop}
    (hrecv : ∀ s k snd, P s → P (callRecv s (.user k snd)).1) (pill : Msg) (msgs : List Msg) :
    ∀ s, P s → P (drain s pill msgs).1 := by
  induction msgs with
  | nil => intro s h; exact h
  | cons m rest ih =>
    intro s h
    rw [drain]
    cases m with
    | pill id g => simp only [invokeMsg]; exact ih s h
    | user k snd =>
      simp only [invokeMsg]
      have := hrecv s k snd h
      split
      next s' v he => rw [he] at this; exact this
      next s' he => rw [he] at this; exact ih s' this

theorem invokeLoop_rule {P Q : PSt → Prop}
    (hrecv : ∀ s k snd, P s → P (callRecv s (.user k snd)).1)
    (hclean : ∀ s id, P s → Q (cleanup s (some id)))
    (hfin : ∀ s, P s → Q s) (msgs : List Msg) :
    ∀ s s' l, P s → invokeLoop s msgs = (s', l) →
      (l = .finished → Q s') ∧ (∀ v buf, l = .panicked v buf → P s') := by
  induction msgs with
  | nil =>
    intro s s' l h he
    rw [invokeLoop] at he; cases he
    exact ⟨fun _ => hfin s h, fun _ _ hh => nomatch hh⟩
  | cons m rest ih =>
    intro s s' l h he
    cases m with
    | pill id g =>
      rw [invokeLoop] at he
      split at he
      · have := drain_rule hrecv (.pill id g) rest s h
        split at he
        next s1 v buf hd => rw [hd] at this; cases he; exact ⟨(fun hh => nomatch hh), fun _ _ _ => this⟩
        next s1 hd => rw [hd] at this; cases he; exact ⟨fun _ => hclean s1 id this, fun _ _ hh => nomatch hh⟩
      · cases he; exact ⟨fun _ => hclean s id h, fun _ _ hh => nomatch hh⟩
    | user k snd =>
      rw [invokeLoop] at he
      have := hrecv s k snd h
      split at he
      next s1 v hd => rw [hd] at this; cases he; exact ⟨(fun hh => nomatch hh), fun _ _ _ => this⟩
      next s1 hd => rw [hd] at this; exact ih s1 s' l this he

theorem invokeLoop_fin {P Q : PSt → Prop}
    (hrecv : ∀ s k snd, P s → P (callRecv s (.user k snd)).1)
    (hclean : ∀ s id, P s → Q (cleanup s (some id)))
    (hfin : ∀ s, P s → Q s) {msgs : List Msg} {s s' : PSt} (h : P s)
    (he : invokeLoop s msgs = (s', .finished)) : Q s' :=
  (invokeLoop_rule hrecv hclean hfin msgs s s' _ h he).1 rfl

theorem invokeLoop_panicked {P Q : PSt → Prop}
    (hrecv : ∀ s k snd, P s → P (callRecv s (.user k snd)).1)
    (hclean : ∀ s id, P s → Q (cleanup s (some id)))
    (hfin : ∀ s, P s → Q s) {msgs : List Msg} {s s' : PSt} {v : Pv} {buf : List Msg} (h : P s)
    (he : invokeLoop s msgs = (s', .panicked v buf)) : P s' :=
  (invokeLoop_rule hrecv hclean hfin msgs s s' _ h he).2 v buf rfl

/-- a delivery that panics consumes an outcome of the script. -/
theorem drain_script (pill : Msg) (msgs : List Msg) : ∀ s,
    (drain s pill msgs).1.script.length ≤ s.script.length ∧
    ((drain s pill msgs).2 ≠ none → (drain s pill msgs).1.script.length < s.script.length) := by
  induction msgs with
  | nil => intro s; simp [drain]
  | cons m rest ih =>
    intro s
    rw [drain]
    cases m with
    | pill id g => simp only [invokeMsg]; exact ih s
    | user k snd =>
      simp only [invokeMsg]
      split
      next s' v he =>
        obtain ⟨sc, rfl, h2, h3, -⟩ := callRecv_spec he
        simp at h3 ⊢; omega
      next s' he =>
        obtain ⟨sc, rfl, h2, h3, -⟩ := callRecv_spec he
        have := ih { s with trace := s.trace ++ [.recv s.inc (.user k snd) s.mwLen s.registered], script := sc }
        simp only at this h2 ⊢
        refine ⟨by omega, fun hv => ?_⟩
        have := this.2 hv
        omega

theorem invokeLoop_script (msgs : List Msg) : ∀ s,
    (invokeLoop s msgs).1.script.length ≤ s.script.length ∧
    (∀ v buf, (invokeLoop s msgs).2 = .panicked v buf → (invokeLoop s msgs).1.script.length < s.script.length) := by
  induction msgs with
  | nil => intro s; simp [invokeLoop]
  | cons m rest ih =>
    intro s
    cases m with
    | pill id g =>
      rw [invokeLoop]
      split
      · have := drain_script (.pill id g) rest s
        split
        next s' v buf he => rw [he] at this; simp at this ⊢; omega
        next s' he => rw [he] at this; simp [cleanup_eq] at this ⊢; omega
      · simp [cleanup_eq]
    | user k snd =>
      rw [invokeLoop]
      split
      next s' v he =>
        obtain ⟨sc, rfl, h2, h3, -⟩ := callRecv_spec he
        simp at h3 ⊢; omega
      next s' he =>
        obtain ⟨sc, rfl, h2, h3, -⟩ := callRecv_spec he
        have := ih { s with trace := s.trace ++ [.recv s.inc (.user k snd) s.mwLen s.registered], script := sc }
        simp only at this h2 ⊢
        refine ⟨by omega, fun v buf hv => ?_⟩
        have := this.2 v buf hv
        omega

/-! ### plain invariants -/

structure Inv (I : PSt → Prop) : Prop where
  fuel : ∀ s, I s → I { s with fuelOut := true }
  mbuf : ∀ s b, I s → I { s with mbuffer := b }
  recv : ∀ s m, I s → I (callRecv s m).1
  pre : ∀ s, I s → I (startPre s)
  ev : ∀ s k, (∀ n, k ≠ .restarted n) → I s → I (emit s (.ev k))
  cleanup : ∀ s c, I s → I (cleanup s c)
  inboxStart : ∀ s, I s → I (inboxStart s)
  restart : ∀ s, I s → s.restarts ≠ s.maxRestarts →
    I (emit { s with restarts := s.restarts + 1 } (.ev (.restarted (s.restarts + 1))))

theorem Inv.fin {I : PSt → Prop} (H : Inv I) (s : PSt) (h : I s) : I (fin s) := by
  unfold HW.Proc.Shape.fin; split
  · exact h
  · exact H.inboxStart s h

theorem Inv.triple {I : PSt → Prop} (H : Inv I) : Triple (fun _ => I) (fun _ => I) (fun _ => I) I where
  s0 := H.fuel
  i0 := H.fuel
  t0 := H.fuel
  sInit := by
    intro f s s2 v h he
    have := H.recv _ .initialized (H.pre s h); rw [he] at this; exact this
  sStarted := by
    intro f s s2 s4 v h he1 he2
    have h1 := H.recv _ .initialized (H.pre s h); rw [he1] at h1
    have h2 := H.recv _ .started (H.ev _ .initialized (by simp) h1); rw [he2] at h2
    exact h2
  sMid := by
    intro f s s2 s4 h he1 he2
    have h1 := H.recv _ .initialized (H.pre s h); rw [he1] at h1
    have h2 := H.recv _ .started (H.ev _ .initialized (by simp) h1); rw [he2] at h2
    have h3 := H.ev _ .started (by simp) h2
    exact ⟨fun _ => H.fin _ h3, fun _ => h3⟩
  sFin := fun s h => H.fin _ (H.mbuf s [] h)
  iFin := by
    intro f s msgs s' h he
    exact invokeLoop_fin (P := I) (Q := I) (fun s k snd h => H.recv s _ h) (fun s id h => H.cleanup s _ h)
      (fun s h => h) h he
  iPanic := by
    intro f s msgs s' v buf h he
    exact H.mbuf _ _ (invokeLoop_panicked (P := I) (Q := I) (fun s k snd h => H.recv s _ h)
      (fun s id h => H.cleanup s _ h) (fun s h => h) h he)
  tIerr := fun f s h => H.recv s _ h
  tMax := fun f s h _ => H.cleanup _ _ (H.ev s .maxRestarts (by simp) h)
  tRestart := by
    intro f s h hr
    obtain ⟨sc, he, -⟩ := callRecv_fst s .stopped
    have h1 := H.recv s .stopped h
    have : (callRecv s .stopped).1.restarts ≠ (callRecv s .stopped).1.maxRestarts := by
      rw [he]; exact hr
    exact H.restart _ h1 this

theorem Inv.runHistory {I : PSt → Prop} (H : Inv I)
    (max mw : Nat) (script : List Outcome) (batches : List (List Msg))
    (hinit : I { maxRestarts := max, mwLen := mw, script := script }) :
    I (runHistory max mw script batches).1 :=
  H.triple.runHistory max mw script batches hinit (fun _ h _ => h)

end Shape
end HW.Proc
