/-
C07, partial: with at most one pill in the history and the restart budget never exhausted, the pill
is cancelled exactly once.
-/
import HW.Proofs.ProcReplayAux
namespace HW.Proc

@[simp] theorem cancelsOf_cons_recv (a m b c tr) : cancelsOf (.recv a m b c :: tr) = cancelsOf tr := rfl
@[simp] theorem cancelsOf_cons_ev (k tr) : cancelsOf (.ev k :: tr) = cancelsOf tr := rfl
@[simp] theorem cancelsOf_cons_producer (k tr) : cancelsOf (.producer k :: tr) = cancelsOf tr := rfl
@[simp] theorem cancelsOf_cons_cancel (k tr) : cancelsOf (.cancel k :: tr) = k :: cancelsOf tr := rfl
@[simp] theorem cancelsOf_cons_inboxStop (tr) : cancelsOf (.inboxStop :: tr) = cancelsOf tr := rfl
@[simp] theorem cancelsOf_cons_inboxStart (k tr) : cancelsOf (.inboxStart k :: tr) = cancelsOf tr := rfl
@[simp] theorem cancelsOf_cons_unregister (tr) : cancelsOf (.unregister :: tr) = cancelsOf tr := rfl
@[simp] theorem cancelsOf_stAEvs (s : PSt) : cancelsOf (stAEvs s) = [] := rfl
@[simp] theorem cancelsOf_stBEvs (s : PSt) : cancelsOf (stBEvs s) = [] := rfl
@[simp] theorem cancelsOf_stCEvs (s : PSt) : cancelsOf (stCEvs s) = [] := rfl
@[simp] theorem cancelsOf_trBEvs (s : PSt) : cancelsOf (trBEvs s) = [] := rfl
@[simp] theorem cancelsOf_stEndEvs (s : PSt) : cancelsOf (stEndEvs s) = [] := by
  unfold stEndEvs; split <;> rfl
@[simp] theorem cancelsOf_cleanupEvs_none (s : PSt) : cancelsOf (cleanupEvs s none) = [] := rfl
@[simp] theorem cancelsOf_cleanupEvs_some (s : PSt) (id) : cancelsOf (cleanupEvs s (some id)) = [id] := rfl

/-- pill accounting of a run from `s` to `r` that was given `msgs`. -/
def PP (s : PSt) (msgs : List Msg) (r : PSt) : Prop :=
  r.fuelOut = false → Ev.ev .maxRestarts ∉ r.trace → s.stopped = false →
    (pillsOf msgs = [] → r.stopped = false ∧ cancelsOf r.trace = cancelsOf s.trace) ∧
    (∀ p, pillsOf msgs = [p] → r.stopped = true ∧ cancelsOf r.trace = cancelsOf s.trace ++ [p.1])

theorem PP.pre {s s' r : PSt} {msgs msgs' : List Msg} (h : PP s' msgs' r)
    (hs : s'.stopped = s.stopped) (hc : cancelsOf s'.trace = cancelsOf s.trace)
    (h0 : pillsOf msgs = [] → pillsOf msgs' = [])
    (h1 : ∀ p, pillsOf msgs = [p] → pillsOf msgs' = [p]) : PP s msgs r := by
  intro a b c
  obtain ⟨x, y⟩ := h a b (by rw [hs]; exact c)
  rw [hc] at x y
  exact ⟨fun e => x (h0 e), fun p e => y p (h1 p e)⟩

theorem PP.post {s r r' : PSt} {msgs : List Msg} (h : PP s msgs r)
    (hf : r'.fuelOut = r.fuelOut) (hm : Ev.ev .maxRestarts ∉ r'.trace → Ev.ev .maxRestarts ∉ r.trace)
    (hs : r'.stopped = r.stopped) (hc : cancelsOf r'.trace = cancelsOf r.trace) : PP s msgs r' := by
  intro a b c
  rw [hf] at a
  rw [hs, hc]
  exact h a (hm b) c

theorem pill_all : ∀ f s, PP s s.mbuffer (start f s).1 ∧ (∀ msgs, PP s msgs (invoke f s msgs).1) ∧
    (∀ v, PP s s.mbuffer (tryRestart f s v).1) := by
  apply proc_ind2 (S := fun _ s r => PP s s.mbuffer r) (I := fun _ s msgs r => PP s msgs r)
    (T := fun _ s _ r => PP s s.mbuffer r)
  · intro s h; simp at h
  · intro s _ h; simp at h
  · intro s _ h; simp at h
  · intro f s v r _ h
    exact h.pre (by simp) (by simp) (by simp) (by simp)
  · intro f s v r _ _ h
    exact h.pre (by simp) (by simp) (by simp) (by simp)
  · intro f s _ _ hb _ _ hs
    simp [hb, hs]
  · intro f s r _ _ _ h
    refine (h.pre (by simp) (by simp) id (fun _ => id)).post (by simp) ?_ (by simp) (by simp)
    intro hm hr; apply hm; simp [hr]
  · intro f s msgs scr hp _ _ _ hs
    simp [hp, hs]
  · intro f s pre id g post scr hp _ _ _ hs
    simp [hp]
  · intro f s pre k snd buf scr v r hp _ h
    exact h.pre (by simp) (by simp) (by simp [hp]) (by simp [hp])
  · intro f s pre id post k snd rest scr v r hp _ h
    refine h.pre (by simp) (by simp) (by simp [hp]) ?_
    intro p
    simp only [pillsOf_append, pillsOf_pill, pillsOf_user, hp, List.nil_append, List.cons.injEq,
      List.append_eq_nil_iff, pillsOf_nil]
    rintro ⟨rfl, h1, h2⟩
    simp [h2]
  · intro f s r h
    exact h.pre (by simp) (by simp) (by simp) (by simp)
  · intro f s _ _ hm
    simp at hm
  · intro f s r _ h
    exact h.pre (by simp) (by simp) (by simp) (by simp)

theorem pill_runBatches (fuel : Nat) (bs : List (List Msg)) : ∀ s,
    (runBatches fuel s bs).1.fuelOut = false → Ev.ev .maxRestarts ∉ (runBatches fuel s bs).1.trace →
    s.stopped = false → s.inboxOpen = true →
    (pillsOf bs.flatten = [] → cancelsOf (runBatches fuel s bs).1.trace = cancelsOf s.trace) ∧
    (∀ p, pillsOf bs.flatten = [p] →
      cancelsOf (runBatches fuel s bs).1.trace = cancelsOf s.trace ++ [p.1]) := by
  induction bs with
  | nil => intro s _ _ _ _; simp
  | cons b bs ih =>
    intro s hf hm hs hopen
    rw [runBatches_cons] at hf hm ⊢
    simp only [hopen, if_true] at hf hm ⊢
    have hfr := (frame_runBatches fuel bs (invoke fuel s b).1).fuel_false hf
    have hmr := (frame_runBatches fuel bs (invoke fuel s b).1).not_mem hm
    have hor := (frame_invoke fuel s b).opn (fun _ => hs)
    obtain ⟨A, B⟩ := (pill_all fuel s).2.1 b hfr hmr hs
    rw [List.flatten_cons, pillsOf_append]
    refine ⟨?_, ?_⟩
    · intro h
      rw [List.append_eq_nil_iff] at h
      obtain ⟨a1, a2⟩ := A h.1
      have hio := (alive_open_all fuel s).2.1 b a1 hfr hopen
      rw [(ih _ hf hm a1 hio).1 h.2, a2]
    · intro p h
      rw [List.append_eq_singleton_iff] at h
      rcases h with ⟨h1, h2⟩ | ⟨h1, h2⟩
      · obtain ⟨a1, a2⟩ := A h1
        have hio := (alive_open_all fuel s).2.1 b a1 hfr hopen
        rw [(ih _ hf hm a1 hio).2 p h2, a2]
      · obtain ⟨b1, b2⟩ := B p h1
        have hcl : (invoke fuel s b).1.inboxOpen = false := by
          cases hio : (invoke fuel s b).1.inboxOpen
          · rfl
          · rw [hor hio] at b1; cases b1
        rw [runBatches_closed _ _ _ hcl]
        exact b2

theorem single_pill_aux (max mw : Nat) (script : List Outcome) (batches : List (List Msg))
    (h1 : (pillsOf batches.flatten).length ≤ 1)
    (hf : (runHistory max mw script batches).1.fuelOut = false)
    (hm : Ev.ev .maxRestarts ∉ (runHistory max mw script batches).1.trace) :
    allPillsCancelled batches (runHistory max mw script batches).1.trace = true := by
  unfold allPillsCancelled
  rw [runHistory_fst] at hf hm ⊢
  have hfr := (frame_runBatches _ batches _).fuel_false hf
  have hmr := (frame_runBatches _ batches _).not_mem hm
  obtain ⟨A, _⟩ := (pill_all (3 * script.length + 6)
    { maxRestarts := max, mwLen := mw, script := script }).1 hfr hmr rfl
  obtain ⟨a1, a2⟩ := A rfl
  have hio := (alive_open_all _ _).1 a1 hfr
  obtain ⟨_, B⟩ := pill_runBatches _ batches _ hf hm a1 hio
  match hp : pillsOf batches.flatten, h1 with
  | [], _ => rfl
  | [p], _ =>
    rw [B p hp, a2]
    simp
  | _ :: _ :: _, h1 => simp at h1

end HW.Proc
