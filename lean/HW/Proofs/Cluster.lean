import HW.Model.Cluster
import HW.Proofs.ClusterLemmas
namespace HW.Cluster

def idsNodup (ms : List Member) : Prop := (ids ms).Nodup

/-- what `HasKind` answers, relative to the node's own kinds (the agent starts with its local kinds). -/
def KindsInv (localKinds : List String) (st : AgentSt) : Prop :=
  ∀ k, k ∈ st.kinds ↔ (k ∈ localKinds ∨ ∃ m ∈ st.members, k ∈ m.kinds)


/-! ### shape of `handleMembers` -/

theorem handle_members_eq (st : AgentSt) (snap : List Member) :
    (handleMembers st snap).1.members =
      ((except (mkSet snap) st.members).foldl setAdd st.members).filter
        (fun x => !hasId (except st.members snap) x.id) := by
  rw [handleMembers_eq]; simp only [leave_members, join_members]

theorem handle_joinIds (st : AgentSt) (snap : List Member) :
    joinIds (handleMembers st snap).2 = ids (except (mkSet snap) st.members) := by
  rw [handleMembers_eq]; simp only [joinIds_append, join_joinIds, leave_joinIds, List.append_nil]

theorem handle_leaveIds (st : AgentSt) (snap : List Member) :
    leaveIds (handleMembers st snap).2 = ids (except st.members snap) := by
  rw [handleMembers_eq]; simp only [leaveIds_append, join_leaveIds, leave_leaveIds, List.nil_append]

theorem mem_ids_handle (st : AgentSt) (snap : List Member) (id : String) :
    id ∈ ids (handleMembers st snap).1.members ↔ id ∈ ids snap := by
  rw [handle_members_eq,
    mem_ids_filter_of_id _ (fun id => id ∉ ids (except st.members snap))
      (by intro m; rw [← hasId_false_iff]; cases hasId (except st.members snap) m.id <;> simp),
    mem_ids_foldl_setAdd, mem_ids_except, mem_ids_except, mem_ids_mkSet]
  by_cases h1 : id ∈ ids st.members <;> by_cases h2 : id ∈ ids snap <;> simp [h1, h2]

/-- every stored member of the new view is an old member object or a snapshot object. -/
theorem mem_handle_sub (st : AgentSt) (snap : List Member) (m : Member)
    (hm : m ∈ (handleMembers st snap).1.members) : m ∈ st.members ∨ m ∈ snap := by
  rw [handle_members_eq] at hm
  rcases mem_foldl_setAdd_sub _ _ _ (List.mem_filter.1 hm).1 with h | h
  · exact Or.inl h
  · exact Or.inr (mem_mkSet_sub (List.mem_filter.1 h).1)

theorem handle_kinds_eq (st : AgentSt) (snap : List Member) :
    (except st.members snap = [] ∧
      (handleMembers st snap).1.members = (except (mkSet snap) st.members).foldl setAdd st.members ∧
      (handleMembers st snap).1.kinds =
        (except (mkSet snap) st.members).foldl (fun acc m => addKinds acc m.kinds) st.kinds) ∨
    (handleMembers st snap).1.kinds = rebuildKinds (handleMembers st snap).1.members := by
  by_cases hl : except st.members snap = []
  · left
    refine ⟨hl, ?_, ?_⟩
    · rw [handleMembers_eq, hl]; simp only [runAll, join_members]
    · rw [handleMembers_eq, hl]; simp only [runAll, join_kinds]
  · right
    rw [handleMembers_eq]
    exact leave_kinds _ _ hl

/-- after a snapshot the view is the snapshot (by member id). -/
theorem handle_view (st : AgentSt) (snap : List Member) (h : idsNodup st.members) :
    idsNodup (handleMembers st snap).1.members ∧
    ∀ id, id ∈ ids (handleMembers st snap).1.members ↔ id ∈ ids snap := by
  refine ⟨?_, mem_ids_handle st snap⟩
  unfold idsNodup at *
  rw [handle_members_eq]
  exact nodup_ids_filter _ (nodup_foldl_setAdd _ _ h)

/-- exactly one join event per member that was not in the previous view, exactly one leave event per
    member that dropped out, none for members that stayed — duplicates in the snapshot included. -/
theorem handle_events (st : AgentSt) (snap : List Member) (h : idsNodup st.members) :
    (joinIds (handleMembers st snap).2).Nodup ∧ (leaveIds (handleMembers st snap).2).Nodup ∧
    (∀ id, id ∈ joinIds (handleMembers st snap).2 ↔ id ∈ ids snap ∧ id ∉ ids st.members) ∧
    (∀ id, id ∈ leaveIds (handleMembers st snap).2 ↔ id ∈ ids st.members ∧ id ∉ ids snap) := by
  unfold idsNodup at h
  rw [handle_joinIds, handle_leaveIds]
  refine ⟨nodup_except _ (nodup_mkSet snap), nodup_except _ h, ?_, ?_⟩
  · intro id; rw [mem_ids_except, mem_ids_mkSet]
  · intro id; rw [mem_ids_except]

/-- HasKind is true exactly for the kinds some member of the view advertises, provided every
    snapshot contains the observing node itself (advertising its local kinds). -/
theorem handle_kinds (localKinds : List String) (selfId : String) (st : AgentSt) (snap : List Member)
    (h : idsNodup st.members) (hk : KindsInv localKinds st)
    (hself : selfId ∈ ids snap) (hselfk : ∀ m ∈ snap, m.id = selfId → m.kinds = localKinds)
    (hselfold : ∀ m ∈ st.members, m.id = selfId → m.kinds = localKinds) :
    KindsInv localKinds (handleMembers st snap).1 ∧
    (∀ k, k ∈ (handleMembers st snap).1.kinds ↔ ∃ m ∈ (handleMembers st snap).1.members, k ∈ m.kinds) ∧
    (∀ m ∈ (handleMembers st snap).1.members, m.id = selfId → m.kinds = localKinds) := by
  have _ := h
  have h3 : ∀ m ∈ (handleMembers st snap).1.members, m.id = selfId → m.kinds = localKinds := by
    intro m hm hid
    rcases mem_handle_sub st snap m hm with h' | h'
    · exact hselfold m h' hid
    · exact hselfk m h' hid
  -- the node itself is in the new view, advertising `localKinds`
  have hloc : ∀ k, k ∈ localKinds → ∃ m ∈ (handleMembers st snap).1.members, k ∈ m.kinds := by
    intro k hk'
    rcases mem_ids.1 ((mem_ids_handle st snap selfId).2 hself) with ⟨m, hm, hid⟩
    exact ⟨m, hm, by rw [h3 m hm hid]; exact hk'⟩
  have h2 : ∀ k, k ∈ (handleMembers st snap).1.kinds ↔
      ∃ m ∈ (handleMembers st snap).1.members, k ∈ m.kinds := by
    intro k
    rcases handle_kinds_eq st snap with ⟨hl, hmem, hkinds⟩ | hkinds
    · have hfresh : (except (mkSet snap) st.members).foldl setAdd st.members =
          st.members ++ except (mkSet snap) st.members :=
        foldl_setAdd_fresh _ _ (nodup_except _ (nodup_mkSet snap))
          (fun id hid => (mem_ids_except.1 hid).2)
      rw [hkinds, mem_foldl_addKinds, hk k]
      constructor
      · rintro ((hk' | ⟨m, hm, hkm⟩) | ⟨m, hm, hkm⟩)
        · exact hloc k hk'
        · exact ⟨m, by rw [hmem, hfresh]; exact List.mem_append_left _ hm, hkm⟩
        · exact ⟨m, by rw [hmem, hfresh]; exact List.mem_append_right _ hm, hkm⟩
      · rintro ⟨m, hm, hkm⟩
        rw [hmem, hfresh] at hm
        rcases List.mem_append.1 hm with hm | hm
        · exact Or.inl (Or.inr ⟨m, hm, hkm⟩)
        · exact Or.inr ⟨m, hm, hkm⟩
    · rw [hkinds, mem_rebuildKinds]
  refine ⟨?_, h2, h3⟩
  intro k
  rw [h2 k]
  constructor
  · exact Or.inr
  · rintro (hk' | hk')
    · exact hloc k hk'
    · exact hk'

/-- when a member leaves, every activation hosted on it disappears from the view; others stay. -/
theorem leave_purges (st : AgentSt) (m : Member) :
    ∀ a, a ∈ (memberLeave st m).1.activated ↔ a ∈ st.activated ∧ a.2.1 ≠ m.host := by
  intro a
  simp [memberLeave, List.mem_filter]

/-! ### provider -/

theorem provAdd_fold_spec (ms acc : List Member) (hn : (ids acc).Nodup) :
    (ids (ms.foldl (fun acc m => if hasId acc m.id then acc else acc ++ [m]) acc)).Nodup ∧
    ∀ id, id ∈ ids (ms.foldl (fun acc m => if hasId acc m.id then acc else acc ++ [m]) acc) ↔
      id ∈ ids acc ∨ id ∈ ids ms := by
  induction ms generalizing acc with
  | nil => exact ⟨hn, by simp [ids]⟩
  | cons a t ih =>
    rw [List.foldl_cons]
    by_cases hh : hasId acc a.id = true
    · rw [if_pos hh]
      refine ⟨(ih acc hn).1, ?_⟩
      intro id
      rw [(ih acc hn).2]
      constructor
      · rintro (h1 | h1)
        · exact Or.inl h1
        · exact Or.inr (by simp [ids] at h1 ⊢; exact Or.inr h1)
      · rintro (h1 | h1)
        · exact Or.inl h1
        · simp only [ids, List.map_cons, List.mem_cons] at h1
          rcases h1 with h1 | h1
          · subst h1; exact Or.inl (hasId_iff.1 hh)
          · exact Or.inr h1
    · rw [if_neg hh]
      have hfresh : a.id ∉ ids acc := fun hc => hh (hasId_iff.2 hc)
      have hn' : (ids (acc ++ [a])).Nodup := by
        have := nodup_setAdd (m := a) hn
        rwa [setAdd_fresh hfresh] at this
      refine ⟨(ih _ hn').1, ?_⟩
      intro id
      rw [(ih _ hn').2, ids_append]
      simp [ids, or_assoc]

theorem provAdd_spec (st : ProvSt) (ms : List Member) (h : (ids st.members).Nodup) :
    (ids (provAdd st ms).1.members).Nodup ∧
    (∀ id, id ∈ ids (provAdd st ms).1.members ↔ id ∈ ids st.members ∨ id ∈ ids ms) ∧
    (provAdd st ms).2 = [.agent (ids (provAdd st ms).1.members)] :=
  ⟨(provAdd_fold_spec ms st.members h).1, (provAdd_fold_spec ms st.members h).2, rfl⟩

theorem provHandshake_eq (st : ProvSt) (peer : Member) :
    provHandshake st peer =
      ((provAdd st [peer]).1, (provAdd st [peer]).2 ++ [.reply (ids (provAdd st [peer]).1.members)]) := rfl

theorem getByHost_unique (ms : List Member) (m : Member)
    (hhosts : ∀ a ∈ ms, ∀ b ∈ ms, a.host = b.host → a = b) (hm : m ∈ ms) :
    getByHost ms m.host = some m := by
  unfold getByHost
  have hin : m ∈ ms.filter (fun x => decide (x.host = m.host)) := List.mem_filter.2 ⟨hm, by simp⟩
  cases hg : (ms.filter (fun x => decide (x.host = m.host))).getLast? with
  | none =>
    rw [List.getLast?_eq_none_iff.1 hg] at hin
    simp at hin
  | some x =>
    have hx := List.mem_filter.1 (List.mem_of_getLast? hg)
    have : x = m := hhosts x hx.1 m hm (by simpa using hx.2)
    rw [this]

theorem prov_handshake (st : ProvSt) (peer : Member) (h : idsNodup st.members) :
    idsNodup (provHandshake st peer).1.members ∧
    (∀ id, id ∈ ids (provHandshake st peer).1.members ↔ id ∈ ids st.members ∨ id = peer.id) ∧
    (provHandshake st peer).2 =
      [.agent (ids (provHandshake st peer).1.members), .reply (ids (provHandshake st peer).1.members)] := by
  rw [provHandshake_eq]
  have hs := provAdd_spec st [peer] h
  refine ⟨hs.1, ?_, ?_⟩
  · intro id; rw [hs.2.1]; simp [ids]
  · simp only; rw [hs.2.2]; rfl

theorem prov_members (st : ProvSt) (ms : List Member) (h : idsNodup st.members) :
    idsNodup (provMembers st ms).1.members ∧
    (∀ id, id ∈ ids (provMembers st ms).1.members ↔ id ∈ ids st.members ∨ id ∈ ids ms) ∧
    (provMembers st ms).2 = [.agent (ids (provMembers st ms).1.members)] :=
  provAdd_spec st ms h

/-- an unreachable report for a member's address removes that member and only that member. -/
theorem prov_leave_member (st : ProvSt) (addr : String) (m : Member) (h : idsNodup st.members)
    (hhosts : ∀ a ∈ st.members, ∀ b ∈ st.members, a.host = b.host → a = b)
    (hm : m ∈ st.members) (hh : m.host = addr) :
    idsNodup (provLeave st addr).1.members ∧
    (∀ id, id ∈ ids (provLeave st addr).1.members ↔ id ∈ ids st.members ∧ id ≠ m.id) ∧
    (provLeave st addr).2 = [.agent (ids (provLeave st addr).1.members)] := by
  subst hh
  have hg := getByHost_unique st.members m hhosts hm
  have he : provLeave st m.host =
      ({ members := setRemove st.members m.id }, [.agent (ids (setRemove st.members m.id))]) := by
    unfold provLeave; rw [hg]
  rw [he]
  exact ⟨nodup_setRemove _ h, fun id => mem_ids_setRemove, rfl⟩

/-- an unreachable report for an address that is not a member changes nothing and tells nobody. -/
theorem prov_leave_nonmember (st : ProvSt) (addr : String) (h : ∀ m ∈ st.members, m.host ≠ addr) :
    provLeave st addr = (st, []) := by
  have hf : st.members.filter (fun x => decide (x.host = addr)) = [] :=
    List.filter_eq_nil_iff.2 (fun m hm => by simpa using h m hm)
  unfold provLeave getByHost
  rw [hf]; rfl

end HW.Cluster
