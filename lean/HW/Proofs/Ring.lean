import HW.Model.Ring
import HW.Spec.Fifo
namespace HW
namespace Ring
variable {α : Type} [Inhabited α]

/-! ### arithmetic helpers -/

theorem mod2 {m x : Nat} (h : x < m + m) : x % m = if x < m then x else x - m := by
  split
  · exact Nat.mod_eq_of_lt ‹_›
  · rw [Nat.mod_eq_sub_mod (by omega)]; exact Nat.mod_eq_of_lt (by omega)

theorem idx_inj {m a i j : Nat} (hm : 0 < m) (hi : i < m) (hj : j < m)
    (h : (a + i) % m = (a + j) % m) : i = j := by
  have ha := Nat.mod_lt a hm
  have hi' : a % m + i < m + m := by omega
  have hj' : a % m + j < m + m := by omega
  rw [← Nat.mod_add_mod a m i, ← Nat.mod_add_mod a m j, mod2 hi', mod2 hj'] at h
  split at h <;> split at h <;> omega

/-! ### list helpers -/

omit [Inhabited α] in
theorem getD_set_ne {l : List α} {p q : Nat} {v d : α} (h : p ≠ q) :
    (l.set p v).getD q d = l.getD q d := by
  simp [List.getD_eq_getElem?_getD, h]

omit [Inhabited α] in
theorem getD_set_eq {l : List α} {p : Nat} {v d : α} (h : p < l.length) :
    (l.set p v).getD p d = v := by
  simp [List.getD_eq_getElem?_getD, h]

theorem zeroAll_cons (items : List α) (p : Nat) (ps : List Nat) :
    zeroAll items (p :: ps) = zeroAll (items.set p default) ps := rfl

theorem length_zeroAll (items : List α) (ps : List Nat) :
    (zeroAll items ps).length = items.length := by
  induction ps generalizing items with
  | nil => rfl
  | cons p ps ih => rw [zeroAll_cons, ih, List.length_set]

theorem getD_zeroAll_of_not_mem (items : List α) (ps : List Nat) (q : Nat) (d : α)
    (h : q ∉ ps) : (zeroAll items ps).getD q d = items.getD q d := by
  induction ps generalizing items with
  | nil => rfl
  | cons p ps ih =>
    rw [zeroAll_cons, ih _ (fun hm => h (List.mem_cons_of_mem _ hm))]
    exact getD_set_ne (fun e => h (e ▸ List.mem_cons_self))

/-! ### abstraction helpers -/

theorem abs_length (r : Ring α) : r.abs.length = r.len := by
  simp [abs]

theorem abs_getElem (r : Ring α) (i : Nat) (h : i < r.abs.length) :
    r.abs[i] = r.slot ((r.head + 1 + i) % r.mod) := by
  simp [abs]

theorem abs_eq (r' : Ring α) (L : List α) (hlen : r'.len = L.length)
    (h : ∀ i (hi : i < L.length), r'.slot ((r'.head + 1 + i) % r'.mod) = L[i]) : r'.abs = L := by
  apply List.ext_getElem
  · rw [abs_length, hlen]
  · intro i h1 h2
    rw [abs_getElem, h i h2]

theorem length_growItems (r : Ring α) (t : Nat) : (r.growItems t).length = r.mod + r.mod := by
  simp [growItems]

theorem getD_growItems (r : Ring α) (t j : Nat) (hj : j < r.mod) :
    (r.growItems t).getD j default = r.slot ((t + j) % r.mod) := by
  simp [growItems, List.getD_eq_getElem?_getD, List.getElem?_append, hj]

omit [Inhabited α] in
theorem getElem_append_singleton (l : List α) (x : α) (i : Nat) (h : i < (l ++ [x]).length) :
    (l ++ [x])[i] = if h' : i < l.length then l[i] else x := by
  rw [List.getElem_append]
  split
  · rfl
  · simp

theorem inv_new (size : Nat) (h : 1 ≤ size) :
    (Ring.new size : Ring α).Inv ∧ (Ring.new size : Ring α).abs = [] := by
  refine ⟨⟨?_, ?_, ?_, ?_⟩, ?_⟩ <;> simp [new, mod, abs] <;> omega

theorem push_refines (r : Ring α) (x : α) (h : r.Inv) :
    (r.push x).Inv ∧ (r.push x).abs = r.abs ++ [x] := by
  obtain ⟨hm, hh, hl, ht⟩ := h
  have htail : (r.tail + 1) % r.mod = (r.head + (r.len + 1)) % r.mod := by
    rw [ht, Nat.mod_add_mod, Nat.add_assoc]
  by_cases hg : r.len + 1 = r.mod
  · have ht' : (r.tail + 1) % r.mod = r.head := by
      rw [htail, hg, Nat.add_mod_right, Nat.mod_eq_of_lt hh]
    unfold push
    simp only [ht', ↓reduceIte]
    refine ⟨⟨?_, ?_, ?_, ?_⟩, ?_⟩
    · simp only [mod, List.length_set, length_growItems]; show 0 < r.mod + r.mod; omega
    · simp only [mod, List.length_set, length_growItems]; show 0 < r.mod + r.mod; omega
    · simp only [mod, List.length_set, length_growItems]; show r.len + 1 < r.mod + r.mod; omega
    · simp only [mod, List.length_set, length_growItems]
      show r.mod = (0 + (r.len + 1)) % (r.mod + r.mod)
      rw [hg, Nat.zero_add, Nat.mod_eq_of_lt (by omega)]
    · apply abs_eq
      · simp [abs_length]
      · intro i hi
        have hi' : i < r.len + 1 := by simpa [abs_length] using hi
        rw [getElem_append_singleton]
        simp only [mod, List.length_set, length_growItems, slot]
        show ((r.growItems r.head).set r.mod x).getD ((0 + 1 + i) % (r.mod + r.mod)) default = _
        have e : (0 + 1 + i) % (r.mod + r.mod) = i + 1 := by
          rw [Nat.mod_eq_of_lt (by omega)]; omega
        rw [e]
        split
        · rename_i hlt
          rw [abs_length] at hlt
          rw [getD_set_ne (by omega), getD_growItems _ _ _ (by omega), abs_getElem]
          congr 2; omega
        · rename_i hge
          rw [abs_length] at hge
          have : i + 1 = r.mod := by omega
          rw [this, getD_set_eq (by rw [length_growItems]; omega)]
  · have hlt : r.len + 1 < r.mod := by omega
    have ht' : (r.head + (r.len + 1)) % r.mod ≠ r.head := by
      intro hc
      have hc' : (r.head + (r.len + 1)) % r.mod = (r.head + 0) % r.mod := by
        rw [hc, Nat.add_zero, Nat.mod_eq_of_lt hh]
      have := idx_inj hm hlt hm hc'
      omega
    unfold push
    simp only [htail]
    rw [if_neg ht']
    refine ⟨⟨?_, ?_, ?_, ?_⟩, ?_⟩
    · simpa [mod] using hm
    · simpa [mod] using hh
    · simpa [mod] using hlt
    · simp only [mod, List.length_set]
    · apply abs_eq
      · simp [abs_length]
      · intro i hi
        have hi' : i < r.len + 1 := by simpa [abs_length] using hi
        rw [getElem_append_singleton]
        simp only [mod, List.length_set, slot]
        show (r.items.set ((r.head + (r.len + 1)) % r.mod) x).getD
          ((r.head + 1 + i) % r.mod) default = _
        have e : (r.head + (r.len + 1)) % r.mod = (r.head + 1 + r.len) % r.mod := by
          congr 1; omega
        rw [e]
        split
        · rename_i hlt'
          rw [abs_length] at hlt'
          have hne : (r.head + 1 + r.len) % r.mod ≠ (r.head + 1 + i) % r.mod := by
            intro hc
            have := idx_inj hm hl (by omega) hc
            omega
          rw [getD_set_ne hne, abs_getElem]; rfl
        · rename_i hge
          rw [abs_length] at hge
          have : i = r.len := by omega
          rw [this, getD_set_eq]
          exact Nat.mod_lt _ hm

theorem popN_refines (r : Ring α) (n : Nat) (h : r.Inv) :
    (r.popN n).1.Inv ∧
    (r.popN n).2 = (if r.abs.isEmpty then none else some (r.abs.take n)) ∧
    (r.popN n).1.abs = r.abs.drop n := by
  obtain ⟨hm, hh, hl, ht⟩ := h
  unfold popN
  by_cases h0 : r.len = 0
  · simp only [h0, ↓reduceIte]
    have : r.abs = [] := by simp [abs, h0]
    exact ⟨⟨hm, hh, hl, ht⟩, by simp [this], by simp [this]⟩
  · simp only [h0, ↓reduceIte]
    have hn' : (if n ≥ r.len then r.len else n) = min n r.len := by
      split <;> omega
    rw [hn']
    generalize hk : min n r.len = k
    have hkl : k ≤ r.len := by omega
    have hl0 : 0 < r.abs.length := by rw [abs_length]; omega
    refine ⟨⟨?_, ?_, ?_, ?_⟩, ?_, ?_⟩
    · simpa [mod, length_zeroAll] using hm
    · simp only [mod, length_zeroAll]; exact Nat.mod_lt _ hm
    · simp only [mod, length_zeroAll]; show r.len - k < r.mod; omega
    · simp only [mod, length_zeroAll]
      show r.tail = ((r.head + k) % r.mod + (r.len - k)) % r.mod
      rw [ht, Nat.mod_add_mod]; congr 1; omega
    · have hne : r.abs.isEmpty = false := by
        cases hab : r.abs with
        | nil => rw [hab] at hl0; exact absurd hl0 (by simp)
        | cons _ _ => rfl
      rw [hne]
      simp only [Bool.false_eq_true, ↓reduceIte, Option.some.injEq]
      simp only [abs, popPositions, List.map_map, ← List.map_take, List.take_range, hk]
      rfl
    · apply abs_eq
      · simp only [List.length_drop, abs_length]; omega
      · intro i hi
        rw [List.length_drop, abs_length] at hi
        have hkn : k = n := by omega
        rw [List.getElem_drop, abs_getElem]
        simp only [mod, length_zeroAll, slot]
        show (zeroAll r.items (r.popPositions k)).getD
            (((r.head + k) % r.mod + 1 + i) % r.mod) default = _
        have e : ((r.head + k) % r.mod + 1 + i) % r.mod = (r.head + 1 + (n + i)) % r.mod := by
          rw [Nat.add_assoc, Nat.mod_add_mod]; congr 1; omega
        have hnm : (r.head + 1 + (n + i)) % r.mod ∉ r.popPositions k := by
          intro hc
          simp only [popPositions, List.mem_map, List.mem_range] at hc
          obtain ⟨j, hj, hc⟩ := hc
          have := idx_inj (a := r.head + 1) hm (by omega) (by omega) hc
          omega
        rw [e, getD_zeroAll_of_not_mem _ _ _ _ hnm]; rfl

theorem pop_refines (r : Ring α) (h : r.Inv) :
    (r.pop).1.Inv ∧ (r.pop).2 = r.abs.head? ∧ (r.pop).1.abs = r.abs.tail := by
  obtain ⟨hm, hh, hl, ht⟩ := h
  unfold pop
  by_cases h0 : r.len = 0
  · simp only [h0, ↓reduceIte]
    have : r.abs = [] := by simp [abs, h0]
    exact ⟨⟨hm, hh, hl, ht⟩, by simp [this], by simp [this]⟩
  · simp only [h0, ↓reduceIte]
    refine ⟨⟨?_, ?_, ?_, ?_⟩, ?_, ?_⟩
    · simpa [mod] using hm
    · simp only [mod, List.length_set]; exact Nat.mod_lt _ hm
    · simp only [mod, List.length_set]; show r.len - 1 < r.mod; omega
    · simp only [mod, List.length_set]
      show r.tail = ((r.head + 1) % r.mod + (r.len - 1)) % r.mod
      rw [ht, Nat.mod_add_mod]; congr 1; omega
    · have hl0 : 0 < r.abs.length := by rw [abs_length]; omega
      rw [List.head?_eq_getElem?, List.getElem?_eq_getElem hl0, abs_getElem]
    · apply abs_eq
      · simp [abs_length]
      · intro i hi
        rw [List.length_tail, abs_length] at hi
        rw [List.getElem_tail, abs_getElem]
        simp only [mod, List.length_set, slot]
        show (r.items.set ((r.head + 1) % r.mod) default).getD
            (((r.head + 1) % r.mod + 1 + i) % r.mod) default = _
        have e : ((r.head + 1) % r.mod + 1 + i) % r.mod = (r.head + 1 + (i + 1)) % r.mod := by
          rw [Nat.add_assoc, Nat.mod_add_mod]; congr 1; omega
        have hne : (r.head + 1) % r.mod ≠ (r.head + 1 + (i + 1)) % r.mod := by
          intro hc
          have := idx_inj (a := r.head + 1) (i := 0) (j := i + 1) hm hm (by omega) hc
          omega
        rw [e, getD_set_ne hne]; rfl

theorem len_refines (r : Ring α) : r.lenOf = r.abs.length := by
  simp [lenOf, abs]

theorem run_refines (ops : List (RingOp α)) :
    ∀ r : Ring α, r.Inv → r.run ops = Fifo.run r.abs ops := by
  induction ops with
  | nil => intro r _; rfl
  | cons op ops ih =>
    intro r hr
    cases op with
    | push x =>
      obtain ⟨hi, ha⟩ := push_refines r x hr
      simp only [run, step, Fifo.run, Fifo.step]
      rw [ih _ hi, ha]
    | pop =>
      obtain ⟨hi, ho, ha⟩ := pop_refines r hr
      simp only [run, step, Fifo.run, Fifo.step]
      rw [ih _ hi, ha, ho]
      cases r.abs <;> rfl
    | popN n =>
      obtain ⟨hi, ho, ha⟩ := popN_refines r n hr
      simp only [run, step, Fifo.run, Fifo.step]
      rw [ih _ hi, ha, ho]
      cases hab : r.abs with
      | nil => simp
      | cons _ _ => simp
    | len =>
      simp only [run, step, Fifo.run, Fifo.step]
      rw [ih _ hr, len_refines]

theorem refines_fifo (size : Nat) (h : 1 ≤ size) (ops : List (RingOp α)) :
    (Ring.new size : Ring α).run ops = Fifo.run [] ops := by
  obtain ⟨hi, ha⟩ := inv_new (α := α) size h
  rw [run_refines ops _ hi, ha]

end Ring
end HW
