/-
The fuel handed out by `runHistory` is never exhausted: every restart consumes a non-ok outcome of
the script, and a restart costs at most three levels of nesting (start → invoke → tryRestart).
-/
import HW.Proofs.ProcFrame
namespace HW.Proc

theorem fuel_all : ∀ f s,
    (3 * s.script.length + 2 ≤ f → s.fuelOut = false → (start f s).1.fuelOut = false) ∧
    (∀ msgs, 3 * s.script.length + 1 ≤ f → s.fuelOut = false → (invoke f s msgs).1.fuelOut = false) ∧
    (∀ v, 3 * s.script.length + 3 ≤ f → s.fuelOut = false → (tryRestart f s v).1.fuelOut = false) := by
  apply proc_ind2
    (S := fun f s r => 3 * s.script.length + 2 ≤ f → s.fuelOut = false → r.fuelOut = false)
    (I := fun f s _ r => 3 * s.script.length + 1 ≤ f → s.fuelOut = false → r.fuelOut = false)
    (T := fun f s _ r => 3 * s.script.length + 3 ≤ f → s.fuelOut = false → r.fuelOut = false)
  · intro s h; omega
  · intro s _ h; omega
  · intro s _ h; omega
  · intro f s v r hv h hf hs
    have := callRecv_script_lt _ _ v hv
    simp only [stA_script] at this
    exact h (by omega) (by simpa using hs)
  · intro f s v r _ hv h hf hs
    have := callRecv_script_lt _ _ v hv
    have := stB_script_le s
    exact h (by omega) (by simpa using hs)
  · intro f s _ _ _ _ hs
    simpa using hs
  · intro f s r _ _ _ h hf hs
    have := stC_script_le s
    simpa using h (by omega) (by simpa using hs)
  · intro f s msgs scr _ _ _ hs
    simpa using hs
  · intro f s pre id g post scr _ _ _ hs
    simpa using hs
  · intro f s pre k snd buf scr v r _ hl h hf hs
    exact h (by simp; omega) (by simpa using hs)
  · intro f s pre id post k snd rest scr v r _ hl h hf hs
    exact h (by simp; omega) (by simpa using hs)
  · intro f s r h hf hs
    exact h (by simp; omega) (by simpa using hs)
  · intro f s _ _ hs
    simpa using hs
  · intro f s r _ h hf hs
    exact h (by simp; omega) (by simpa using hs)

theorem fuel_runBatches (fuel : Nat) (bs : List (List Msg)) : ∀ s,
    3 * s.script.length + 1 ≤ fuel → s.fuelOut = false → (runBatches fuel s bs).1.fuelOut = false := by
  induction bs with
  | nil => intro s _ h; exact h
  | cons b bs ih =>
    intro s hf hs
    rw [runBatches_cons]
    split
    · have := (frame_invoke fuel s b).script
      exact ih _ (by omega) ((fuel_all fuel s).2.1 b hf hs)
    · exact hs

theorem fuel_sufficient_aux (max mw : Nat) (script : List Outcome) (batches : List (List Msg)) :
    (runHistory max mw script batches).1.fuelOut = false := by
  rw [runHistory_fst]
  have h1 := (fuel_all (3 * script.length + 6) { maxRestarts := max, mwLen := mw, script := script }).1
    (by simp) rfl
  have h2 := (frame_start (3 * script.length + 6)
    { maxRestarts := max, mwLen := mw, script := script }).script
  simp only at h2
  exact fuel_runBatches _ _ _ (by omega) h1

end HW.Proc
