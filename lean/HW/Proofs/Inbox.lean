import HW.Model.Inbox
namespace HW.Inbox

/-- mutual exclusion: as long as the inbox is not re-opened after a Stop, at most one goroutine is
    inside the actor's Receive, in every reachable state. -/
theorem mutex (B : Nat) (hB : 1 ≤ B) (senders : List (List Msg)) (nStop : Nat) (s : St)
    (hr : Reachable B senders nStop s) (hp : s.restartedAfterStop = false) :
    nInside s ≤ 1 := by
  sorry

/-- no lost wake-up (safety form): a started, never stopped inbox is never idle with a backlog
    unless some thread is still about to (re)schedule. -/
theorem no_idle_backlog (B : Nat) (hB : 1 ≤ B) (senders : List (List Msg)) (nStop : Nat) (s : St)
    (hr : Reachable B senders nStop s) (hs : s.started = true) (hn : s.everStopped = false)
    (hq : s.q ≠ []) :
    s.status = .running ∨
    (∃ (t : Nat) (ms : List Msg), s.thr[t]? = some (Pc.sSched ms)) ∨
    (∃ t : Nat, s.thr[t]? = some Pc.wLen ∨ s.thr[t]? = some Pc.wSched) ∨
    (∃ t : Nat, s.thr[t]? = some Pc.stSched) := by
  sorry

/-- at quiescence (all threads finished) of a started, never stopped inbox: the queue is empty, the
    inbox is idle, and exactly the pushed messages have been delivered, in push order. -/
theorem quiescent_all_delivered (B : Nat) (hB : 1 ≤ B) (senders : List (List Msg)) (nStop : Nat) (s : St)
    (hr : Reachable B senders nStop s) (hq : quiescent s = true) (hn : s.everStopped = false) :
    s.started = true ∧ s.status = .idle ∧ s.q = [] ∧ s.delivered = s.pushed.map (·.2) := by
  sorry

/-- conservation in every reachable state without a re-open: delivered ++ in-flight batch ++ queue
    is exactly what was pushed (nothing lost, duplicated or reordered inside the inbox). -/
theorem conservation (B : Nat) (hB : 1 ≤ B) (senders : List (List Msg)) (nStop : Nat) (s : St)
    (hr : Reachable B senders nStop s) (hp : s.restartedAfterStop = false) :
    ∃ inflight, (inflight = [] ∨ ∃ t : Nat, s.thr[t]? = some (Pc.wInvoke inflight)) ∧
      s.delivered ++ inflight ++ s.q = s.pushed.map (·.2) := by
  sorry

/-- program order: what sender thread `t` has pushed so far is a prefix of its program, and the
    rest of its program is what it still holds. -/
theorem sender_program_order (B : Nat) (senders : List (List Msg)) (nStop : Nat) (s : St)
    (hr : Reachable B senders nStop s) (i : Nat) (prog : List Msg) (hi : senders[i]? = some prog) :
    ∃ rest, sentBy s (i + 1) ++ rest = prog ∧
      (s.thr[i + 1]? = some (Pc.sPush rest) ∨ s.thr[i + 1]? = some (Pc.sSched rest) ∨
       (rest = [] ∧ s.thr[i + 1]? = some Pc.done)) := by
  sorry

end HW.Inbox
