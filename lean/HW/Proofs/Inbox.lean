import HW.Model.Inbox
import HW.Proofs.InboxInv
namespace HW.Inbox

theorem countP_inside_le (l : List Pc) :
    l.countP insideReceive ≤ l.countP isInvoke + l.countP preCas := by
  induction l with
  | nil => simp
  | cons a l ih =>
    simp only [List.countP_cons]
    cases a <;> simp [insideReceive, isInvoke, preCas] <;> omega

theorem countP_of_quiescent {s : St} (hq : quiescent s = true) (p : Pc → Bool)
    (hp : ∀ pc, isDone pc = true → p pc = false) : s.thr.countP p = 0 := by
  rw [List.countP_eq_zero]
  intro a ha
  have := List.all_eq_true.1 hq a ha
  simp [hp a this]

theorem isDone_cases {pc : Pc} (h : isDone pc = true) : pc = .done ∨ pc = .sPush [] := by
  cases pc <;> simp [isDone] at h ⊢
  rename_i ms
  cases ms <;> simp at h ⊢

/-- mutual exclusion: as long as the inbox is not re-opened after a Stop, at most one goroutine is
    inside the actor's Receive, in every reachable state. -/
theorem mutex (B : Nat) (hB : 1 ≤ B) (senders : List (List Msg)) (nStop : Nat) (s : St)
    (hr : Reachable B senders nStop s) (hp : s.restartedAfterStop = false) :
    nInside s ≤ 1 := by
  have _ := hB  -- `1 ≤ B` is not needed for these safety properties
  have inv := Inv.reachable hr
  have hle := countP_inside_le s.thr
  unfold nInside
  cases hs : s.started
  · have h1 := (inv.unstarted hs).1
    have h2 := inv.e_unstarted hs
    omega
  · have h1 := inv.e_started hs
    have h2 := inv.n1 hp
    omega

/-- no lost wake-up (safety form): a started, never stopped inbox is never idle with a backlog
    unless some thread is still about to (re)schedule. -/
theorem no_idle_backlog (B : Nat) (hB : 1 ≤ B) (senders : List (List Msg)) (nStop : Nat) (s : St)
    (hr : Reachable B senders nStop s) (hs : s.started = true) (hn : s.everStopped = false)
    (hq : s.q ≠ []) :
    s.status = .running ∨
    (∃ (t : Nat) (ms : List Msg), s.thr[t]? = some (Pc.sSched ms)) ∨
    (∃ t : Nat, s.thr[t]? = some Pc.wLen ∨ s.thr[t]? = some Pc.wSched) ∨
    (∃ t : Nat, s.thr[t]? = some Pc.stSched) := by
  have _ := hB  -- `1 ≤ B` is not needed for these safety properties
  have inv := Inv.reachable hr
  rcases inv.j hs hn hq with h | h
  · exact Or.inl h
  · obtain ⟨t, pc, hpc, hw⟩ := exists_of_countP_pos h
    cases pc <;> simp [waker] at hw
    case sSched ms => exact Or.inr (Or.inl ⟨t, ms, hpc⟩)
    case wLen => exact Or.inr (Or.inr (Or.inl ⟨t, Or.inl hpc⟩))
    case wSched => exact Or.inr (Or.inr (Or.inl ⟨t, Or.inr hpc⟩))
    case stSched => exact Or.inr (Or.inr (Or.inr ⟨t, hpc⟩))

/-- at quiescence (all threads finished) of a started, never stopped inbox: the queue is empty, the
    inbox is idle, and exactly the pushed messages have been delivered, in push order. -/
theorem quiescent_all_delivered (B : Nat) (hB : 1 ≤ B) (senders : List (List Msg)) (nStop : Nat) (s : St)
    (hr : Reachable B senders nStop s) (hq : quiescent s = true) (hn : s.everStopped = false) :
    s.started = true ∧ s.status = .idle ∧ s.q = [] ∧ s.delivered = s.pushed.map (·.2) := by
  have _ := hB  -- `1 ≤ B` is not needed for these safety properties
  have inv := Inv.reachable hr
  have dn : ∀ (p : Pc → Bool), p .done = false → p (.sPush []) = false →
      ∀ pc, isDone pc = true → p pc = false := by
    intro p h1 h2 pc hd
    rcases isDone_cases hd with rfl | rfl
    · exact h1
    · exact h2
  have cA := countP_of_quiescent hq activeNI (dn _ rfl rfl)
  have cI := countP_of_quiescent hq isInvoke (dn _ rfl rfl)
  have cP := countP_of_quiescent hq preCas (dn _ rfl rfl)
  have cS := countP_of_quiescent hq atSwap (dn _ rfl rfl)
  have cW := countP_of_quiescent hq waker (dn _ rfl rfl)
  have hstarted : s.started = true := by
    cases hs : s.started
    · have := inv.e_unstarted hs; omega
    · rfl
  have hrs : s.restartedAfterStop = false := by
    cases h : s.restartedAfterStop
    · rfl
    · have := inv.r_e h; rw [hn] at this; cases this
  have hnr : s.status ≠ .running := by
    intro h
    have := inv.n2 hrs h; omega
  have hidle : s.status = .idle := by
    rcases inv.i5 hstarted hn with h | h
    · exact h
    · exact absurd h hnr
  have hq0 : s.q = [] := by
    cases hqq : s.q with
    | nil => rfl
    | cons a l =>
      have hne : s.q ≠ [] := by rw [hqq]; simp
      rcases inv.j hstarted hn hne with h | h
      · exact absurd h hnr
      · omega
  refine ⟨hstarted, hidle, hq0, ?_⟩
  have := inv.c0 hrs cI
  rw [hq0, List.append_nil] at this
  exact this

/-- conservation in every reachable state without a re-open: delivered ++ in-flight batch ++ queue
    is exactly what was pushed (nothing lost, duplicated or reordered inside the inbox). -/
theorem conservation (B : Nat) (hB : 1 ≤ B) (senders : List (List Msg)) (nStop : Nat) (s : St)
    (hr : Reachable B senders nStop s) (hp : s.restartedAfterStop = false) :
    ∃ inflight, (inflight = [] ∨ ∃ t : Nat, s.thr[t]? = some (Pc.wInvoke inflight)) ∧
      s.delivered ++ inflight ++ s.q = s.pushed.map (·.2) := by
  have _ := hB  -- `1 ≤ B` is not needed for these safety properties
  have inv := Inv.reachable hr
  by_cases hI : s.thr.countP isInvoke = 0
  · refine ⟨[], Or.inl rfl, ?_⟩
    rw [List.append_nil]
    exact inv.c0 hp hI
  · obtain ⟨t, pc, hpc, hw⟩ := exists_of_countP_pos (p := isInvoke) (l := s.thr) (by omega)
    cases pc <;> simp [isInvoke] at hw
    case wInvoke b => exact ⟨b, Or.inr ⟨t, hpc⟩, inv.c1 hp t b hpc⟩

/-- program order: what sender thread `t` has pushed so far is a prefix of its program, and the
    rest of its program is what it still holds. -/
theorem sender_program_order (B : Nat) (senders : List (List Msg)) (nStop : Nat) (s : St)
    (hr : Reachable B senders nStop s) (i : Nat) (prog : List Msg) (hi : senders[i]? = some prog) :
    ∃ rest, sentBy s (i + 1) ++ rest = prog ∧
      (s.thr[i + 1]? = some (Pc.sPush rest) ∨ s.thr[i + 1]? = some (Pc.sSched rest) ∨
       (rest = [] ∧ s.thr[i + 1]? = some Pc.done)) :=
  ProgOrd.reachable hr i prog hi

end HW.Inbox

