import HW.Model.Response
namespace HW.Response

/-- invariant: registered ids are below `nextId`; a buffered value was sent to that very id. -/
structure Inv (s : St) : Prop where
  below : ∀ id v, lookup id s.reg = some v → id < s.nextId
  sent : ∀ id x, lookup id s.reg = some (some x) → (id, x) ∈ s.hist

theorem inv_init : Inv {} := ⟨by simp [lookup], by simp [lookup]⟩

theorem lookup_erase_self (id : Nat) (l : List (Nat × Option Val)) : lookup id (erase id l) = none := by
  induction l with
  | nil => rfl
  | cons e rest ih =>
    obtain ⟨k, v⟩ := e
    simp only [erase]
    split
    · exact ih
    · rename_i hk; simp [lookup, hk, ih]

theorem lookup_erase_ne (id id' : Nat) (l : List (Nat × Option Val)) (h : id' ≠ id) :
    lookup id' (erase id l) = lookup id' l := by
  induction l with
  | nil => rfl
  | cons e rest ih =>
    obtain ⟨k, v⟩ := e
    simp only [erase]
    split
    · rename_i hk; subst hk; simp [lookup, Ne.symm h, ih]
    · simp only [lookup, ih]

theorem lookup_setVal (id id' : Nat) (x : Val) (l : List (Nat × Option Val)) :
    lookup id' (setVal id x l) =
      if id' = id then (match lookup id l with | none => none | some _ => some (some x)) else lookup id' l := by
  induction l with
  | nil => simp [setVal, lookup]
  | cons e rest ih =>
    obtain ⟨k, v⟩ := e
    simp only [setVal]
    by_cases hk : k = id
    · subst hk
      by_cases h' : id' = k
      · subst h'; simp [lookup]
      · simp [lookup, h', Ne.symm h']
    · simp only [hk, if_false, lookup]
      by_cases hk' : k = id'
      · subst hk'
        have : ¬ k = id := hk
        simp [this]
      · simp only [hk', if_false, ih]

theorem step_inv (s : St) (op : Op) (h : Inv s) : Inv (step s op).1 := by
  cases op with
  | request =>
    constructor
    · intro id v hl
      simp only [step, lookup] at hl ⊢
      split at hl
      · omega
      · have := h.below id v hl; omega
    · intro id x hl
      simp only [step, lookup] at hl ⊢
      split at hl
      · cases hl
      · exact h.sent id x hl
  | reply id v =>
    simp only [step]
    cases hlk : lookup id s.reg with
    | none =>
      exact ⟨h.below, fun i x hl => List.mem_append_left _ (h.sent i x hl)⟩
    | some slot =>
      cases slot with
      | some y =>
        exact ⟨h.below, fun i x hl => List.mem_append_left _ (h.sent i x hl)⟩
      | none =>
        constructor
        · intro i w hl
          simp only at hl ⊢
          rw [lookup_setVal] at hl
          by_cases hi : i = id
          · subst hi; exact h.below i none hlk
          · simp [hi] at hl; exact h.below i w hl
        · intro i x hl
          simp only at hl ⊢
          rw [lookup_setVal] at hl
          by_cases hi : i = id
          · subst hi
            simp [hlk] at hl
            subst hl
            exact List.mem_append_right _ (by simp)
          · simp [hi] at hl
            exact List.mem_append_left _ (h.sent i x hl)
  | result id fired =>
    simp only [step]
    cases hlk : lookup id s.reg with
    | none => exact h
    | some slot =>
      have erased : Inv { s with reg := erase id s.reg } := by
        constructor
        · intro i w hl
          by_cases hi : i = id
          · subst hi; simp [lookup_erase_self] at hl
          · simp only at hl; rw [lookup_erase_ne id i s.reg hi] at hl; exact h.below i w hl
        · intro i x hl
          by_cases hi : i = id
          · subst hi; simp [lookup_erase_self] at hl
          · simp only at hl; rw [lookup_erase_ne id i s.reg hi] at hl; exact h.sent i x hl
      cases slot with
      | some y => exact erased
      | none =>
        cases fired with
        | true => simpa using erased
        | false => simpa using h

/-- a fresh request id is not registered (ids are never reused while registered). -/
theorem request_fresh (s : St) (h : Inv s) : lookup s.nextId s.reg = none := by
  cases hl : lookup s.nextId s.reg with
  | none => rfl
  | some v => exact absurd (h.below _ v hl) (Nat.lt_irrefl _)

/-- no cross-talk: a value returned for response `id` was sent to that very id. -/
theorem result_value_was_sent (s : St) (h : Inv s) (id : Nat) (fired : Bool) (v : Val)
    (hr : (step s (.result id fired)).2 = .value v) : (id, v) ∈ s.hist := by
  simp only [step] at hr
  cases hlk : lookup id s.reg with
  | none => simp [hlk] at hr
  | some slot =>
    cases slot with
    | some y => simp [hlk] at hr; subst hr; exact h.sent id y hlk
    | none => cases fired <;> simp [hlk] at hr

/-- a timeout is reported only if the timer fired (and no reply was buffered). -/
theorem timeout_only_if_fired (s : St) (id : Nat) (fired : Bool)
    (hr : (step s (.result id fired)).2 = .timeout) : fired = true ∧ lookup id s.reg = some none := by
  simp only [step] at hr
  cases hlk : lookup id s.reg with
  | none => simp [hlk] at hr
  | some slot =>
    cases slot with
    | some y => simp [hlk] at hr
    | none => cases fired <;> simp [hlk] at hr ⊢

/-- once Result has returned (value or timeout) the response is unregistered, and a late reply is a dead letter. -/
theorem unregistered_after_result (s : St) (id : Nat) (fired : Bool)
    (hr : (step s (.result id fired)).2 ≠ .pending) (v : Val) :
    lookup id (step s (.result id fired)).1.reg = none ∧
    (step (step s (.result id fired)).1 (.reply id v)).2 = .deadLetter := by
  have h1 : lookup id (step s (.result id fired)).1.reg = none := by
    simp only [step] at hr ⊢
    cases hlk : lookup id s.reg with
    | none => simp [hlk]
    | some slot =>
      cases slot with
      | some y => simp [lookup_erase_self]
      | none => cases fired <;> simp [hlk, lookup_erase_self] at hr ⊢
  refine ⟨h1, ?_⟩
  generalize (step s (.result id fired)).1 = s' at h1
  simp [step, h1]

theorem run_inv (s : St) (ops : List Op) (h : Inv s) : Inv (run s ops).1 := by
  induction ops generalizing s with
  | nil => exact h
  | cons op ops ih => simp only [run]; exact ih _ (step_inv s op h)

end HW.Response
