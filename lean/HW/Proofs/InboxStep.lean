import HW.Model.Inbox
/-!
Helper layer for the L1 inbox proofs:
* list lemmas about `countP` / `getElem?` under the only two ways `step` touches the thread list
  (`set t pc'`, optionally followed by `++ [.wLoad]`);
* `Step`, a relational presentation of `step` with one constructor per outcome, in the uniform shape
  "thread `t` moves from `pc` to `pc'`, the threads `extra` are spawned";
* `step_Step`: every successful `step` is a `Step`.
-/
namespace HW.Inbox

/-! ### list lemmas -/

theorem countP_set_add {l : List Pc} {t : Nat} {pc : Pc} (h : l[t]? = some pc) (p : Pc → Bool)
    (pc' : Pc) : (l.set t pc').countP p + (p pc).toNat = l.countP p + (p pc').toNat := by
  induction l generalizing t with
  | nil => simp at h
  | cons a l ih =>
    cases t with
    | zero =>
      simp at h; subst h
      simp only [List.set_cons_zero, List.countP_cons]
      cases p a <;> cases p pc' <;> simp
    | succ t =>
      simp at h
      have := ih h
      simp only [List.set_cons_succ, List.countP_cons]
      omega

theorem countP_step {l : List Pc} {t : Nat} {pc : Pc} (h : l[t]? = some pc) (p : Pc → Bool)
    (pc' : Pc) (extra : List Pc) :
    (l.set t pc' ++ extra).countP p + (p pc).toNat
      = l.countP p + (p pc').toNat + extra.countP p := by
  rw [List.countP_append]
  have := countP_set_add h p pc'
  omega

theorem toNat_le_countP {l : List Pc} {t : Nat} {pc : Pc} (h : l[t]? = some pc) (p : Pc → Bool) :
    (p pc).toNat ≤ l.countP p := by
  cases hp : p pc
  · simp
  · have : 0 < l.countP p := List.countP_pos_iff.2 ⟨pc, List.mem_of_getElem? h, hp⟩
    simpa using this

theorem exists_of_countP_pos {l : List Pc} {p : Pc → Bool} (h : 1 ≤ l.countP p) :
    ∃ (t : Nat) (pc : Pc), l[t]? = some pc ∧ p pc = true := by
  obtain ⟨a, ha, hpa⟩ := List.countP_pos_iff.1 h
  obtain ⟨t, ht⟩ := List.getElem?_of_mem ha
  exact ⟨t, a, ht, hpa⟩

theorem getElem?_step_self {l : List Pc} {t : Nat} {pc : Pc} (h : l[t]? = some pc) (pc' : Pc)
    (extra : List Pc) : (l.set t pc' ++ extra)[t]? = some pc' := by
  have hlt : t < l.length := by
    rcases Nat.lt_or_ge t l.length with h' | h'
    · exact h'
    · rw [List.getElem?_eq_none h'] at h; cases h
  rw [List.getElem?_append_left (by simpa using hlt)]
  simp [hlt]

theorem getElem?_step_ne {l : List Pc} {t j : Nat} {x : Pc} (hne : j ≠ t) (h : l[j]? = some x)
    (pc' : Pc) (extra : List Pc) : (l.set t pc' ++ extra)[j]? = some x := by
  have hlt : j < l.length := by
    rcases Nat.lt_or_ge j l.length with h' | h'
    · exact h'
    · rw [List.getElem?_eq_none h'] at h; cases h
  rw [List.getElem?_append_left (by simpa using hlt)]
  rw [List.getElem?_set_ne (Ne.symm hne)]
  exact h

theorem getElem?_step_inv {l : List Pc} {t j : Nat} {x pc' : Pc} {extra : List Pc}
    (h : (l.set t pc' ++ extra)[j]? = some x) (hx : x ≠ pc') (hex : x ∉ extra) :
    l[j]? = some x := by
  rcases Nat.lt_or_ge j l.length with hlt | hge
  · rw [List.getElem?_append_left (by simpa using hlt)] at h
    by_cases hjt : t = j
    · subst hjt
      simp [hlt] at h
      exact absurd h.symm hx
    · rwa [List.getElem?_set_ne hjt] at h
  · rw [List.getElem?_append_right (by simpa using hge)] at h
    exact absurd (List.mem_of_getElem? h) hex

theorem getElem?_set_cases {l : List Pc} {t j : Nat} {x pc' : Pc}
    (h : (l.set t pc')[j]? = some x) : (j = t ∧ x = pc') ∨ l[j]? = some x := by
  by_cases hjt : t = j
  · subst hjt
    rcases Nat.lt_or_ge t l.length with hlt | hge
    · simp [hlt] at h; exact Or.inl ⟨rfl, h.symm⟩
    · rw [List.getElem?_eq_none (by simpa using hge)] at h; cases h
  · rw [List.getElem?_set_ne hjt] at h; exact Or.inr h

theorem getElem?_set_append_cases {l : List Pc} {t j : Nat} {x pc' e : Pc}
    (h : (l.set t pc' ++ [e])[j]? = some x) : (j = t ∧ x = pc') ∨ x = e ∨ l[j]? = some x := by
  rcases Nat.lt_or_ge j l.length with hlt | hge
  · rw [List.getElem?_append_left (by simpa using hlt)] at h
    rcases getElem?_set_cases h with h | h
    · exact Or.inl h
    · exact Or.inr (Or.inr h)
  · rw [List.getElem?_append_right (by simpa using hge)] at h
    have := List.mem_of_getElem? h
    simp at this
    exact Or.inr (Or.inl this)

/-! ### `step` as a relation -/

/-- where a sender goes after its `schedule()` call. -/
def afterSched (ms : List Msg) : Pc := if ms = [] then .done else .sPush ms

/-- the three program points that call `schedule()`, with the pc that follows. -/
inductive SchedPc : Pc → Pc → Prop
  | sender (ms : List Msg) : SchedPc (.sSched ms) (afterSched ms)
  | worker : SchedPc .wSched .done
  | starter : SchedPc .stSched .done

/-- `Step B s t pc pc' extra s'`: thread `t`, at `pc`, takes one atomic step to `pc'`, spawning the
    threads `extra`, and the state becomes `s'`. -/
inductive Step (B : Nat) (s : St) (t : Nat) : Pc → Pc → List Pc → St → Prop
  | push (m : Msg) (ms : List Msg) : Step B s t (.sPush (m :: ms)) (.sSched ms) []
      { s with q := s.q ++ [m], pushed := s.pushed ++ [(t, m)], thr := s.thr.set t (.sSched ms) }
  | schedOk (pc pc' : Pc) : SchedPc pc pc' → s.status = .idle → Step B s t pc pc' [.wLoad]
      { s with status := .running, thr := s.thr.set t pc' ++ [.wLoad] }
  | schedFail (pc pc' : Pc) : SchedPc pc pc' → s.status ≠ .idle → Step B s t pc pc' []
      { s with thr := s.thr.set t pc' }
  | loadStopped : s.status = .stopped → Step B s t .wLoad .wCasIdle []
      { s with thr := s.thr.set t .wCasIdle }
  | loadLive : s.status ≠ .stopped → Step B s t .wLoad .wPop []
      { s with thr := s.thr.set t .wPop }
  | popEmpty : s.q = [] → Step B s t .wPop .wCasIdle []
      { s with thr := s.thr.set t .wCasIdle }
  | pop : s.q ≠ [] → Step B s t .wPop (.wInvoke (s.q.take B)) []
      { s with q := s.q.drop B, thr := s.thr.set t (.wInvoke (s.q.take B)) }
  | invoke (b : List Msg) : Step B s t (.wInvoke b) .wLoad []
      { s with delivered := s.delivered ++ b, thr := s.thr.set t .wLoad }
  | casOk : s.status = .running → Step B s t .wCasIdle .wLen []
      { s with status := .idle, thr := s.thr.set t .wLen }
  | casFail : s.status ≠ .running → Step B s t .wCasIdle .done []
      { s with thr := s.thr.set t .done }
  | lenEmpty : s.q = [] → Step B s t .wLen .done []
      { s with thr := s.thr.set t .done }
  | lenNonempty : s.q ≠ [] → Step B s t .wLen .wSched []
      { s with thr := s.thr.set t .wSched }
  | life : Step B s t .stLife .stCas []
      { s with thr := s.thr.set t .stCas }
  | stCasOk : s.status = .stopped → Step B s t .stCas .stSwap []
      { s with status := .starting,
               restartedAfterStop := s.restartedAfterStop || s.everStopped,
               thr := s.thr.set t .stSwap }
  | stCasFail : s.status ≠ .stopped → Step B s t .stCas .done []
      { s with thr := s.thr.set t .done }
  | swap : Step B s t .stSwap .stSched []
      { s with status := .idle, started := true, thr := s.thr.set t .stSched }
  | stop : Step B s t .stop .done []
      { s with status := .stopped, everStopped := true, thr := s.thr.set t .done }

theorem Step.thr_eq {B : Nat} {s s' : St} {t : Nat} {pc pc' : Pc} {extra : List Pc}
    (h : Step B s t pc pc' extra s') : s'.thr = s.thr.set t pc' ++ extra := by
  cases h <;> simp

theorem trySchedule_ok {s : St} (h : s.status = .idle) :
    trySchedule s = ({ s with status := .running, thr := s.thr ++ [.wLoad] }, true) := by
  simp [trySchedule, h]

theorem trySchedule_fail {s : St} (h : s.status ≠ .idle) : trySchedule s = (s, false) := by
  simp [trySchedule, h]

theorem sched_Step {B : Nat} {s s' : St} {t : Nat} {pc pc' : Pc} {ok : Bool}
    (hsp : SchedPc pc pc') (h : trySchedule (setPc s t pc') = (s', ok)) :
    ∃ extra, Step B s t pc pc' extra s' := by
  by_cases hst : s.status = .idle
  · rw [trySchedule_ok (by simpa [setPc] using hst)] at h
    injection h with h1 _
    subst h1
    exact ⟨_, Step.schedOk pc pc' hsp hst⟩
  · rw [trySchedule_fail (by simpa [setPc] using hst)] at h
    injection h with h1 _
    subst h1
    exact ⟨_, Step.schedFail pc pc' hsp hst⟩

theorem step_Step {B : Nat} {s s' : St} {t : Nat} {l : Label} (h : step B s t = some (s', l)) :
    ∃ pc pc' extra, s.thr[t]? = some pc ∧ Step B s t pc pc' extra s' := by
  unfold step at h
  split at h
  · cases h
  · rename_i pc hpc
    refine ⟨pc, ?_⟩
    split at h
    · cases h
    · cases h
    · cases h; exact ⟨_, _, hpc, Step.push _ _⟩
    · rename_i ms
      generalize hts : trySchedule _ = r at h
      obtain ⟨s1, ok⟩ := r
      cases h
      obtain ⟨extra, hs⟩ := sched_Step (B := B) (SchedPc.sender ms) hts
      exact ⟨_, _, hpc, hs⟩
    · cases h
      by_cases hst : s.status = .stopped
      · simp only [hst, if_true]; exact ⟨_, _, hpc, Step.loadStopped hst⟩
      · simp only [hst, if_false]; exact ⟨_, _, hpc, Step.loadLive hst⟩
    · split at h
      · rename_i hq; cases h; exact ⟨_, _, hpc, Step.popEmpty hq⟩
      · rename_i hq; cases h; exact ⟨_, _, hpc, Step.pop hq⟩
    · cases h; exact ⟨_, _, hpc, Step.invoke _⟩
    · split at h
      · rename_i hst; cases h; exact ⟨_, _, hpc, Step.casOk hst⟩
      · rename_i hst; cases h; exact ⟨_, _, hpc, Step.casFail hst⟩
    · cases h
      by_cases hq : s.q = []
      · simp only [hq, if_true]; exact ⟨_, _, hpc, Step.lenEmpty hq⟩
      · simp only [hq, if_false]; exact ⟨_, _, hpc, Step.lenNonempty hq⟩
    · generalize hts : trySchedule _ = r at h
      obtain ⟨s1, ok⟩ := r
      cases h
      obtain ⟨extra, hs⟩ := sched_Step (B := B) SchedPc.worker hts
      exact ⟨_, _, hpc, hs⟩
    · cases h; exact ⟨_, _, hpc, Step.life⟩
    · split at h
      · rename_i hst; cases h; exact ⟨_, _, hpc, Step.stCasOk hst⟩
      · rename_i hst; cases h; exact ⟨_, _, hpc, Step.stCasFail hst⟩
    · cases h; exact ⟨_, _, hpc, Step.swap⟩
    · generalize hts : trySchedule _ = r at h
      obtain ⟨s1, ok⟩ := r
      cases h
      obtain ⟨extra, hs⟩ := sched_Step (B := B) SchedPc.starter hts
      exact ⟨_, _, hpc, hs⟩
    · cases h; exact ⟨_, _, hpc, Step.stop⟩

end HW.Inbox
