import HW.Proofs.ClusterSys
/-! Helpers for `joiner_learns_all`: the topology outputs of `handleMembers`, the shape of `snapshot`,
    folding `addActivated` over a topology, and the invariant kept while the topologies are delivered. -/
namespace HW.Cluster

/-- the targets of the topology messages among the outputs. -/
def topoIds (out : List AgentOut) : List String :=
  out.filterMap fun o => match o with | .topology t _ => some t | _ => none

theorem topoIds_append (a b : List AgentOut) : topoIds (a ++ b) = topoIds a ++ topoIds b := by
  simp [topoIds, List.filterMap_append]

theorem join_activated (js : List Member) (st : AgentSt) :
    (runAll memberJoin st js).1.activated = st.activated := by
  induction js generalizing st with
  | nil => rfl
  | cons j t ih => rw [runAll_cons]; simp only [ih]; rfl

theorem join_topoIds (js : List Member) (st : AgentSt) :
    topoIds (runAll memberJoin st js).2 = if st.activated = [] then [] else ids js := by
  induction js generalizing st with
  | nil => simp [runAll, topoIds, ids]
  | cons j t ih =>
    rw [runAll_cons]; simp only [topoIds_append, ih]
    have : (memberJoin st j).1.activated = st.activated := rfl
    rw [this]
    simp only [memberJoin]
    by_cases h : st.activated = []
    · simp [h, topoIds]
    · simp [h, topoIds, ids]

theorem leave_topoIds (ls : List Member) (st : AgentSt) :
    topoIds (runAll memberLeave st ls).2 = [] := by
  induction ls generalizing st with
  | nil => rfl
  | cons l t ih =>
    rw [runAll_cons]; simp only [topoIds_append, ih]
    simp [memberLeave, topoIds]

theorem handle_topoIds (st : AgentSt) (snap : List Member) :
    topoIds (handleMembers st snap).2 =
      if st.activated = [] then [] else ids (except (mkSet snap) st.members) := by
  rw [handleMembers_eq]; simp only [topoIds_append, join_topoIds, leave_topoIds, List.append_nil]

theorem except_eq_nil {s t : List Member} (h : ∀ id ∈ ids s, id ∈ ids t) : except s t = [] := by
  unfold except
  rw [List.filter_eq_nil_iff]
  intro m hm
  have := hasId_iff.2 (h m.id (ids_of_mem hm))
  simp [this]

/-- nobody left: the activations are untouched. -/
theorem handle_activated (st : AgentSt) (snap : List Member) (h : ∀ id ∈ ids st.members, id ∈ ids snap) :
    (handleMembers st snap).1.activated = st.activated := by
  rw [handleMembers_eq, except_eq_nil h]
  simp only [runAll, join_activated]

end HW.Cluster

namespace HW.ClusterSys
open HW.Cluster

/-! ### getNode / setNode -/

theorem getNode_of_mem_nodup {s : Sys} {n : Node} (hnd : (s.nodes.map (·.id)).Nodup) (h : n ∈ s.nodes) :
    getNode s n.id = some n := by
  obtain ⟨n', hn'⟩ := getNode_of_mem h
  obtain ⟨hm, hid⟩ := getNode_some hn'
  rw [hn', nodup_ids_unique hnd hm h hid]

theorem mem_setNode_of_ne {s : Sys} {n y : Node} (hy : y ∈ s.nodes) (hne : y.id ≠ n.id) :
    y ∈ (setNode s n).nodes := by
  simp only [setNode, List.mem_map]
  exact ⟨y, hy, if_neg hne⟩

theorem mem_ids_nodes {l : List Node} {id : String} : id ∈ l.map (·.id) ↔ ∃ m ∈ l, m.id = id := by
  simp [List.mem_map]

/-! ### the shape of `snapshot` when no topology is addressed to the node itself -/

/-- what `snapshot` does with one output of `handleMembers`. -/
def topoStep (nid : String) (note : Note) (s : Sys) (o : AgentOut) : Sys :=
  match o with
  | .topology toId _ =>
    if toId = nid then
      (match getNode s nid with | some self => handleNote s self note | none => s)
    else { s with pool := s.pool ++ [(toId, note)] }
  | _ => s

theorem snapshot_eq {s : Sys} {nid : String} {n : Node} (snap : List Member) (hn : getNode s nid = some n) :
    snapshot s nid snap =
      (handleMembers n.agent snap).2.foldl (topoStep nid (Note.topology (n.agent.activated.map (·.2))))
        (setNode s { n with agent := (handleMembers n.agent snap).1 }) := by
  unfold snapshot
  rw [hn]
  rfl

theorem topoStep_fold (nid : String) (note : Note) (outs : List AgentOut) (s : Sys)
    (ht : ∀ t ∈ topoIds outs, t ≠ nid) :
    (outs.foldl (topoStep nid note) s).nodes = s.nodes ∧
    (outs.foldl (topoStep nid note) s).pool = s.pool ++ (topoIds outs).map (fun t => (t, note)) ∧
    (outs.foldl (topoStep nid note) s).log = s.log := by
  induction outs generalizing s with
  | nil => simp [topoIds]
  | cons o os ih =>
    rw [List.foldl_cons]
    cases o with
    | topology t l =>
      have hne : t ≠ nid := ht t (by simp [topoIds])
      have hs : topoStep nid note s (.topology t l) = { s with pool := s.pool ++ [(t, note)] } := by
        simp [topoStep, hne]
      obtain ⟨h1, h2, h3⟩ := ih { s with pool := s.pool ++ [(t, note)] }
        (fun t' ht' => ht t' (by simp only [topoIds, List.filterMap_cons] at ht' ⊢; exact List.mem_cons_of_mem _ ht'))
      rw [hs, h1, h2, h3]
      simp [topoIds]
    | join id =>
      have hs : topoStep nid note s (.join id) = s := rfl
      rw [hs]
      exact ih s (fun t' ht' => ht t' (by simpa [topoIds] using ht'))
    | leave id =>
      have hs : topoStep nid note s (.leave id) = s := rfl
      rw [hs]
      exact ih s (fun t' ht' => ht t' (by simpa [topoIds] using ht'))

theorem snapshot_spec {s : Sys} {nid : String} {n : Node} (snap : List Member)
    (hn : getNode s nid = some n)
    (ht : ∀ t ∈ topoIds (handleMembers n.agent snap).2, t ≠ nid) :
    (snapshot s nid snap).nodes = (setNode s { n with agent := (handleMembers n.agent snap).1 }).nodes ∧
    (snapshot s nid snap).pool = s.pool ++ (topoIds (handleMembers n.agent snap).2).map
      (fun t => (t, Note.topology (n.agent.activated.map (·.2)))) := by
  rw [snapshot_eq snap hn]
  obtain ⟨h1, h2, _⟩ := topoStep_fold nid (Note.topology (n.agent.activated.map (·.2)))
    (handleMembers n.agent snap).2 (setNode s { n with agent := (handleMembers n.agent snap).1 }) ht
  exact ⟨h1, h2⟩

/-! ### folding `addActivated` over a topology -/

theorem fold_addActivated_members (pids : List Pid) (a : AgentSt) :
    (pids.foldl addActivated a).members = a.members := by
  induction pids generalizing a with
  | nil => rfl
  | cons p ps ih => rw [List.foldl_cons, ih, addActivated_members]

theorem fold_addActivated_keys (pids : List Pid) (a : AgentSt) (h : ∀ e ∈ a.activated, e.1 = e.2.2) :
    ∀ e ∈ (pids.foldl addActivated a).activated, e.1 = e.2.2 := by
  induction pids generalizing a with
  | nil => exact h
  | cons p ps ih => rw [List.foldl_cons]; exact ih _ (addActivated_keys a p h)

/-- a topology built from a well-keyed table `A` fills exactly the gaps of the receiver's table:
    known ids keep their entry, unknown ones get the first entry of `A`. -/
theorem fold_addActivated_find (A : List (String × Pid)) (hA : ∀ e ∈ A, e.1 = e.2.2) (a : AgentSt)
    (k : String) :
    ((A.map (·.2)).foldl addActivated a).activated.find? (·.1 = k) =
      (a.activated.find? (·.1 = k)).or (A.find? (·.1 = k)) := by
  induction A generalizing a with
  | nil => simp
  | cons e A ih =>
    have he : e.1 = e.2.2 := hA e (by simp)
    rw [List.map_cons, List.foldl_cons, ih (fun e' he' => hA e' (List.mem_cons_of_mem _ he'))]
    by_cases hk : k = e.2.2
    · subst hk
      cases hf : a.activated.find? (·.1 = e.2.2) with
      | some v => rw [addActivated_find_known a e.2 v hf]; rfl
      | none =>
        rw [addActivated_find_new a e.2 hf]
        have : e = (e.2.2, e.2) := by rw [← he]
        simp [he, ← this]
    · rw [addActivated_find_other a e.2 k hk]
      have : decide (e.1 = k) = false := by rw [he]; simpa using fun h => hk h.symm
      simp [this]

/-! ### delivering the topologies to the joiner -/

/-- invariant while the topologies for the joiner `xid` are in flight; `G` is how the old members
    resolve ids. -/
structure JInv (xid : String) (G : String → Option Pid) (s : Sys) : Prop where
  struct : Struct s
  keys : ∀ n ∈ s.nodes, ∀ a ∈ n.agent.activated, a.1 = a.2.2
  old : ∀ y ∈ s.nodes, y.id ≠ xid → ∀ k, getActiveByID y k = G k
  poolOK : ∀ e ∈ s.pool, e.1 = xid ∧ ∃ A : List (String × Pid), e.2 = .topology (A.map (·.2)) ∧
    (∀ a ∈ A, a.1 = a.2.2) ∧ ∀ k, (A.find? (·.1 = k)).map (·.2) = G k
  joiner : ∀ y ∈ s.nodes, y.id = xid →
    (∀ k, getActiveByID y k = G k) ∨ ((∀ k, getActiveByID y k = none) ∧ s.pool ≠ [])
  xin : ∃ y ∈ s.nodes, y.id = xid

theorem jinv_deliver {xid : String} {G : String → Option Pid} {s : Sys} {i : Nat} (hi : JInv xid G s)
    (hlt : i < s.pool.length) :
    JInv xid G (deliver s i) ∧ (deliver s i).pool.length + 1 = s.pool.length ∧
    ∀ y ∈ (deliver s i).nodes, ∀ k, getActiveByID y k = G k := by
  have hget : s.pool[i]? = some s.pool[i] := List.getElem?_eq_getElem hlt
  have hlen : (s.pool.eraseIdx i).length + 1 = s.pool.length := by
    rw [List.length_eraseIdx, if_pos hlt]; omega
  obtain ⟨htgt, A, hnote, hA, hAG⟩ := hi.poolOK _ (List.getElem_mem hlt)
  obtain ⟨x, hx, hxid⟩ := hi.xin
  have hgx : getNode { s with pool := s.pool.eraseIdx i } xid = some x := by
    have := getNode_of_mem_nodup (s := s) hi.struct.1 hx
    rw [hxid] at this; exact this
  unfold deliver
  rw [hget]
  rcases hte : s.pool[i] with ⟨target, nt⟩
  rw [hte] at htgt hnote
  simp only at htgt hnote ⊢
  have htgt' := htgt.symm
  subst htgt' hnote
  rw [hgx]
  simp only [handleNote]
  -- the joiner after the delivery
  have hxG : ∀ k, getActiveByID { x with agent := (A.map (·.2)).foldl addActivated x.agent } k = G k := by
    intro k
    simp only [getActiveByID]
    rw [fold_addActivated_find A hA]
    rcases hi.joiner x hx hxid with h | ⟨h, _⟩
    · have h1 := h k
      have h2 := hAG k
      simp only [getActiveByID] at h1
      cases hf : x.agent.activated.find? (·.1 = k) with
      | some v => rw [hf] at h1; simpa using h1
      | none =>
        rw [hf] at h1
        simp only [Option.map_none] at h1
        rw [← h1] at h2
        simp only [Option.none_or]
        rw [h2, h1]
    · have h1 := getActiveByID_none.mp (h k)
      rw [h1]
      simpa using hAG k
  have hmem : ∀ y ∈ (setNode { s with pool := s.pool.eraseIdx i }
      { x with agent := (A.map (·.2)).foldl addActivated x.agent }).nodes,
      y = { x with agent := (A.map (·.2)).foldl addActivated x.agent } ∨ (y ∈ s.nodes ∧ y.id ≠ xid) := by
    intro y hy
    rcases mem_setNode hy with h | ⟨h1, h2⟩
    · exact Or.inl h
    · exact Or.inr ⟨h1, by rw [← hxid]; exact h2⟩
  refine ⟨⟨?_, ?_, ?_, ?_, ?_, ?_⟩, hlen, ?_⟩
  · exact struct_of_skel (s := s) (skel_setNode (s := { s with pool := s.pool.eraseIdx i }) hi.struct.1 hx rfl
      (fold_addActivated_members _ _)) hi.struct
  · intro y hy
    rcases hmem y hy with rfl | ⟨hy', _⟩
    · exact fold_addActivated_keys _ _ (hi.keys x hx)
    · exact hi.keys y hy'
  · intro y hy hne
    rcases hmem y hy with rfl | ⟨hy', _⟩
    · exact absurd hxid hne
    · exact hi.old y hy' hne
  · intro e he
    exact hi.poolOK e (mem_of_mem_eraseIdx' he)
  · intro y hy hid
    rcases hmem y hy with rfl | ⟨_, hne⟩
    · exact Or.inl hxG
    · exact absurd hid hne
  · exact ⟨_, List.mem_map.mpr ⟨x, hx, if_pos rfl⟩, hxid⟩
  · intro y hy k
    rcases hmem y hy with rfl | ⟨hy', hne⟩
    · exact hxG k
    · exact hi.old y hy' hne k

theorem jinv_drain {xid : String} {G : String → Option Pid} (order : List Nat) {s : Sys}
    (hi : JInv xid G s) (hlen : s.pool.length ≤ order.length) :
    JInv xid G (drain s order) ∧ (drain s order).pool = [] := by
  induction order generalizing s with
  | nil => exact ⟨hi, by simpa [drain] using hlen⟩
  | cons i is ih =>
    unfold drain
    by_cases h0 : s.pool.length = 0
    · have : deliver s 0 = s := by
        unfold deliver
        rw [List.eq_nil_of_length_eq_zero h0]; rfl
      rw [if_pos h0, this]
      exact ih hi (by omega)
    · rw [if_neg h0]
      have hlt : i % s.pool.length < s.pool.length := Nat.mod_lt _ (by omega)
      obtain ⟨hi', hl', _⟩ := jinv_deliver hi hlt
      exact ih hi' (by simp at hlen; omega)

/-- once the pool is empty the cluster is consistent and everybody resolves ids like `G`. -/
theorem jinv_consistent {xid : String} {G : String → Option Pid} {s : Sys} (hi : JInv xid G s)
    (hp : s.pool = []) : Consistent s ∧ ∀ y ∈ s.nodes, ∀ k, getActiveByID y k = G k := by
  have hall : ∀ y ∈ s.nodes, ∀ k, getActiveByID y k = G k := by
    intro y hy k
    by_cases hid : y.id = xid
    · rcases hi.joiner y hy hid with h | ⟨_, h⟩
      · exact h k
      · exact absurd hp h
    · exact hi.old y hy hid k
  refine ⟨⟨hp, hi.struct.1, hi.struct.2.1, hi.struct.2.2, ?_, hi.keys⟩, hall⟩
  intro n hn m hm k
  rw [hall n hn k, hall m hm k]

end HW.ClusterSys
