import HW.Proofs.InboxStep
/-!
The inductive invariant `Inv` of the L1 inbox model (Appendix A: I1–I6, J), phrased with thread
*counts* so that every preservation case is linear arithmetic over a handful of atoms.
-/
namespace HW.Inbox

/-! ### thread classes -/

/-- active worker that is not inside Invoke: `wLoad`, `wPop`, `wCasIdle`. -/
def activeNI : Pc → Bool
  | .wLoad => true
  | .wPop => true
  | .wCasIdle => true
  | _ => false

def isInvoke : Pc → Bool
  | .wInvoke _ => true
  | _ => false

/-- starter before its CAS(stopped,starting) has been attempted. -/
def preCas : Pc → Bool
  | .stLife => true
  | .stCas => true
  | _ => false

def atSwap : Pc → Bool
  | .stSwap => true
  | _ => false

/-- a thread that is still going to call `schedule()` (or `Len()` and then `schedule()`). -/
def waker : Pc → Bool
  | .sSched _ => true
  | .wLen => true
  | .wSched => true
  | .stSched => true
  | _ => false

@[simp] theorem activeNI_afterSched (ms : List Msg) : activeNI (afterSched ms) = false := by
  unfold afterSched; split <;> rfl
@[simp] theorem isInvoke_afterSched (ms : List Msg) : isInvoke (afterSched ms) = false := by
  unfold afterSched; split <;> rfl
@[simp] theorem preCas_afterSched (ms : List Msg) : preCas (afterSched ms) = false := by
  unfold afterSched; split <;> rfl
@[simp] theorem atSwap_afterSched (ms : List Msg) : atSwap (afterSched ms) = false := by
  unfold afterSched; split <;> rfl
@[simp] theorem waker_afterSched (ms : List Msg) : waker (afterSched ms) = false := by
  unfold afterSched; split <;> rfl

theorem SchedPc.classes {pc pc' : Pc} (h : SchedPc pc pc') :
    activeNI pc = false ∧ isInvoke pc = false ∧ preCas pc = false ∧ atSwap pc = false ∧
    waker pc = true ∧
    activeNI pc' = false ∧ isInvoke pc' = false ∧ preCas pc' = false ∧ atSwap pc' = false ∧
    waker pc' = false := by
  cases h
  · exact ⟨rfl, rfl, rfl, rfl, rfl, by simp⟩
  all_goals decide

/-! ### the invariant -/

structure Inv (s : St) : Prop where
  r_e : s.restartedAfterStop = true → s.everStopped = true
  e_started : s.started = true → s.thr.countP preCas + s.thr.countP atSwap = 0
  e_unstarted : s.started = false → s.thr.countP preCas + s.thr.countP atSwap = 1
  pre_stopped : 1 ≤ s.thr.countP preCas → s.status = .stopped
  unstarted : s.started = false →
    s.thr.countP activeNI + s.thr.countP isInvoke = 0 ∧ s.status ≠ .idle ∧ s.status ≠ .running
  n1 : s.restartedAfterStop = false → s.thr.countP activeNI + s.thr.countP isInvoke ≤ 1
  n2 : s.restartedAfterStop = false → s.status = .running →
    s.thr.countP activeNI + s.thr.countP isInvoke = 1
  n3 : s.restartedAfterStop = false → s.status = .idle ∨ s.status = .starting →
    s.thr.countP activeNI + s.thr.countP isInvoke = 0
  i5 : s.started = true → s.everStopped = false → s.status = .idle ∨ s.status = .running
  j : s.started = true → s.everStopped = false → s.q ≠ [] →
    s.status = .running ∨ 1 ≤ s.thr.countP waker
  c0 : s.restartedAfterStop = false → s.thr.countP isInvoke = 0 →
    s.delivered ++ s.q = s.pushed.map (·.2)
  c1 : s.restartedAfterStop = false → ∀ (t : Nat) (b : List Msg),
    s.thr[t]? = some (.wInvoke b) → s.delivered ++ b ++ s.q = s.pushed.map (·.2)

theorem Inv.step {B : Nat} {s s' : St} {t : Nat} {pc pc' : Pc} {extra : List Pc}
    (inv : Inv s) (hpc : s.thr[t]? = some pc) (h : Step B s t pc pc' extra s') : Inv s' := by
  have hthr := h.thr_eq
  have cA : s'.thr.countP activeNI + (activeNI pc).toNat
      = s.thr.countP activeNI + (activeNI pc').toNat + extra.countP activeNI := by
    rw [hthr]; exact countP_step hpc _ _ _
  have cI : s'.thr.countP isInvoke + (isInvoke pc).toNat
      = s.thr.countP isInvoke + (isInvoke pc').toNat + extra.countP isInvoke := by
    rw [hthr]; exact countP_step hpc _ _ _
  have cP : s'.thr.countP preCas + (preCas pc).toNat
      = s.thr.countP preCas + (preCas pc').toNat + extra.countP preCas := by
    rw [hthr]; exact countP_step hpc _ _ _
  have cS : s'.thr.countP atSwap + (atSwap pc).toNat
      = s.thr.countP atSwap + (atSwap pc').toNat + extra.countP atSwap := by
    rw [hthr]; exact countP_step hpc _ _ _
  have cW : s'.thr.countP waker + (waker pc).toNat
      = s.thr.countP waker + (waker pc').toNat + extra.countP waker := by
    rw [hthr]; exact countP_step hpc _ _ _
  have gA := toNat_le_countP hpc activeNI
  have gI := toNat_le_countP hpc isInvoke
  have gP := toNat_le_countP hpc preCas
  have gS := toNat_le_countP hpc atSwap
  have gW := toNat_le_countP hpc waker
  have hE : s.thr.countP preCas + s.thr.countP atSwap ≤ 1 := by
    cases hs : s.started
    · have := inv.e_unstarted hs; omega
    · have := inv.e_started hs; omega
  obtain ⟨r_e, e_started, e_unstarted, pre_stopped, unstarted, n1, n2, n3, i5, j, c0, c1⟩ := inv
  clear hthr
  cases h
  case schedOk hst hsp =>
    obtain ⟨a1, a2, a3, a4, a5, a6, a7, a8, a9, a10⟩ := hsp.classes
    simp only [a1, a2, a3, a4, a5, a6, a7, a8, a9, a10, Bool.toNat_true, Bool.toNat_false, show List.countP activeNI [Pc.wLoad] = 1 from rfl,
      show List.countP isInvoke [Pc.wLoad] = 0 from rfl, show List.countP preCas [Pc.wLoad] = 0 from rfl,
      show List.countP atSwap [Pc.wLoad] = 0 from rfl, show List.countP waker [Pc.wLoad] = 0 from rfl]
      at cA cI cP cS cW gA gI gP gS gW
    constructor <;> dsimp only
    case c1 =>
      intro hr t' b hb
      rcases getElem?_set_append_cases hb with ⟨_, h⟩ | h | h
      · rw [← h] at a7; simp [isInvoke] at a7
      · cases h
      · exact c1 hr t' b h
    all_goals grind
  case schedFail hst hsp =>
    obtain ⟨a1, a2, a3, a4, a5, a6, a7, a8, a9, a10⟩ := hsp.classes
    simp only [a1, a2, a3, a4, a5, a6, a7, a8, a9, a10, Bool.toNat_true, Bool.toNat_false,
      List.countP_nil] at cA cI cP cS cW gA gI gP gS gW
    constructor <;> dsimp only
    case c1 =>
      intro hr t' b hb
      rcases getElem?_set_cases hb with ⟨_, h⟩ | h
      · rw [← h] at a7; simp [isInvoke] at a7
      · exact c1 hr t' b h
    all_goals grind
  case pop hq =>
    simp [activeNI, isInvoke, preCas, atSwap, waker] at cA cI cP cS cW gA gI gP gS gW
    constructor <;> dsimp only
    case c1 =>
      intro hr t' b hb
      have hI0 : s.thr.countP isInvoke = 0 := by have := n1 hr; omega
      rcases getElem?_set_cases hb with ⟨_, h⟩ | h
      · cases h
        have := c0 hr hI0
        rw [List.append_assoc, List.take_append_drop]; exact this
      · have : 1 ≤ s.thr.countP isInvoke := toNat_le_countP h isInvoke
        omega
    all_goals grind
  case invoke b =>
    simp [activeNI, isInvoke, preCas, atSwap, waker] at cA cI cP cS cW gA gI gP gS gW
    constructor <;> dsimp only
    case c1 =>
      intro hr t' b' hb
      have : 1 ≤ (s.thr.set t .wLoad).countP isInvoke := toNat_le_countP hb isInvoke
      have := n1 hr; omega
    all_goals grind
  all_goals
    simp [activeNI, isInvoke, preCas, atSwap, waker] at cA cI cP cS cW gA gI gP gS gW
    constructor <;> dsimp only
    all_goals grind

/-! ### the initial configuration -/

theorem init_countP (senders : List (List Msg)) (nStop : Nat) (p : Pc → Bool)
    (h1 : ∀ ms, p (.sPush ms) = false) (h2 : p .stop = false) :
    (init senders nStop).thr.countP p = (p .stLife).toNat := by
  have e1 : (senders.map Pc.sPush).countP p = 0 := by
    rw [List.countP_eq_zero]
    intro a ha
    obtain ⟨ms, _, rfl⟩ := List.mem_map.1 ha
    simp [h1]
  have e2 : (List.replicate nStop Pc.stop).countP p = 0 := by
    rw [List.countP_eq_zero]
    intro a ha
    obtain ⟨_, rfl⟩ := List.mem_replicate.1 ha
    simp [h2]
  show ([Pc.stLife] ++ senders.map Pc.sPush ++ List.replicate nStop Pc.stop).countP p = _
  rw [List.countP_append, List.countP_append, e1, e2]
  cases hp : p .stLife <;> simp [hp]

theorem inv_init (senders : List (List Msg)) (nStop : Nat) : Inv (init senders nStop) := by
  have cA : (init senders nStop).thr.countP activeNI = 0 := init_countP _ _ _ (fun _ => rfl) rfl
  have cI : (init senders nStop).thr.countP isInvoke = 0 := init_countP _ _ _ (fun _ => rfl) rfl
  have cP : (init senders nStop).thr.countP preCas = 1 := init_countP _ _ _ (fun _ => rfl) rfl
  have cS : (init senders nStop).thr.countP atSwap = 0 := init_countP _ _ _ (fun _ => rfl) rfl
  have h1 : (init senders nStop).status = .stopped := rfl
  have h2 : (init senders nStop).q = [] := rfl
  have h3 : (init senders nStop).pushed = [] := rfl
  have h4 : (init senders nStop).delivered = [] := rfl
  have h5 : (init senders nStop).started = false := rfl
  have h6 : (init senders nStop).everStopped = false := rfl
  have h7 : (init senders nStop).restartedAfterStop = false := rfl
  constructor
  case c1 =>
    intro _ t b hb
    have : 1 ≤ (init senders nStop).thr.countP isInvoke := toNat_le_countP hb isInvoke
    omega
  all_goals simp [cA, cI, cP, cS, h1, h2, h3, h4, h5, h6, h7]

/-! ### lifting over schedules -/

theorem Inv.run {B : Nat} {s : St} (inv : Inv s) (sched : List Nat) : Inv (runSched B s sched) := by
  induction sched generalizing s with
  | nil => exact inv
  | cons t ts ih =>
    unfold runSched
    split
    · exact ih inv
    · rename_i s' l hs
      obtain ⟨pc, pc', extra, hpc, hS⟩ := step_Step hs
      exact ih (inv.step hpc hS)

theorem Inv.reachable {B : Nat} {senders : List (List Msg)} {nStop : Nat} {s : St}
    (hr : Reachable B senders nStop s) : Inv s := by
  obtain ⟨sched, rfl⟩ := hr
  exact (inv_init senders nStop).run sched

/-! ### program order -/

def ProgOrd (senders : List (List Msg)) (s : St) : Prop :=
  ∀ (i : Nat) (prog : List Msg), senders[i]? = some prog →
    ∃ rest, sentBy s (i + 1) ++ rest = prog ∧
      (s.thr[i + 1]? = some (Pc.sPush rest) ∨ s.thr[i + 1]? = some (Pc.sSched rest) ∨
       (rest = [] ∧ s.thr[i + 1]? = some Pc.done))

theorem progOrd_init (senders : List (List Msg)) (nStop : Nat) :
    ProgOrd senders (init senders nStop) := by
  intro i prog hi
  refine ⟨prog, by simp [sentBy, init], Or.inl ?_⟩
  have hlt : i < senders.length := by
    rcases Nat.lt_or_ge i senders.length with h | h
    · exact h
    · rw [List.getElem?_eq_none h] at hi; cases hi
  show ([Pc.stLife] ++ senders.map Pc.sPush ++ List.replicate nStop Pc.stop)[i + 1]? = _
  rw [List.append_assoc, List.singleton_append, List.getElem?_cons_succ,
    List.getElem?_append_left (by simpa using hlt), List.getElem?_map, hi]
  rfl

theorem sentBy_step {B : Nat} {s s' : St} {t j : Nat} {pc pc' : Pc} {extra : List Pc}
    (h : Step B s t pc pc' extra s') (hne : j ≠ t) : sentBy s' j = sentBy s j := by
  cases h <;> simp [sentBy, List.filter_append, Ne.symm hne]

theorem ProgOrd.step {B : Nat} {senders : List (List Msg)} {s s' : St} {t : Nat} {pc pc' : Pc}
    {extra : List Pc} (po : ProgOrd senders s) (hpc : s.thr[t]? = some pc)
    (h : Step B s t pc pc' extra s') : ProgOrd senders s' := by
  intro i prog hi
  obtain ⟨rest, hrest, hthr⟩ := po i prog hi
  have hthr' := h.thr_eq
  by_cases hit : i + 1 = t
  · subst hit
    rw [hpc] at hthr
    have hself : s'.thr[i + 1]? = some pc' := by rw [hthr']; exact getElem?_step_self hpc _ _
    cases h
    case push m ms =>
      have hr : rest = m :: ms := by simpa [eq_comm] using hthr
      subst hr
      refine ⟨ms, ?_, Or.inr (Or.inl hself)⟩
      simpa [sentBy, List.filter_append] using hrest
    case schedOk hst hsp =>
      cases hsp
      case sender ms =>
        have hr : rest = ms := by simpa [eq_comm] using hthr
        subst hr
        refine ⟨rest, hrest, ?_⟩
        by_cases hm : rest = []
        · exact Or.inr (Or.inr ⟨hm, by simpa [afterSched, hm] using hself⟩)
        · exact Or.inl (by simpa [afterSched, hm] using hself)
      all_goals simp at hthr
    case schedFail hst hsp =>
      cases hsp
      case sender ms =>
        have hr : rest = ms := by simpa [eq_comm] using hthr
        subst hr
        refine ⟨rest, hrest, ?_⟩
        by_cases hm : rest = []
        · exact Or.inr (Or.inr ⟨hm, by simpa [afterSched, hm] using hself⟩)
        · exact Or.inl (by simpa [afterSched, hm] using hself)
      all_goals simp at hthr
    all_goals simp at hthr
  · have hsent : sentBy s' (i + 1) = sentBy s (i + 1) := sentBy_step h hit
    have hget : ∀ x, s.thr[i + 1]? = some x → s'.thr[i + 1]? = some x := fun x hx => by
      rw [hthr']; exact getElem?_step_ne hit hx _ _
    refine ⟨rest, by rw [hsent]; exact hrest, ?_⟩
    rcases hthr with h1 | h1 | ⟨h0, h1⟩
    · exact Or.inl (hget _ h1)
    · exact Or.inr (Or.inl (hget _ h1))
    · exact Or.inr (Or.inr ⟨h0, hget _ h1⟩)

theorem ProgOrd.run {B : Nat} {senders : List (List Msg)} {s : St} (po : ProgOrd senders s)
    (sched : List Nat) : ProgOrd senders (runSched B s sched) := by
  induction sched generalizing s with
  | nil => exact po
  | cons t ts ih =>
    unfold runSched
    split
    · exact ih po
    · rename_i s' l hs
      obtain ⟨pc, pc', extra, hpc, hS⟩ := step_Step hs
      exact ih (po.step hpc hS)

theorem ProgOrd.reachable {B : Nat} {senders : List (List Msg)} {nStop : Nat} {s : St}
    (hr : Reachable B senders nStop s) : ProgOrd senders s := by
  obtain ⟨sched, rfl⟩ := hr
  exact (progOrd_init senders nStop).run sched

end HW.Inbox
