/-
Replay accounting: the user deliveries made by `start` / `invoke` / `tryRestart` are a prefix of what
they were given (the buffer, resp. the batch), and all of it if the process survives with fuel left.
-/
import HW.Proofs.ProcFrame
namespace HW.Proc

@[simp] theorem userRecvs_stAEvs (s : PSt) : userRecvs (stAEvs s) = [] := rfl
@[simp] theorem userRecvs_stBEvs (s : PSt) : userRecvs (stBEvs s) = [] := rfl
@[simp] theorem userRecvs_stCEvs (s : PSt) : userRecvs (stCEvs s) = [] := rfl
@[simp] theorem userRecvs_trBEvs (s : PSt) : userRecvs (trBEvs s) = [] := rfl
@[simp] theorem userRecvs_stEndEvs (s : PSt) : userRecvs (stEndEvs s) = [] := by
  unfold stEndEvs; split <;> rfl
@[simp] theorem userRecvs_cleanupEvs (s : PSt) (c) : userRecvs (cleanupEvs s c) = [] := by
  cases c <;> rfl
@[simp] theorem userRecvs_cons_init (a b c tr) : userRecvs (.recv a .initialized b c :: tr) = userRecvs tr := rfl
@[simp] theorem userRecvs_cons_started (a b c tr) : userRecvs (.recv a .started b c :: tr) = userRecvs tr := rfl
@[simp] theorem userRecvs_cons_stopped (a b c tr) : userRecvs (.recv a .stopped b c :: tr) = userRecvs tr := rfl
@[simp] theorem userRecvs_cons_user (a k snd b c tr) :
    userRecvs (.recv a (.user k snd) b c :: tr) = (k, snd) :: userRecvs tr := rfl
@[simp] theorem userRecvs_cons_ev (k tr) : userRecvs (.ev k :: tr) = userRecvs tr := rfl
@[simp] theorem userRecvs_cons_producer (k tr) : userRecvs (.producer k :: tr) = userRecvs tr := rfl
@[simp] theorem userRecvs_cons_cancel (k tr) : userRecvs (.cancel k :: tr) = userRecvs tr := rfl
@[simp] theorem userRecvs_cons_inboxStop (tr) : userRecvs (.inboxStop :: tr) = userRecvs tr := rfl
@[simp] theorem userRecvs_cons_inboxStart (k tr) : userRecvs (.inboxStart k :: tr) = userRecvs tr := rfl
@[simp] theorem userRecvs_cons_unregister (tr) : userRecvs (.unregister :: tr) = userRecvs tr := rfl

/-- replay accounting of a run from `s` to `r` that was given `msgs`. -/
def RP (s : PSt) (msgs : List Msg) (r : PSt) : Prop :=
  ∃ D, userRecvs r.trace = userRecvs s.trace ++ D ∧ D <+: usersOf msgs ∧
    (r.stopped = false → r.fuelOut = false → D = usersOf msgs)

theorem RP.nil {s r : PSt} {msgs : List Msg} (h : userRecvs r.trace = userRecvs s.trace)
    (hd : r.stopped = true ∨ r.fuelOut = true ∨ usersOf msgs = []) : RP s msgs r := by
  refine ⟨[], by simp [h], List.nil_prefix, ?_⟩
  intro h1 h2
  rcases hd with hd | hd | hd
  · rw [hd] at h1; cases h1
  · rw [hd] at h2; cases h2
  · exact hd.symm

theorem RP.pre {s s' r : PSt} {msgs : List Msg} (h : RP s' msgs r)
    (ht : userRecvs s'.trace = userRecvs s.trace) : RP s msgs r := by
  obtain ⟨D, h1, h2, h3⟩ := h
  exact ⟨D, by rw [h1, ht], h2, h3⟩

theorem RP.post {s r r' : PSt} {msgs : List Msg} (h : RP s msgs r)
    (ht : userRecvs r'.trace = userRecvs r.trace) (hs : r'.stopped = r.stopped)
    (hf : r'.fuelOut = r.fuelOut) : RP s msgs r' := by
  obtain ⟨D, h1, h2, h3⟩ := h
  exact ⟨D, by rw [ht, h1], h2, by rw [hs, hf]; exact h3⟩

theorem RP.step {s s' r : PSt} {msgs buf : List Msg} {D0 : List (Nat × Option Nat)}
    (h : RP s' buf r) (ht : userRecvs s'.trace = userRecvs s.trace ++ D0)
    (hm : usersOf msgs = D0 ++ usersOf buf) : RP s msgs r := by
  obtain ⟨D, h1, h2, h3⟩ := h
  refine ⟨D0 ++ D, by rw [h1, ht, List.append_assoc], ?_, ?_⟩
  · rw [hm]; exact (List.prefix_append_right_inj D0).mpr h2
  · intro a b; rw [hm, h3 a b]

theorem replay_all : ∀ f s, RP s s.mbuffer (start f s).1 ∧ (∀ msgs, RP s msgs (invoke f s msgs).1) ∧
    (∀ v, RP s s.mbuffer (tryRestart f s v).1) := by
  apply proc_ind2 (S := fun _ s r => RP s s.mbuffer r) (I := fun _ s msgs r => RP s msgs r)
    (T := fun _ s _ r => RP s s.mbuffer r)
  · intro s; exact RP.nil rfl (by simp)
  · intro s msgs; exact RP.nil rfl (by simp)
  · intro s v; exact RP.nil rfl (by simp)
  · intro f s v r _ h
    simp only [callRecv_mbuffer, stA_mbuffer] at h
    exact h.pre (by simp)
  · intro f s v r _ _ h
    simp only [callRecv_mbuffer, stB_mbuffer] at h
    exact h.pre (by simp)
  · intro f s _ _ hb
    exact RP.nil (by simp) (by simp [hb])
  · intro f s r _ _ _ h
    exact (h.pre (by simp)).post (by simp) (by simp) (by simp)
  · intro f s msgs scr _ _
    exact ⟨usersOf msgs, by simp, List.prefix_refl _, fun _ _ => rfl⟩
  · intro f s pre id g post scr _ _
    refine ⟨usersOf pre ++ if g then usersOf post else [], by simp, ?_, by simp⟩
    cases g <;> simp
  · intro f s pre k snd buf scr v r _ _ h
    exact RP.step (D0 := usersOf pre ++ [(k, snd)]) h (by simp) (by simp)
  · intro f s pre id post k snd rest scr v r _ _ h
    exact RP.step (D0 := usersOf pre ++ (usersOf post ++ [(k, snd)])) h (by simp) (by simp)
  · intro f s r h
    simp only [trA_mbuffer] at h
    exact h.pre (by simp)
  · intro f s _
    exact RP.nil (by simp) (by simp)
  · intro f s r _ h
    simp only [trB_mbuffer] at h
    exact h.pre (by simp)

theorem replay_start (f s) : RP s s.mbuffer (start f s).1 := (replay_all f s).1
theorem replay_invoke (f s msgs) : RP s msgs (invoke f s msgs).1 := (replay_all f s).2.1 msgs

theorem runBatches_closed (fuel : Nat) (s : PSt) (bs : List (List Msg)) (h : s.inboxOpen = false) :
    runBatches fuel s bs = (s, none) := by
  cases bs with
  | nil => rfl
  | cons b bs => rw [runBatches_cons]; simp [h]

theorem replay_runBatches (fuel : Nat) (bs : List (List Msg)) : ∀ s,
    (runBatches fuel s bs).1.fuelOut = false → (s.inboxOpen = true → s.stopped = false) →
    ∃ D, userRecvs (runBatches fuel s bs).1.trace = userRecvs s.trace ++ D ∧
      D <+: usersOf bs.flatten ∧
      ((runBatches fuel s bs).1.stopped = false → s.inboxOpen = true → D = usersOf bs.flatten) := by
  induction bs with
  | nil => intro s _ _; exact ⟨[], by simp, List.nil_prefix, fun _ _ => rfl⟩
  | cons b bs ih =>
    intro s hf ho
    rw [runBatches_cons] at hf ⊢
    cases hopen : s.inboxOpen with
    | false =>
      simp only [Bool.false_eq_true, if_false]
      exact ⟨[], by simp, List.nil_prefix, fun _ h => by cases h⟩
    | true =>
      simp only [hopen, if_true] at hf ⊢
      have hfr := (frame_runBatches fuel bs (invoke fuel s b).1).fuel_false hf
      have hor := (frame_invoke fuel s b).opn ho
      obtain ⟨D0, a1, a2, a3⟩ := replay_invoke fuel s b
      cases hst : (invoke fuel s b).1.stopped with
      | true =>
        have hcl : (invoke fuel s b).1.inboxOpen = false := by
          cases hio : (invoke fuel s b).1.inboxOpen
          · rfl
          · rw [hor hio] at hst; cases hst
        rw [runBatches_closed _ _ _ hcl]
        refine ⟨D0, a1, ?_, ?_⟩
        · rw [List.flatten_cons, usersOf_append]
          exact a2.trans (List.prefix_append _ _)
        · intro h; rw [hst] at h; cases h
      | false =>
        have hD0 := a3 hst hfr
        have hio := (alive_open_all fuel s).2.1 b hst hfr hopen
        obtain ⟨D1, b1, b2, b3⟩ := ih _ hf hor
        refine ⟨D0 ++ D1, by rw [b1, a1, List.append_assoc], ?_, ?_⟩
        · rw [List.flatten_cons, usersOf_append, hD0]
          exact (List.prefix_append_right_inj _).mpr b2
        · intro h _
          rw [List.flatten_cons, usersOf_append, hD0, b3 h hio]

/-- the state after spawning. -/
theorem spawn_facts (fuel max mw : Nat) (script : List Outcome) :
    let s0 : PSt := { maxRestarts := max, mwLen := mw, script := script }
    userRecvs (start fuel s0).1.trace = [] ∧
    ((start fuel s0).1.inboxOpen = true → (start fuel s0).1.stopped = false) := by
  intro s0
  obtain ⟨D, h1, h2, _⟩ := replay_start fuel s0
  have : D = [] := by simpa [s0] using h2
  subst this
  exact ⟨by simpa [s0] using h1, (frame_start fuel s0).opn (by simp [s0])⟩

theorem replay_prefix_aux (max mw : Nat) (script : List Outcome) (batches : List (List Msg))
    (hf : (runHistory max mw script batches).1.fuelOut = false) :
    userRecvs (runHistory max mw script batches).1.trace <+: allUsers batches := by
  rw [runHistory_fst] at hf ⊢
  obtain ⟨h0, ho⟩ := spawn_facts (3 * script.length + 6) max mw script
  obtain ⟨D, h1, h2, _⟩ := replay_runBatches _ batches _ hf ho
  rw [h1, h0]
  simpa [allUsers] using h2

theorem replay_complete_aux (max mw : Nat) (script : List Outcome) (batches : List (List Msg))
    (hf : (runHistory max mw script batches).1.fuelOut = false)
    (ha : (runHistory max mw script batches).1.stopped = false) :
    userRecvs (runHistory max mw script batches).1.trace = allUsers batches := by
  rw [runHistory_fst] at hf ha ⊢
  obtain ⟨h0, ho⟩ := spawn_facts (3 * script.length + 6) max mw script
  obtain ⟨D, h1, _, h3⟩ := replay_runBatches _ batches _ hf ho
  have hfr := (frame_runBatches _ batches _).fuel_false hf
  have hsr := (frame_runBatches _ batches _).stopped_false ha
  have hio := (alive_open_all _ _).1 hsr hfr
  rw [h1, h0, h3 ha hio]
  simp [allUsers]

end HW.Proc
