import HW.Proofs.ClusterSys
import HW.Proofs.ClusterJoinLemmas
namespace HW.ClusterSys
open HW.Cluster

/-- the membership record a provider publishes for a node. -/
def toMember (n : Node) : Member := { id := n.id, host := n.host, kinds := n.localKinds }

/-- node `x` joins: every member (the joiner included) receives the snapshot of the enlarged cluster. -/
def joinNode (s : Sys) (x : Node) : Sys :=
  let s1 : Sys := { s with nodes := s.nodes ++ [x] }
  let snap := s1.nodes.map toMember
  s1.nodes.foldl (fun acc n => snapshot acc n.id snap) s1

/-! ### what the snapshot does on each node -/

theorem ids_snap (l : List Node) : ids (l.map toMember) = l.map (·.id) := by
  simp [ids, toMember, List.map_map, Function.comp_def]

theorem join_node_facts {s : Sys} (hc : Consistent s) {x : Node}
    (hfresh : ∀ n ∈ s.nodes, n.id ≠ x.id)
    (hx : x.agent.members = [] ∧ x.agent.activated = []) {n : Node} (hn : n ∈ s.nodes ++ [x]) :
    idsNodup (handleMembers n.agent ((s.nodes ++ [x]).map toMember)).1.members ∧
    (∀ id, id ∈ ids (handleMembers n.agent ((s.nodes ++ [x]).map toMember)).1.members ↔
      id ∈ (s.nodes ++ [x]).map (·.id)) ∧
    (handleMembers n.agent ((s.nodes ++ [x]).map toMember)).1.activated = n.agent.activated ∧
    (∀ t ∈ topoIds (handleMembers n.agent ((s.nodes ++ [x]).map toMember)).2,
      t = x.id ∧ n.id ≠ x.id ∧ n ∈ s.nodes) ∧
    (n.id ≠ x.id → n.agent.activated = [] ∨
      topoIds (handleMembers n.agent ((s.nodes ++ [x]).map toMember)).2 ≠ []) := by
  have hcase : (n ∈ s.nodes ∧ n.id ≠ x.id) ∨ n = x := by
    rcases List.mem_append.mp hn with h | h
    · exact Or.inl ⟨h, hfresh n h⟩
    · exact Or.inr (by simpa using h)
  have hnd : idsNodup n.agent.members := by
    rcases hcase with ⟨h, _⟩ | rfl
    · exact hc.membersNodup n h
    · rw [hx.1]; simp [idsNodup, ids]
  have hsub : ∀ id ∈ ids n.agent.members, id ∈ ids ((s.nodes ++ [x]).map toMember) := by
    intro id hid
    rw [ids_snap]
    rcases hcase with ⟨h, _⟩ | rfl
    · obtain ⟨m, hm, hmid⟩ := (hc.view n h id).mp hid
      exact mem_ids_nodes.mpr ⟨m, List.mem_append_left _ hm, hmid⟩
    · rw [hx.1] at hid; simp [ids] at hid
  have hxsnap : x.id ∈ ids ((s.nodes ++ [x]).map toMember) := by
    rw [ids_snap]; exact mem_ids_nodes.mpr ⟨x, by simp, rfl⟩
  obtain ⟨hv1, hv2⟩ := handle_view n.agent ((s.nodes ++ [x]).map toMember) hnd
  refine ⟨hv1, ?_, handle_activated _ _ hsub, ?_, ?_⟩
  · intro id; rw [hv2 id, ids_snap]
  · intro t ht
    rw [handle_topoIds] at ht
    by_cases ha : n.agent.activated = []
    · rw [if_pos ha] at ht; cases ht
    · rw [if_neg ha] at ht
      rcases hcase with ⟨h, hne⟩ | rfl
      · refine ⟨?_, hne, h⟩
        obtain ⟨h1, h2⟩ := mem_ids_except.mp ht
        rw [mem_ids_mkSet, ids_snap] at h1
        obtain ⟨m, hm, hmid⟩ := mem_ids_nodes.mp h1
        rcases List.mem_append.mp hm with hm | hm
        · exact absurd ((hc.view n h t).mpr ⟨m, hm, hmid⟩) h2
        · have : m = x := by simpa using hm
          rw [← hmid, this]
      · exact absurd hx.2 ha
  · intro hne
    by_cases ha : n.agent.activated = []
    · exact Or.inl ha
    · right
      rw [handle_topoIds, if_neg ha]
      rcases hcase with ⟨h, _⟩ | rfl
      · apply List.ne_nil_of_mem (a := x.id)
        rw [mem_ids_except, mem_ids_mkSet]
        refine ⟨hxsnap, ?_⟩
        intro hmem
        obtain ⟨m, hm, hmid⟩ := (hc.view n h x.id).mp hmem
        exact hfresh m hm hmid
      · exact absurd rfl hne

/-! ### the invariant of the fold in `joinNode` (`rest`: the nodes that have not seen the snapshot yet) -/

structure FInv (s : Sys) (x : Node) (rest : List Node) (acc : Sys) : Prop where
  ids : acc.nodes.map (·.id) = (s.nodes ++ [x]).map (·.id)
  restNodup : (rest.map (·.id)).Nodup
  restIn : ∀ n ∈ rest, n ∈ acc.nodes ∧ n ∈ s.nodes ++ [x]
  done : ∀ y ∈ acc.nodes, y ∈ rest ∨ (idsNodup y.agent.members ∧
    ∀ id, id ∈ Cluster.ids y.agent.members ↔ id ∈ (s.nodes ++ [x]).map (·.id))
  act : ∀ y ∈ acc.nodes, (y.id = x.id ∧ y.agent.activated = []) ∨
    (y.id ≠ x.id ∧ ∃ n ∈ s.nodes, y.agent.activated = n.agent.activated)
  pool : ∀ e ∈ acc.pool, e.1 = x.id ∧ ∃ n ∈ s.nodes, e.2 = .topology (n.agent.activated.map (·.2))
  nonempty : ∀ y ∈ acc.nodes, y ∈ rest ∨ y.id = x.id ∨ y.agent.activated = [] ∨ acc.pool ≠ []

theorem finv_step {s : Sys} (hc : Consistent s) {x : Node}
    (hfresh : ∀ n ∈ s.nodes, n.id ≠ x.id)
    (hx : x.agent.members = [] ∧ x.agent.activated = [])
    (hall : ((s.nodes ++ [x]).map (·.id)).Nodup) {n : Node} {rest : List Node} {acc : Sys}
    (hi : FInv s x (n :: rest) acc) :
    FInv s x rest (snapshot acc n.id ((s.nodes ++ [x]).map toMember)) := by
  obtain ⟨hnacc, hnall⟩ := hi.restIn n (by simp)
  have hndacc : (acc.nodes.map (·.id)).Nodup := by rw [hi.ids]; exact hall
  have hg : getNode acc n.id = some n := getNode_of_mem_nodup hndacc hnacc
  obtain ⟨f1, f2, f3, f4, f5⟩ := join_node_facts hc hfresh hx hnall
  have ht : ∀ t ∈ topoIds (handleMembers n.agent ((s.nodes ++ [x]).map toMember)).2, t ≠ n.id := by
    intro t h
    obtain ⟨h1, h2, _⟩ := f4 t h
    rw [h1]; exact fun e => h2 e.symm
  obtain ⟨hnodes, hpool⟩ := snapshot_spec ((s.nodes ++ [x]).map toMember) hg ht
  have hrn : (rest.map (·.id)).Nodup ∧ n.id ∉ rest.map (·.id) := by
    have := hi.restNodup
    simp only [List.map_cons, List.nodup_cons] at this
    exact ⟨this.2, this.1⟩
  have hmem : ∀ y ∈ (snapshot acc n.id ((s.nodes ++ [x]).map toMember)).nodes,
      y = { n with agent := (handleMembers n.agent ((s.nodes ++ [x]).map toMember)).1 } ∨
      (y ∈ acc.nodes ∧ y.id ≠ n.id) := by
    intro y hy
    rw [hnodes] at hy
    exact mem_setNode hy
  have hpoolmono : acc.pool ≠ [] → (snapshot acc n.id ((s.nodes ++ [x]).map toMember)).pool ≠ [] := by
    intro h; rw [hpool]; simp [h]
  refine ⟨?_, hrn.1, ?_, ?_, ?_, ?_, ?_⟩
  · rw [hnodes, setNode_ids]; exact hi.ids
  · intro m hm
    obtain ⟨h1, h2⟩ := hi.restIn m (List.mem_cons_of_mem _ hm)
    refine ⟨?_, h2⟩
    rw [hnodes]
    apply mem_setNode_of_ne h1
    intro e
    exact hrn.2 (List.mem_map.mpr ⟨m, hm, e⟩)
  · intro y hy
    rcases hmem y hy with rfl | ⟨hy', hne⟩
    · exact Or.inr ⟨f1, f2⟩
    · rcases hi.done y hy' with h | h
      · rcases List.mem_cons.mp h with rfl | h
        · exact absurd rfl hne
        · exact Or.inl h
      · exact Or.inr h
  · intro y hy
    rcases hmem y hy with rfl | ⟨hy', _⟩
    · simp only [f3]
      exact hi.act n hnacc
    · exact hi.act y hy'
  · intro e he
    rw [hpool] at he
    rcases List.mem_append.mp he with he | he
    · exact hi.pool e he
    · obtain ⟨t, htm, rfl⟩ := List.mem_map.mp he
      obtain ⟨h1, _, h3⟩ := f4 t htm
      exact ⟨h1, n, h3, rfl⟩
  · intro y hy
    rcases hmem y hy with rfl | ⟨hy', hne⟩
    · by_cases hid : n.id = x.id
      · exact Or.inr (Or.inl hid)
      · rcases f5 hid with h | h
        · exact Or.inr (Or.inr (Or.inl (by simp only [f3]; exact h)))
        · right; right; right
          rw [hpool]
          intro e
          have := (List.append_eq_nil_iff.mp e).2
          exact h (List.map_eq_nil_iff.mp this)
    · rcases hi.nonempty y hy' with h | h | h | h
      · rcases List.mem_cons.mp h with rfl | h
        · exact absurd rfl hne
        · exact Or.inl h
      · exact Or.inr (Or.inl h)
      · exact Or.inr (Or.inr (Or.inl h))
      · exact Or.inr (Or.inr (Or.inr (hpoolmono h)))

theorem finv_fold {s : Sys} (hc : Consistent s) {x : Node}
    (hfresh : ∀ n ∈ s.nodes, n.id ≠ x.id)
    (hx : x.agent.members = [] ∧ x.agent.activated = [])
    (hall : ((s.nodes ++ [x]).map (·.id)).Nodup) (rest : List Node) {acc : Sys}
    (hi : FInv s x rest acc) :
    FInv s x [] (rest.foldl (fun acc n => snapshot acc n.id ((s.nodes ++ [x]).map toMember)) acc) := by
  induction rest generalizing acc with
  | nil => exact hi
  | cons n rest ih => rw [List.foldl_cons]; exact ih (finv_step hc hfresh hx hall hi)

theorem all_nodup {s : Sys} (hc : Consistent s) {x : Node} (hfresh : ∀ n ∈ s.nodes, n.id ≠ x.id) :
    ((s.nodes ++ [x]).map (·.id)).Nodup := by
  rw [List.map_append, List.nodup_append]
  refine ⟨hc.nodesNodup, by simp, ?_⟩
  intro a ha b hb
  obtain ⟨m, hm, rfl⟩ := mem_ids_nodes.mp ha
  simp at hb
  subst hb
  exact hfresh m hm

/-- after the snapshot round: views complete, old activations untouched, one topology per old
    member that has activations in flight to the joiner. -/
theorem join_jinv {s : Sys} (hc : Consistent s) {x : Node}
    (hfresh : ∀ n ∈ s.nodes, n.id ≠ x.id)
    (hx : x.agent.members = [] ∧ x.agent.activated = [])
    {G : String → Option Pid} (hG : ∀ n ∈ s.nodes, ∀ k, getActiveByID n k = G k)
    (hG0 : s.nodes = [] → ∀ k, G k = none) :
    JInv x.id G (joinNode s x) := by
  have hall := all_nodup hc hfresh
  have hinit : FInv s x (s.nodes ++ [x]) { s with nodes := s.nodes ++ [x] } := by
    refine ⟨rfl, hall, fun n hn => ⟨hn, hn⟩, fun y hy => Or.inl hy, ?_, ?_, fun y hy => Or.inl hy⟩
    · intro y hy
      rcases List.mem_append.mp hy with h | h
      · exact Or.inr ⟨hfresh y h, y, h, rfl⟩
      · have : y = x := by simpa using h
        subst this
        exact Or.inl ⟨rfl, hx.2⟩
    · intro e he
      have : s.pool = [] := hc.poolEmpty
      simp only [this] at he
      cases he
  have hf := finv_fold hc hfresh hx hall (s.nodes ++ [x]) hinit
  show JInv x.id G ((s.nodes ++ [x]).foldl
    (fun acc n => snapshot acc n.id ((s.nodes ++ [x]).map toMember)) { s with nodes := s.nodes ++ [x] })
  generalize (s.nodes ++ [x]).foldl
    (fun acc n => snapshot acc n.id ((s.nodes ++ [x]).map toMember)) { s with nodes := s.nodes ++ [x] } = r at hf
  have hnotin : ∀ y : Node, ¬ y ∈ ([] : List Node) := fun _ h => by cases h
  have hold : ∀ y ∈ r.nodes, y.id ≠ x.id → ∀ k, getActiveByID y k = G k := by
    intro y hy hne k
    rcases hf.act y hy with ⟨h, _⟩ | ⟨_, n, hn, hact⟩
    · exact absurd h hne
    · rw [← hG n hn k]; simp only [getActiveByID, hact]
  refine ⟨⟨?_, ?_, ?_⟩, ?_, hold, ?_, ?_, ?_⟩
  · rw [hf.ids]; exact hall
  · intro y hy
    rcases hf.done y hy with h | h
    · exact absurd h (hnotin y)
    · exact h.1
  · intro y hy id
    rcases hf.done y hy with h | h
    · exact absurd h (hnotin y)
    · rw [h.2 id, ← hf.ids]; exact mem_ids_nodes
  · intro y hy a ha
    rcases hf.act y hy with ⟨_, h⟩ | ⟨_, n, hn, hact⟩
    · rw [h] at ha; cases ha
    · rw [hact] at ha; exact hc.keys n hn a ha
  · intro e he
    obtain ⟨h1, n, hn, h2⟩ := hf.pool e he
    exact ⟨h1, n.agent.activated, h2, hc.keys n hn, hG n hn⟩
  · intro y hy hid
    have hynone : ∀ k, getActiveByID y k = none := by
      intro k
      rcases hf.act y hy with ⟨_, h⟩ | ⟨h, _⟩
      · simp [getActiveByID, h]
      · exact absurd hid h
    by_cases hp : r.pool = []
    · left
      intro k
      rw [hynone k]
      cases hs : s.nodes with
      | nil => exact (hG0 hs k).symm
      | cons n0 l =>
        have hn0 : n0 ∈ s.nodes := by rw [hs]; simp
        have : n0.id ∈ r.nodes.map (·.id) := by
          rw [hf.ids]; exact mem_ids_nodes.mpr ⟨n0, List.mem_append_left _ hn0, rfl⟩
        obtain ⟨y0, hy0, hy0id⟩ := mem_ids_nodes.mp this
        have hne : y0.id ≠ x.id := by rw [hy0id]; exact hfresh n0 hn0
        rw [← hold y0 hy0 hne k]
        rcases hf.nonempty y0 hy0 with h | h | h | h
        · exact absurd h (hnotin y0)
        · exact absurd h hne
        · simp [getActiveByID, h]
        · exact absurd hp h
    · exact Or.inr ⟨hynone, hp⟩
  · have : x.id ∈ r.nodes.map (·.id) := by
      rw [hf.ids]; exact mem_ids_nodes.mpr ⟨x, by simp, rfl⟩
    exact mem_ids_nodes.mp this

/-- A member that joins later learns all active actors: after the topology notifications have been
    delivered — in ANY order — the cluster (joiner included) is consistent, i.e. the joiner resolves
    every id exactly like everybody else. -/
theorem joiner_learns_all (s : Sys) (hc : Consistent s) (x : Node)
    (hfresh : ∀ n ∈ s.nodes, n.id ≠ x.id)
    (hx : x.agent.members = [] ∧ x.agent.activated = [])
    (order : List Nat) (hlen : (joinNode s x).pool.length ≤ order.length) :
    Consistent (drain (joinNode s x) order) ∧
    (∀ n ∈ s.nodes, ∀ k, ∀ x' ∈ (drain (joinNode s x) order).nodes, x'.id = x.id →
       getActiveByID x' k = getActiveByID n k) := by
  obtain ⟨G, hG, hG0⟩ : ∃ G : String → Option Pid,
      (∀ n ∈ s.nodes, ∀ k, getActiveByID n k = G k) ∧ (s.nodes = [] → ∀ k, G k = none) := by
    cases hs : s.nodes with
    | nil => exact ⟨fun _ => none, fun _ h => (by cases h), fun _ _ => rfl⟩
    | cons n0 l =>
      have hn0 : n0 ∈ s.nodes := by rw [hs]; simp
      exact ⟨getActiveByID n0, fun n hn k => hc.agree n (by rw [hs]; exact hn) n0 hn0 k,
        fun h => (by cases h)⟩
  obtain ⟨hj, hp⟩ := jinv_drain order (join_jinv hc hfresh hx hG hG0) hlen
  obtain ⟨hcons, hres⟩ := jinv_consistent hj hp
  exact ⟨hcons, fun n hn k x' hx' _ => (hres x' hx' k).trans (hG n hn k).symm⟩

end HW.ClusterSys
