/-
Frame facts: what every function of the model preserves (the trace only grows, `stopped` and
`fuelOut` are monotone, ...), and the behaviour of the inbox flag.
-/
import HW.Proofs.ProcBasic
namespace HW.Proc

structure Frame (s r : PSt) : Prop where
  tr : s.trace <+: r.trace
  stopped : s.stopped = true → r.stopped = true
  fuel : s.fuelOut = true → r.fuelOut = true
  inc : s.inc ≤ r.inc
  script : r.script.length ≤ s.script.length
  opn : (s.inboxOpen = true → s.stopped = false) → (r.inboxOpen = true → r.stopped = false)

theorem Frame.refl (s : PSt) : Frame s s :=
  ⟨List.prefix_refl _, id, id, Nat.le_refl _, Nat.le_refl _, id⟩

theorem Frame.trans {a b c : PSt} (h1 : Frame a b) (h2 : Frame b c) : Frame a c :=
  ⟨h1.tr.trans h2.tr, fun h => h2.stopped (h1.stopped h), fun h => h2.fuel (h1.fuel h),
   Nat.le_trans h1.inc h2.inc, Nat.le_trans h2.script h1.script, fun h => h2.opn (h1.opn h)⟩

theorem Frame.fuel_false {s r : PSt} (h : Frame s r) (hr : r.fuelOut = false) : s.fuelOut = false := by
  cases hs : s.fuelOut
  · rfl
  · rw [h.fuel hs] at hr; cases hr

theorem Frame.stopped_false {s r : PSt} (h : Frame s r) (hr : r.stopped = false) : s.stopped = false := by
  cases hs : s.stopped
  · rfl
  · rw [h.stopped hs] at hr; cases hr

theorem Frame.not_mem {s r : PSt} (h : Frame s r) {e : Ev} (hr : e ∉ r.trace) : e ∉ s.trace :=
  fun hs => hr (h.tr.subset hs)

theorem frame_callRecv (s : PSt) (m : LMsg) : Frame s (callRecv s m).1 := by
  refine ⟨?_, ?_, ?_, ?_, ?_, ?_⟩ <;> simp [callRecv_script_le]

theorem frame_stA (s : PSt) : Frame s (stA s) := by
  refine ⟨?_, ?_, ?_, ?_, ?_, ?_⟩ <;> simp

theorem frame_stB (s : PSt) : Frame s (stB s) := by
  refine ⟨?_, ?_, ?_, ?_, ?_, ?_⟩ <;> simp [stB_script_le]

theorem frame_stC (s : PSt) : Frame s (stC s) := by
  refine ⟨?_, ?_, ?_, ?_, ?_, ?_⟩ <;> simp [stC_script_le]

theorem frame_stEnd (s : PSt) : Frame s (stEnd s) := by
  refine ⟨?_, ?_, ?_, ?_, ?_, ?_⟩ <;> simp [stEnd_inboxOpen]
  cases s.stopped <;> simp

theorem frame_trA (s : PSt) : Frame s (trA s) := by
  refine ⟨?_, ?_, ?_, ?_, ?_, ?_⟩ <;> simp

theorem frame_trB (s : PSt) : Frame s (trB s) := by
  refine ⟨?_, ?_, ?_, ?_, ?_, ?_⟩ <;> simp

theorem frame_upd (s : PSt) (D scr) (h : scr.length ≤ s.script.length) : Frame s (upd s D scr) := by
  refine ⟨?_, ?_, ?_, ?_, ?_, ?_⟩ <;> simp [h]

theorem frame_cleanup (s : PSt) (c) : Frame s (cleanup s c) := by
  refine ⟨?_, ?_, ?_, ?_, ?_, ?_⟩ <;> simp

theorem frame_emit (s : PSt) (e) : Frame s (emit s e) := by
  refine ⟨?_, ?_, ?_, ?_, ?_, ?_⟩ <;> simp

theorem frame_fuelOut (s : PSt) : Frame s { s with fuelOut := true } := by
  refine ⟨?_, ?_, ?_, ?_, ?_, ?_⟩ <;> simp

theorem frame_mbuffer (s : PSt) (b) : Frame s { s with mbuffer := b } := by
  refine ⟨?_, ?_, ?_, ?_, ?_, ?_⟩ <;> simp

theorem frame_all : ∀ f s, Frame s (start f s).1 ∧ (∀ msgs, Frame s (invoke f s msgs).1) ∧
    (∀ v, Frame s (tryRestart f s v).1) := by
  apply proc_ind2 (S := fun _ s r => Frame s r) (I := fun _ s _ r => Frame s r)
    (T := fun _ s _ r => Frame s r)
  · exact frame_fuelOut
  · exact fun s _ => frame_fuelOut s
  · exact fun s _ => frame_fuelOut s
  · exact fun f s v r _ h => ((frame_stA s).trans (frame_callRecv _ _)).trans h
  · exact fun f s v r _ _ h => ((frame_stB s).trans (frame_callRecv _ _)).trans h
  · exact fun f s _ _ _ => (frame_stC s).trans (frame_stEnd _)
  · exact fun f s r _ _ _ h => (((frame_stC s).trans h).trans (frame_mbuffer _ _)).trans (frame_stEnd _)
  · exact fun f s msgs scr _ hs => frame_upd s _ scr hs
  · exact fun f s pre id g post scr _ hs => (frame_upd s _ scr hs).trans (frame_cleanup _ _)
  · exact fun f s pre k snd buf scr v r _ hs h =>
      ((frame_upd s _ scr (Nat.le_of_lt hs)).trans (frame_mbuffer _ _)).trans h
  · exact fun f s pre id post k snd rest scr v r _ hs h =>
      ((frame_upd s _ scr (Nat.le_of_lt hs)).trans (frame_mbuffer _ _)).trans h
  · exact fun f s r h => (frame_trA s).trans h
  · exact fun f s _ => (frame_emit s _).trans (frame_cleanup _ _)
  · exact fun f s r _ h => (frame_trB s).trans h

theorem frame_start (f s) : Frame s (start f s).1 := (frame_all f s).1
theorem frame_invoke (f s msgs) : Frame s (invoke f s msgs).1 := (frame_all f s).2.1 msgs
theorem frame_tryRestart (f s v) : Frame s (tryRestart f s v).1 := (frame_all f s).2.2 v

/-! ### a live process with fuel left has an open inbox -/

theorem alive_open_all : ∀ f s,
    ((start f s).1.stopped = false → (start f s).1.fuelOut = false → (start f s).1.inboxOpen = true) ∧
    (∀ msgs, (invoke f s msgs).1.stopped = false → (invoke f s msgs).1.fuelOut = false →
      s.inboxOpen = true → (invoke f s msgs).1.inboxOpen = true) ∧
    (∀ v, (tryRestart f s v).1.stopped = false → (tryRestart f s v).1.fuelOut = false →
      (tryRestart f s v).1.inboxOpen = true) := by
  apply proc_ind2 (S := fun _ _ r => r.stopped = false → r.fuelOut = false → r.inboxOpen = true)
    (I := fun _ s _ r => r.stopped = false → r.fuelOut = false → s.inboxOpen = true → r.inboxOpen = true)
    (T := fun _ _ _ r => r.stopped = false → r.fuelOut = false → r.inboxOpen = true)
  · simp
  · simp
  · simp
  · exact fun f s v r _ h => h
  · exact fun f s v r _ _ h => h
  · intro f s _ _ _; simp [stEnd_inboxOpen]; intro h; simp [h]
  · intro f s r _ _ _ _; simp [stEnd_inboxOpen]; intro h; simp [h]
  · intro f s msgs scr _ _; simp
  · intro f s pre id g post scr _ _; simp
  · exact fun f s pre k snd buf scr v r _ _ h h1 h2 _ => h h1 h2
  · exact fun f s pre id post k snd rest scr v r _ _ h h1 h2 _ => h h1 h2
  · exact fun f s r h => h
  · intro f s _; simp
  · exact fun f s r _ h => h

/-! ### histories -/

@[simp] theorem runBatches_nil (fuel : Nat) (s : PSt) : runBatches fuel s [] = (s, none) := rfl

theorem runBatches_cons (fuel : Nat) (s : PSt) (b : List Msg) (bs : List (List Msg)) :
    runBatches fuel s (b :: bs) =
      if s.inboxOpen then runBatches fuel (invoke fuel s b).1 bs else (s, none) := by
  rw [runBatches]
  have hn := (no_escape fuel s).2.1 b
  generalize invoke fuel s b = r at hn ⊢
  obtain ⟨r1, r2⟩ := r
  simp only at hn
  subst hn
  rfl

theorem runHistory_fst (max mw : Nat) (script : List Outcome) (batches : List (List Msg)) :
    (runHistory max mw script batches).1 =
      (runBatches (3 * script.length + 6)
        (start (3 * script.length + 6) { maxRestarts := max, mwLen := mw, script := script }).1
        batches).1 := by
  unfold runHistory spawn
  dsimp only
  have hn := (no_escape (3 * script.length + 6) { maxRestarts := max, mwLen := mw, script := script }).1
  generalize start (3 * script.length + 6) { maxRestarts := max, mwLen := mw, script := script } = r at hn ⊢
  obtain ⟨r1, r2⟩ := r
  simp only at hn
  subst hn
  rfl

theorem frame_runBatches (fuel : Nat) (bs : List (List Msg)) : ∀ s, Frame s (runBatches fuel s bs).1 := by
  induction bs with
  | nil => intro s; exact Frame.refl s
  | cons b bs ih =>
    intro s
    rw [runBatches_cons]
    split
    · exact (frame_invoke fuel s b).trans (ih _)
    · exact Frame.refl s

end HW.Proc
