import HW.Model.Proc
import HW.Spec.Lifecycle
import HW.Proofs.ProcFuel
import HW.Proofs.ProcReplayAux
import HW.Proofs.ProcCancel
import HW.Proofs.ProcPill
namespace HW.Proc

/-- user deliveries over all incarnations are a prefix of the history: nothing duplicated,
    reordered, given a wrong sender, and the message that panicked is never delivered again. -/
theorem replay_prefix (max mw : Nat) (script : List Outcome) (batches : List (List Msg)) :
    replayPrefixOK batches (runHistory max mw script batches).1.trace = true := by
  unfold replayPrefixOK
  rw [List.isPrefixOf_iff_prefix]
  exact replay_prefix_aux max mw script batches (fuel_sufficient_aux max mw script batches)

/-- an actor that is still alive at the end has received every message of the history. -/
theorem replay_complete (max mw : Nat) (script : List Outcome) (batches : List (List Msg))
    (hne : ∀ b ∈ batches, b ≠ [])
    (hf : (runHistory max mw script batches).1.fuelOut = false)
    (ha : (runHistory max mw script batches).1.stopped = false) :
    userRecvs (runHistory max mw script batches).1.trace = allUsers batches :=
  replay_complete_aux max mw script batches hf ha

/-- every cancel comes after the final Stopped and the unregistration (and after the drain). -/
theorem cancel_ok (max mw : Nat) (script : List Outcome) (batches : List (List Msg)) :
    cancelOK batches (runHistory max mw script batches).1.trace = true :=
  cancel_ok_aux max mw script batches (fuel_sufficient_aux max mw script batches)

/-- partial form of "every pill is cancelled": with at most one pill in the history, and the restart
    budget never exhausted, the pill is cancelled exactly once — whatever panics happen, also
    while draining behind it. -/
theorem single_pill_cancelled (max mw : Nat) (script : List Outcome) (batches : List (List Msg))
    (hne : ∀ b ∈ batches, b ≠ [])
    (h1 : (pillsOf batches.flatten).length ≤ 1)
    (hf : (runHistory max mw script batches).1.fuelOut = false)
    (hm : Ev.ev .maxRestarts ∉ (runHistory max mw script batches).1.trace) :
    allPillsCancelled batches (runHistory max mw script batches).1.trace = true :=
  single_pill_aux max mw script batches h1 hf hm

/-- the fuel given by `runHistory` is never exhausted. -/
theorem fuel_sufficient (max mw : Nat) (script : List Outcome) (batches : List (List Msg)) :
    (runHistory max mw script batches).1.fuelOut = false :=
  fuel_sufficient_aux max mw script batches

end HW.Proc
