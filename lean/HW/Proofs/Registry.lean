import HW.Model.Registry
namespace HW.Registry

theorem wf_empty : ({} : Reg).WF := by simp [Reg.WF]

theorem lookup_none_not_mem {l : List (Id × Inst)} {id : Id} (h : lookup id l = none) :
    id ∉ l.map (·.1) := by
  induction l with
  | nil => simp
  | cons e rest ih =>
    obtain ⟨k, v⟩ := e
    simp only [lookup] at h
    split at h
    · cases h
    · rename_i hne
      simp only [List.map_cons, List.mem_cons, not_or]
      exact ⟨fun heq => hne heq.symm, ih h⟩

theorem add_wf (r : Reg) (id : Id) (inst : Inst) (h : r.WF) : (r.add id inst).1.WF := by
  unfold Reg.add
  split
  · exact h
  · rename_i hnone
    simp only [Reg.WF, List.map_cons, List.nodup_cons]
    exact ⟨lookup_none_not_mem hnone, h⟩

theorem erase_sublist (id : Id) (l : List (Id × Inst)) : (erase id l).Sublist l := by
  induction l with
  | nil => exact List.Sublist.slnil
  | cons e rest ih =>
    obtain ⟨k, v⟩ := e
    simp only [erase]
    split
    · exact List.Sublist.cons _ ih
    · exact List.Sublist.cons₂ _ ih

theorem remove_wf (r : Reg) (id : Id) (h : r.WF) : (r.remove id).WF := by
  unfold Reg.WF Reg.remove at *
  exact ((erase_sublist id r.entries).map _).nodup h

theorem step_wf (r : Reg) (op : Op) (h : r.WF) : (step r op).1.WF := by
  cases op with
  | add id inst => exact add_wf r id inst h
  | remove id => exact remove_wf r id h
  | get id => exact h

theorem run_wf (r : Reg) (ops : List Op) (h : r.WF) : (run r ops).1.WF := by
  induction ops generalizing r with
  | nil => exact h
  | cons op ops ih => simp only [run]; exact ih _ (step_wf r op h)

/-- a duplicate add changes nothing. -/
theorem add_dup_noop (r : Reg) (id : Id) (inst inc : Inst) (h : r.get id = some inc) :
    r.add id inst = (r, .dup) := by
  simp [Reg.add, h]

/-- an add of a free id registers exactly that instance and leaves every other id alone. -/
theorem add_free (r : Reg) (id : Id) (inst : Inst) (h : r.get id = none) :
    (r.add id inst).2 = .won ∧ (r.add id inst).1.get id = some inst ∧
    ∀ id', id' ≠ id → (r.add id inst).1.get id' = r.get id' := by
  simp only [Reg.add, h]
  refine ⟨trivial, by simp [Reg.get, lookup], ?_⟩
  intro id' hne
  simp [Reg.get, lookup, Ne.symm hne]

theorem lookup_erase_ne (l : List (Id × Inst)) (id id' : Id) (hne : id' ≠ id) :
    lookup id' (erase id l) = lookup id' l := by
  induction l with
  | nil => rfl
  | cons e rest ih =>
    obtain ⟨k, v⟩ := e
    simp only [erase]
    split
    · rename_i hk
      subst hk
      simp [lookup, Ne.symm hne, ih]
    · simp only [lookup, ih]

theorem lookup_erase_self (l : List (Id × Inst)) (id : Id) :
    lookup id (erase id l) = none := by
  induction l with
  | nil => rfl
  | cons e rest ih =>
    obtain ⟨k, v⟩ := e
    simp only [erase]
    split
    · exact ih
    · rename_i hk
      simp [lookup, hk, ih]

/-- after remove the id is free again, others untouched. -/
theorem remove_spec (r : Reg) (id : Id) :
    (r.remove id).get id = none ∧ ∀ id', id' ≠ id → (r.remove id).get id' = r.get id' :=
  ⟨lookup_erase_self r.entries id, fun id' hne => lookup_erase_ne r.entries id id' hne⟩

/-- of any number of adds of one free id (in any order, by any callers) exactly the first wins. -/
theorem one_winner (r : Reg) (id : Id) (insts : List Inst) (h : r.get id = none) (hne : insts ≠ []) :
    ((run r (insts.map (Op.add id))).2.filter (· = Out.added .won)).length = 1 := by
  cases insts with
  | nil => exact absurd rfl hne
  | cons i rest =>
    have hw := add_free r id i h
    simp only [List.map_cons, run, step]
    have hrest : ∀ (r' : Reg) (l : List Inst), r'.get id ≠ none →
        ((run r' (l.map (Op.add id))).2.filter (· = Out.added .won)).length = 0 := by
      intro r' l
      induction l generalizing r' with
      | nil => intro _; simp [run]
      | cons j l ih =>
        intro hsome
        obtain ⟨inc, hinc⟩ := Option.ne_none_iff_exists'.mp hsome
        simp only [List.map_cons, run, step, add_dup_noop r' id j inc hinc]
        have := ih r' hsome
        simp [this]
    have h1 : (r.add id i).2 = .won := hw.1
    have h2 : (r.add id i).1.get id ≠ none := by rw [hw.2.1]; simp
    have h3 := hrest (r.add id i).1 rest h2
    revert h1 h3
    cases hadd : r.add id i with
    | mk r1 res =>
      intro h1 h3
      simp only at h1 h3 ⊢
      subst h1
      simp [h3]

end HW.Registry
