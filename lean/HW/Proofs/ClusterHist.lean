/-
History-level statements for C18 (agent membership view) and C20 (self-managed provider): the one-step
theorems of HW/Proofs/Cluster.lean lifted to EVERY sequence of snapshots / provider messages.
-/
import HW.Proofs.Cluster
namespace HW.Cluster

/-! ### C18: sequences of snapshots -/

/-- process a sequence of snapshots, collecting every event published on the way. -/
def runSnaps (st : AgentSt) : List (List Member) → AgentSt × List AgentOut
  | [] => (st, [])
  | s :: ss =>
    let r1 := handleMembers st s
    let r2 := runSnaps r1.1 ss
    (r2.1, r1.2 ++ r2.2)

theorem runSnaps_cons (st : AgentSt) (s : List Member) (ss : List (List Member)) :
    runSnaps st (s :: ss) =
      ((runSnaps (handleMembers st s).1 ss).1, (handleMembers st s).2 ++ (runSnaps (handleMembers st s).1 ss).2) := rfl

theorem runSnaps_nodup (st : AgentSt) (h : idsNodup st.members) (snaps : List (List Member)) :
    idsNodup (runSnaps st snaps).1.members := by
  induction snaps generalizing st with
  | nil => exact h
  | cons s ss ih =>
    rw [runSnaps_cons]
    exact ih _ (handle_view st s h).1

/-- after any non-empty history the view is the LAST snapshot (by member id), whatever came before. -/
theorem runSnaps_view (st : AgentSt) (h : idsNodup st.members) (snaps : List (List Member)) (last : List Member)
    (hl : snaps.getLast? = some last) :
    ∀ id, id ∈ ids (runSnaps st snaps).1.members ↔ id ∈ ids last := by
  induction snaps generalizing st with
  | nil => simp at hl
  | cons s ss ih =>
    rw [runSnaps_cons]
    cases ss with
    | nil =>
      simp only [List.getLast?_singleton, Option.some.injEq] at hl
      subst hl
      exact (handle_view st s h).2
    | cons s' t =>
      rw [List.getLast?_cons_cons] at hl
      exact ih _ (handle_view st s h).1 hl

theorem count_of_nodup {l : List String} (h : l.Nodup) (a : String) :
    l.count a = if a ∈ l then 1 else 0 := by
  induction l with
  | nil => simp
  | cons b t ih =>
    have hn : b ∉ t ∧ t.Nodup := by simpa using h
    rw [List.count_cons, ih hn.2]
    by_cases hb : b = a
    · subst hb; simp [hn.1]
    · have hb' : ¬ a = b := fun e => hb e.symm
      simp [hb, hb']

theorem handle_step_balance (st : AgentSt) (h : idsNodup st.members) (s : List Member) (id : String) :
    (joinIds (handleMembers st s).2).count id + (if id ∈ ids st.members then 1 else 0) =
    (leaveIds (handleMembers st s).2).count id + (if id ∈ ids (handleMembers st s).1.members then 1 else 0) := by
  obtain ⟨hj, hl, hjm, hlm⟩ := handle_events st s h
  have hv := (handle_view st s h).2 id
  rw [count_of_nodup hj, count_of_nodup hl]
  have e1 := hjm id
  have e2 := hlm id
  by_cases c1 : id ∈ ids st.members <;> by_cases c2 : id ∈ ids s <;>
    simp [c1, c2, e1, e2, hv]

/-- join/leave accounting over the whole history: for every member id, the number of MemberJoinEvents minus
    the number of MemberLeaveEvents published so far is exactly "is it in the view now" minus "was it in the
    view at the start" — no event is ever missing, doubled, or published for a member that stayed. -/
theorem runSnaps_balance (st : AgentSt) (h : idsNodup st.members) (snaps : List (List Member)) (id : String) :
    (joinIds (runSnaps st snaps).2).count id + (if id ∈ ids st.members then 1 else 0) =
    (leaveIds (runSnaps st snaps).2).count id + (if id ∈ ids (runSnaps st snaps).1.members then 1 else 0) := by
  induction snaps generalizing st with
  | nil => rfl
  | cons s ss ih =>
    rw [runSnaps_cons]
    simp only [joinIds_append, leaveIds_append, List.count_append]
    have h1 := handle_step_balance st h s id
    have h2 := ih _ (handle_view st s h).1
    omega

/-! ### C20: sequences of provider messages -/

inductive ProvOp where
  | handshake (peer : Member)
  | members (ms : List Member)
  | leave (addr : String)
deriving Repr

def provStep (st : ProvSt) : ProvOp → ProvSt × List ProvOut
  | .handshake p => provHandshake st p
  | .members ms => provMembers st ms
  | .leave a => provLeave st a

def provRun (st : ProvSt) : List ProvOp → ProvSt
  | [] => st
  | op :: ops => provRun (provStep st op).1 ops

/-- the abstract specification: a set of member ids (a list read as a set). `hostOf` is the address of a
    member id (well-formedness: every member id has one address, distinct ids have distinct addresses). -/
def specStep (hostOf : String → String) (S : List String) : ProvOp → List String
  | .handshake p => S ++ [p.id]
  | .members ms => S ++ ids ms
  | .leave a => S.filter (fun id => hostOf id ≠ a)

def specRun (hostOf : String → String) (S : List String) : List ProvOp → List String
  | [] => S
  | op :: ops => specRun hostOf (specStep hostOf S op) ops

/-- every member mentioned by an operation has the address `hostOf` assigns to its id. -/
def opWf (hostOf : String → String) : ProvOp → Prop
  | .handshake p => p.host = hostOf p.id
  | .members ms => ∀ m ∈ ms, m.host = hostOf m.id
  | .leave _ => True

theorem provAdd_fold_sub (ms acc : List Member) (x : Member)
    (hx : x ∈ ms.foldl (fun acc m => if hasId acc m.id then acc else acc ++ [m]) acc) :
    x ∈ acc ∨ x ∈ ms := by
  induction ms generalizing acc with
  | nil => exact Or.inl hx
  | cons a t ih =>
    rw [List.foldl_cons] at hx
    rcases ih _ hx with h1 | h1
    · by_cases hh : hasId acc a.id = true
      · rw [if_pos hh] at h1; exact Or.inl h1
      · rw [if_neg hh] at h1
        rcases List.mem_append.1 h1 with h2 | h2
        · exact Or.inl h2
        · simp at h2; subst h2; exact Or.inr (by simp)
    · exact Or.inr (List.mem_cons_of_mem _ h1)

theorem provAdd_sub (st : ProvSt) (ms : List Member) (x : Member) (hx : x ∈ (provAdd st ms).1.members) :
    x ∈ st.members ∨ x ∈ ms := provAdd_fold_sub ms st.members x hx

theorem provLeave_sub (st : ProvSt) (addr : String) (x : Member) (hx : x ∈ (provLeave st addr).1.members) :
    x ∈ st.members := by
  unfold provLeave at hx
  split at hx
  · exact hx
  · exact (List.mem_filter.1 hx).1

theorem eq_of_id_eq {ms : List Member} (hn : (ids ms).Nodup) {a b : Member} (ha : a ∈ ms) (hb : b ∈ ms)
    (hid : a.id = b.id) : a = b := by
  induction ms with
  | nil => simp at ha
  | cons c t ih =>
    have hn' : c.id ∉ ids t ∧ (ids t).Nodup := by simpa [ids] using hn
    rcases List.mem_cons.1 ha with ha' | ha' <;> rcases List.mem_cons.1 hb with hb' | hb'
    · rw [ha', hb']
    · subst ha'; exact absurd (hid ▸ ids_of_mem hb') hn'.1
    · subst hb'; exact absurd (hid ▸ ids_of_mem ha') hn'.1
    · exact ih hn'.2 ha' hb' 

theorem provStep_refines (hostOf : String → String) (hinj : ∀ a b, hostOf a = hostOf b → a = b)
    (st : ProvSt) (h : idsNodup st.members) (hst : ∀ m ∈ st.members, m.host = hostOf m.id)
    (S : List String) (hS : ∀ id, id ∈ ids st.members ↔ id ∈ S)
    (op : ProvOp) (hop : opWf hostOf op) :
    idsNodup (provStep st op).1.members ∧
    (∀ m ∈ (provStep st op).1.members, m.host = hostOf m.id) ∧
    (∀ id, id ∈ ids (provStep st op).1.members ↔ id ∈ specStep hostOf S op) := by
  cases op with
  | handshake p =>
    obtain ⟨h1, h2, _⟩ := prov_handshake st p h
    refine ⟨h1, ?_, ?_⟩
    · intro m hm
      have hm' : m ∈ (provAdd st [p]).1.members := by rw [provStep, provHandshake_eq] at hm; exact hm
      rcases provAdd_sub st [p] m hm' with h3 | h3
      · exact hst m h3
      · simp at h3; subst h3; exact hop
    · intro id
      simp only [provStep, specStep] at h2 ⊢
      rw [h2, hS]; simp
  | members ms =>
    obtain ⟨h1, h2, _⟩ := prov_members st ms h
    refine ⟨h1, ?_, ?_⟩
    · intro m hm
      rcases provAdd_sub st ms m hm with h3 | h3
      · exact hst m h3
      · exact hop m h3
    · intro id
      simp only [provStep, specStep] at h2 ⊢
      rw [h2, hS]; simp
  | leave addr =>
    have hsub : ∀ m ∈ (provStep st (.leave addr)).1.members, m.host = hostOf m.id :=
      fun m hm => hst m (provLeave_sub st addr m hm)
    by_cases hex : ∃ m ∈ st.members, m.host = addr
    · obtain ⟨m, hm, hh⟩ := hex
      have hhosts : ∀ a ∈ st.members, ∀ b ∈ st.members, a.host = b.host → a = b := by
        intro a ha b hb hab
        rw [hst a ha, hst b hb] at hab
        exact eq_of_id_eq h ha hb (hinj _ _ hab)
      obtain ⟨h1, h2, _⟩ := prov_leave_member st addr m h hhosts hm hh
      refine ⟨h1, hsub, ?_⟩
      intro id
      simp only [provStep, specStep] at h2 ⊢
      rw [h2, hS, List.mem_filter]
      have haddr : addr = hostOf m.id := by rw [← hh]; exact hst m hm
      constructor
      · rintro ⟨ha, hb⟩
        refine ⟨ha, ?_⟩
        simp only [ne_eq, decide_eq_true_eq]
        intro hc
        exact hb (hinj _ _ (hc.trans haddr))
      · rintro ⟨ha, hb⟩
        refine ⟨ha, ?_⟩
        simp only [ne_eq, decide_eq_true_eq] at hb
        intro hc
        exact hb (by rw [hc, haddr])
    · have hnm : ∀ m ∈ st.members, m.host ≠ addr := fun m hm hc => hex ⟨m, hm, hc⟩
      have he := prov_leave_nonmember st addr hnm
      have he' : provStep st (.leave addr) = (st, []) := he
      refine ⟨by rw [he']; exact h, hsub, ?_⟩
      intro id
      rw [he']
      simp only [specStep, List.mem_filter, ne_eq, decide_eq_true_eq]
      rw [← hS]
      constructor
      · intro hid
        refine ⟨hid, ?_⟩
        obtain ⟨m, hm, rfl⟩ := mem_ids.1 hid
        rw [← hst m hm]
        exact hnm m hm
      · exact fun hid => hid.1

theorem provRun_refines_gen (hostOf : String → String) (hinj : ∀ a b, hostOf a = hostOf b → a = b)
    (ops : List ProvOp) (st : ProvSt) (h : idsNodup st.members) (hst : ∀ m ∈ st.members, m.host = hostOf m.id)
    (S : List String) (hS : ∀ id, id ∈ ids st.members ↔ id ∈ S)
    (hops : ∀ op ∈ ops, opWf hostOf op) :
    idsNodup (provRun st ops).members ∧
    (∀ m ∈ (provRun st ops).members, m.host = hostOf m.id) ∧
    (∀ id, id ∈ ids (provRun st ops).members ↔ id ∈ specRun hostOf S ops) := by
  induction ops generalizing st S with
  | nil => exact ⟨h, hst, hS⟩
  | cons op ops ih =>
    obtain ⟨h1, h2, h3⟩ := provStep_refines hostOf hinj st h hst S hS op (hops op (by simp))
    exact ih (provStep st op).1 h1 h2 (specStep hostOf S op) h3
      (fun o ho => hops o (List.mem_cons_of_mem _ ho))

/-- REFINEMENT over every history: for all sequences of handshakes, member lists and unreachable reports
    (for members, for non-members, repeated, in any order) the provider's member list is, as a set of ids,
    exactly what the abstract set semantics says: handshake adds the peer, a list adds all of it, an
    unreachable report removes the member at that address and only that one, a report for a non-member
    address removes nothing. The list stays duplicate free. -/
theorem provRun_refines (hostOf : String → String) (hinj : ∀ a b, hostOf a = hostOf b → a = b)
    (st : ProvSt) (h : idsNodup st.members) (hst : ∀ m ∈ st.members, m.host = hostOf m.id)
    (ops : List ProvOp) (hops : ∀ op ∈ ops, opWf hostOf op) :
    idsNodup (provRun st ops).members ∧
    (∀ m ∈ (provRun st ops).members, m.host = hostOf m.id) ∧
    (∀ id, id ∈ ids (provRun st ops).members ↔ id ∈ specRun hostOf (ids st.members) ops) := by
  exact provRun_refines_gen hostOf hinj ops st h hst (ids st.members) (fun _ => Iff.rfl) hops

/-- every handled message that changes or confirms the list reports the then-current list to the agent
    (a non-member unreachable report is the only silent one). -/
theorem provStep_reports (st : ProvSt) (op : ProvOp) :
    (provStep st op).2 = [] ∨ ProvOut.agent (ids (provStep st op).1.members) ∈ (provStep st op).2 := by
  cases op with
  | handshake p =>
    right
    simp only [provStep]
    rw [provHandshake_eq]
    simp [provAdd]
  | members ms =>
    right
    simp [provStep, provMembers, provAdd]
  | leave addr =>
    simp only [provStep]
    unfold provLeave
    split
    · left; rfl
    · right; simp

end HW.Cluster
