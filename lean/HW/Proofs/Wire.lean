import HW.Model.Wire
namespace HW.Wire
variable {P : Type}

/-! ### helpers -/

theorem idx_nat {α : Type} (l : List α) (n : Nat) : idx l (n : Int) = l[n]? := by
  unfold idx
  have : ¬ ((n : Int) < 0) := by omega
  simp [this]

theorem prefix_getElem? {α : Type} {a b : List α} (h : a <+: b) {i : Nat} {x : α}
    (hx : a[i]? = some x) : b[i]? = some x := by
  obtain ⟨t, rfl⟩ := h
  have hi : i < a.length := by
    rcases Nat.lt_or_ge i a.length with h | h
    · exact h
    · rw [List.getElem?_eq_none h] at hx; cases hx
  rw [List.getElem?_append_left hi]; exact hx

/-- lookup table `m` is sound w.r.t. `tbl`. -/
def WF {κ : Type} [DecidableEq κ] (m : List (κ × Nat)) (tbl : List κ) : Prop :=
  m.length = tbl.length ∧ ∀ k i, m.lookup k = some i → tbl[i]? = some k

theorem WF_nil {κ : Type} [DecidableEq κ] : WF ([] : List (κ × Nat)) [] := by
  constructor
  · rfl
  · intro k i h; simp [List.lookup] at h

theorem lookupIdx_spec {κ : Type} [DecidableEq κ] (m : List (κ × Nat)) (k : κ) (tbl : List κ)
    (h : WF m tbl) :
    WF (lookupIdx m k tbl).2.1 (lookupIdx m k tbl).2.2 ∧
    tbl <+: (lookupIdx m k tbl).2.2 ∧
    (lookupIdx m k tbl).2.2[(lookupIdx m k tbl).1]? = some k := by
  unfold lookupIdx
  cases hl : m.lookup k with
  | some i =>
    exact ⟨h, List.prefix_refl _, h.2 k i hl⟩
  | none =>
    obtain ⟨hlen, hs⟩ := h
    refine ⟨⟨by simp [hlen], ?_⟩, List.prefix_append _ _, by simp [hlen]⟩
    intro k' i hk'
    simp only [List.lookup_cons] at hk'
    split at hk'
    · rename_i heq
      have : k' = k := by simpa using heq
      subst this
      cases hk'
      simp [hlen]
    · exact prefix_getElem? (List.prefix_append _ _) (hs k' i hk')

theorem decodeMsgs_snoc (c : Codec P) (env : Envelope) (ms : List Message) (m : Message)
    (ds : List (Delivery P)) (d : Delivery P)
    (h : decodeMsgs c env ms = (ds, .ok)) (hm : decodeMsg c env m = some d) :
    decodeMsgs c env (ms ++ [m]) = (ds ++ [d], .ok) := by
  induction ms generalizing ds with
  | nil =>
    simp [decodeMsgs] at h
    subst h
    simp [decodeMsgs, hm]
  | cons a as ih =>
    simp only [decodeMsgs, List.cons_append] at h ⊢
    cases ha : decodeMsg c env a with
    | none => simp [ha] at h
    | some d0 =>
      simp only [ha] at h ⊢
      cases hr : decodeMsgs c env as with
      | mk ds0 o =>
        simp only [hr] at h
        cases h
        rw [ih ds0 hr]
        rfl

theorem decodeMsg_ok (c : Codec P) (env : Envelope) (b : Bytes) (tid gid : Nat) (sid : Int)
    (tn : String) (tg : Pid) (sender : Option Pid) (p : P)
    (ht : env.typeNames[tid]? = some tn) (hg : env.targets[gid]? = some tg)
    (hs : (sender = none ∧ sid = -1) ∨ ∃ s i, sender = some s ∧ sid = ((i : Nat) : Int) ∧ env.senders[i]? = some s)
    (hd : c.deserialize b tn = some p) :
    decodeMsg c env { data := b, typeIdx := tid, senderIdx := sid, targetIdx := gid } =
      some { target := tg, payload := p, sender := sender } := by
  unfold decodeMsg
  simp only [idx_nat, ht, hg]
  rcases hs with ⟨rfl, rfl⟩ | ⟨s, i, rfl, rfl, hi⟩
  · simp [hd, idx]
  · simp [idx_nat, hi, hd]

structure Inv (c : Codec P) (st : EncState) (ds : List (Delivery P)) : Prop where
  wfT : WF st.typeLookup st.typeNames
  wfS : WF st.senderLookup st.senders
  wfG : WF st.targetLookup st.targets
  dec : ∀ env : Envelope, st.typeNames <+: env.typeNames → st.senders <+: env.senders →
    st.targets <+: env.targets → decodeMsgs c env st.messages = (ds, .ok)

theorem Inv_none (c : Codec P) (st : EncState) (ds : List (Delivery P)) (h : Inv c st ds)
    (tl : List (String × Nat)) (tn : List String) (wT : WF tl tn) (pT : st.typeNames <+: tn)
    (sl : List (Pid × Nat)) (sn : List Pid) (wS : WF sl sn) (pS : st.senders <+: sn)
    (gl : List (Pid × Nat)) (gn : List Pid) (wG : WF gl gn) (pG : st.targets <+: gn) :
    Inv c { typeLookup := tl, typeNames := tn, senderLookup := sl, senders := sn,
            targetLookup := gl, targets := gn, messages := st.messages } ds :=
  ⟨wT, wS, wG, fun env h1 h2 h3 => h.dec env (pT.trans h1) (pS.trans h2) (pG.trans h3)⟩

theorem Inv_some (c : Codec P) (st : EncState) (ds : List (Delivery P)) (d : Deliver P)
    (h : Inv c st ds) (hp : c.isProto d.msg = true) (b : Bytes) (hser : c.serialize d.msg = some b)
    (tid : Nat) (tl : List (String × Nat)) (tn : List String) (wT : WF tl tn)
    (pT : st.typeNames <+: tn) (iT : tn[tid]? = some (c.typeName d.msg))
    (sid : Int) (sl : List (Pid × Nat)) (sn : List Pid) (wS : WF sl sn) (pS : st.senders <+: sn)
    (iS : (d.sender = none ∧ sid = -1) ∨
      ∃ s i, d.sender = some s ∧ sid = ((i : Nat) : Int) ∧ sn[i]? = some s)
    (gid : Nat) (gl : List (Pid × Nat)) (gn : List Pid) (wG : WF gl gn) (pG : st.targets <+: gn)
    (iG : gn[gid]? = some d.target) :
    Inv c { typeLookup := tl, typeNames := tn, senderLookup := sl, senders := sn,
            targetLookup := gl, targets := gn,
            messages := st.messages ++
              [{ data := b, typeIdx := tid, senderIdx := sid, targetIdx := gid }] }
      (ds ++ [d.toDelivery]) := by
  refine ⟨wT, wS, wG, fun env h1 h2 h3 => ?_⟩
  simp only at h1 h2 h3 ⊢
  apply decodeMsgs_snoc c env _ _ _ _ (h.dec env (pT.trans h1) (pS.trans h2) (pG.trans h3))
  unfold Deliver.toDelivery
  apply decodeMsg_ok c env b tid gid sid (c.typeName d.msg) d.target d.sender d.msg
    (prefix_getElem? h1 iT) (prefix_getElem? h3 iG) _ (c.roundtrip _ _ hp hser)
  rcases iS with hn | ⟨s, i, e1, e2, e3⟩
  · exact Or.inl hn
  · exact Or.inr ⟨s, i, e1, e2, prefix_getElem? h2 e3⟩

theorem Inv_step (c : Codec P) (st : EncState) (ds : List (Delivery P)) (d : Deliver P)
    (h : Inv c st ds) :
    Inv c (encodeStep c st d) (ds ++ if sendable c d then [d.toDelivery] else []) := by
  unfold encodeStep sendable
  cases hp : c.isProto d.msg with
  | false => simpa using h
  | true =>
    simp only [Bool.true_eq_false, if_false, Bool.true_and]
    obtain ⟨wT, pT, iT⟩ := lookupIdx_spec st.typeLookup (c.typeName d.msg) st.typeNames h.wfT
    obtain ⟨wG, pG, iG⟩ := lookupIdx_spec st.targetLookup d.target st.targets h.wfG
    generalize lookupIdx st.typeLookup (c.typeName d.msg) st.typeNames = rT at *
    generalize lookupIdx st.targetLookup d.target st.targets = rG at *
    obtain ⟨tid, tl, tn⟩ := rT
    obtain ⟨gid, gl, gn⟩ := rG
    simp only at wT pT iT wG pG iG
    cases hsd : d.sender with
    | none =>
      cases hser : c.serialize d.msg with
      | none =>
        simpa using Inv_none c st ds h tl tn wT pT _ _ h.wfS (List.prefix_refl _) gl gn wG pG
      | some b =>
        simpa using Inv_some c st ds d h hp b hser tid tl tn wT pT iT (-1) _ _ h.wfS
          (List.prefix_refl _) (Or.inl ⟨hsd, rfl⟩) gid gl gn wG pG iG
    | some s =>
      simp only
      obtain ⟨wS, pS, iS⟩ := lookupIdx_spec st.senderLookup s st.senders h.wfS
      generalize lookupIdx st.senderLookup s st.senders = rS at *
      obtain ⟨sid, sl, sn⟩ := rS
      simp only at wS pS iS
      cases hser : c.serialize d.msg with
      | none =>
        simpa using Inv_none c st ds h tl tn wT pT sl sn wS pS gl gn wG pG
      | some b =>
        simpa using Inv_some c st ds d h hp b hser tid tl tn wT pT iT sid sl sn wS pS
          (Or.inr ⟨s, sid, hsd, rfl, iS⟩) gid gl gn wG pG iG

theorem Inv_foldl (c : Codec P) (batch : List (Deliver P)) (st : EncState)
    (ds : List (Delivery P)) (h : Inv c st ds) :
    Inv c (batch.foldl (encodeStep c) st)
      (ds ++ (batch.filter (sendable c)).map Deliver.toDelivery) := by
  induction batch generalizing st ds with
  | nil => simpa using h
  | cons d rest ih =>
    have h' := ih _ _ (Inv_step c st ds d h)
    simp only [List.foldl_cons]
    rw [List.filter_cons]
    cases hs : sendable c d
    · simpa [hs] using h'
    · simpa [hs] using h'

theorem Inv_init (c : Codec P) : Inv c ({} : EncState) ([] : List (Delivery P)) :=
  ⟨WF_nil, WF_nil, WF_nil, fun _ _ _ _ => rfl⟩

/-- Round trip: whatever the batch, decoding the encoded envelope yields exactly the sendable
    messages, in order, each with its own target, payload and sender (`none` stays `none`). -/
theorem decode_encode (c : Codec P) (batch : List (Deliver P)) :
    decode c (encode c batch) = ((batch.filter (sendable c)).map Deliver.toDelivery, .ok) := by
  have h := Inv_foldl c batch {} [] (Inv_init c)
  have := h.dec (batch.foldl (encodeStep c) {}).envelope (List.prefix_refl _) (List.prefix_refl _)
    (List.prefix_refl _)
  simpa [decode, encode, EncState.envelope] using this

theorem decodeMsg_justified (c : Codec P) (env : Envelope) (m : Message) (d : Delivery P)
    (h : decodeMsg c env m = some d) :
    ∃ tname,
      idx env.typeNames m.typeIdx = some tname ∧
      idx env.targets m.targetIdx = some d.target ∧
      c.deserialize m.data tname = some d.payload ∧
      d.sender = idx env.senders m.senderIdx := by
  unfold decodeMsg at h
  split at h
  · cases h
  · rename_i tname ht
    split at h
    · cases h
    · rename_i target hg
      simp only at h
      split at h
      · cases h
      · rename_i p hp
        cases h
        exact ⟨tname, ht, hg, hp, rfl⟩

theorem decodeMsgs_justified (c : Codec P) (env : Envelope) (ms : List Message) (d : Delivery P)
    (h : d ∈ (decodeMsgs c env ms).1) : ∃ m ∈ ms, decodeMsg c env m = some d := by
  induction ms with
  | nil => simp [decodeMsgs] at h
  | cons a as ih =>
    simp only [decodeMsgs] at h
    cases ha : decodeMsg c env a with
    | none => simp [ha] at h
    | some d0 =>
      simp only [ha, List.mem_cons] at h
      rcases h with rfl | h
      · exact ⟨a, List.mem_cons_self, ha⟩
      · obtain ⟨m, hm, hd⟩ := ih h
        exact ⟨m, List.mem_cons_of_mem _ hm, hd⟩

/-- every delivery is justified by a message of the envelope whose own indices are valid and name
    the delivery's target, type and sender. -/
theorem decode_justified (c : Codec P) (env : Envelope) (d : Delivery P)
    (h : d ∈ (decode c env).1) :
    ∃ m ∈ env.messages, ∃ tname,
      idx env.typeNames m.typeIdx = some tname ∧
      idx env.targets m.targetIdx = some d.target ∧
      c.deserialize m.data tname = some d.payload ∧
      d.sender = idx env.senders m.senderIdx := by
  obtain ⟨m, hm, hd⟩ := decodeMsgs_justified c env env.messages d h
  exact ⟨m, hm, decodeMsg_justified c env m d hd⟩

theorem decodeMsgs_count (c : Codec P) (env : Envelope) (ms : List Message) :
    (decodeMsgs c env ms).1.length ≤ ms.length ∧
    ((decodeMsgs c env ms).2 = .ok → (decodeMsgs c env ms).1.length = ms.length) := by
  induction ms with
  | nil => simp [decodeMsgs]
  | cons a as ih =>
    simp only [decodeMsgs]
    cases ha : decodeMsg c env a with
    | none => simp
    | some d0 =>
      simp only [List.length_cons]
      exact ⟨Nat.succ_le_succ ih.1, fun ho => by rw [ih.2 ho]⟩

/-- the number of deliveries never exceeds the number of messages, and equals it iff the stream did
    not end with an error. -/
theorem decode_count (c : Codec P) (env : Envelope) :
    (decode c env).1.length ≤ env.messages.length ∧
    ((decode c env).2 = .ok → (decode c env).1.length = env.messages.length) :=
  decodeMsgs_count c env env.messages

end HW.Wire
