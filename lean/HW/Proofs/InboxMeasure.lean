import HW.Proofs.InboxStep
/-!
Termination measure for the L1 inbox model.

A lexicographic pair `(prim, sec)` encoded into `Nat` as `prim * (6 * W0 + 1) + sec`:

* `prim s = Σ_threads pw pc + |q|` — progress of senders / starter / stoppers plus the queue length.
  It strictly decreases on every sender, starter and stopper step and on every successful `PopN`,
  and is unchanged by every other worker step.  Every step that changes `status = stopped` or
  `q = []` (the "mode") is a `prim`-decreasing step.
* `sec s = Σ_threads rk mode pc` — a ranking of the worker program points that DEPENDS ON THE MODE
  (stopped / live with empty queue / live with non-empty queue).  Within one mode some worker
  transitions are impossible, and the remaining ones (including "`wSched` spawns a fresh `wLoad`")
  strictly decrease the rank.
* `wt s = Σ_threads ww pc` — live workers + spawns still possible; never increases, and
  `sec s ≤ 6 * wt s`, which is what makes the `Nat` encoding of the lexicographic order sound.
-/
namespace HW.Inbox

def sumBy (f : Pc → Nat) (l : List Pc) : Nat := (l.map f).sum

@[simp] theorem sumBy_nil (f : Pc → Nat) : sumBy f [] = 0 := rfl
@[simp] theorem sumBy_cons (f : Pc → Nat) (a : Pc) (l : List Pc) :
    sumBy f (a :: l) = f a + sumBy f l := by simp [sumBy]
@[simp] theorem sumBy_append (f : Pc → Nat) (l l' : List Pc) :
    sumBy f (l ++ l') = sumBy f l + sumBy f l' := by simp [sumBy]

theorem sumBy_set_add {l : List Pc} {t : Nat} {pc : Pc} (h : l[t]? = some pc) (f : Pc → Nat)
    (pc' : Pc) : sumBy f (l.set t pc') + f pc = sumBy f l + f pc' := by
  induction l generalizing t with
  | nil => simp at h
  | cons a l ih =>
    cases t with
    | zero =>
      simp at h; subst h
      simp only [List.set_cons_zero, sumBy_cons]
      omega
    | succ t =>
      simp at h
      have := ih h
      simp only [List.set_cons_succ, sumBy_cons]
      omega

theorem sumBy_step {l : List Pc} {t : Nat} {pc : Pc} (h : l[t]? = some pc) (f : Pc → Nat)
    (pc' : Pc) (extra : List Pc) :
    sumBy f (l.set t pc' ++ extra) + f pc = sumBy f l + f pc' + sumBy f extra := by
  rw [sumBy_append]
  have := sumBy_set_add h f pc'
  omega

theorem sumBy_le {f g : Pc → Nat} (c : Nat) (h : ∀ pc, f pc ≤ c * g pc) (l : List Pc) :
    sumBy f l ≤ c * sumBy g l := by
  induction l with
  | nil => simp
  | cons a l ih =>
    simp only [sumBy_cons, Nat.mul_add]
    have := h a
    omega

/-! ### the weights -/

/-- primary weight: senders, starter, stoppers. -/
def pw : Pc → Nat
  | .sPush ms => 3 * ms.length
  | .sSched ms => 3 * ms.length + 1
  | .stLife => 4
  | .stCas => 3
  | .stSwap => 2
  | .stSched => 1
  | .stop => 1
  | _ => 0

/-- live workers + number of `schedule()` calls a non-worker thread can still make. -/
def ww : Pc → Nat
  | .sPush ms => ms.length
  | .sSched ms => ms.length + 1
  | .stop => 0
  | .done => 0
  | _ => 1

/-- secondary rank of a program point in mode `(stopped, empty)`. -/
def rk (stopped empty : Bool) : Pc → Nat
  | .wInvoke _ => if stopped then 6 else if empty then 5 else 3
  | .wLoad => if stopped then 5 else if empty then 4 else 2
  | .wPop => if stopped then 4 else if empty then 3 else 1
  | .wCasIdle => if stopped then 3 else if empty then 2 else 5
  | .wLen => if stopped then 2 else if empty then 1 else 4
  | .wSched => if stopped then 1 else if empty then 5 else 3
  | _ => 0

def prim (s : St) : Nat := sumBy pw s.thr + s.q.length
def sec (s : St) : Nat := sumBy (rk (decide (s.status = .stopped)) (decide (s.q = []))) s.thr
def wt (s : St) : Nat := sumBy ww s.thr

theorem rk_le (b1 b2 : Bool) (pc : Pc) : rk b1 b2 pc ≤ 6 * ww pc := by
  cases pc <;> cases b1 <;> cases b2 <;> simp [rk, ww]

theorem sec_le (s : St) : sec s ≤ 6 * wt s := sumBy_le 6 (rk_le _ _) s.thr

theorem pw_afterSched (ms : List Msg) : pw (afterSched ms) + 1 ≤ pw (.sSched ms) := by
  unfold afterSched; split <;> simp [pw]

theorem ww_afterSched (ms : List Msg) : ww (afterSched ms) + 1 ≤ ww (.sSched ms) := by
  unfold afterSched; split <;> simp [ww]

theorem rk_afterSched (b1 b2 : Bool) (ms : List Msg) : rk b1 b2 (afterSched ms) = 0 := by
  unfold afterSched; split <;> rfl

/-- every step: `wt` does not increase, and `(prim, sec)` decreases lexicographically. -/
theorem Step.measure {B : Nat} (hB : 1 ≤ B) {s s' : St} {t : Nat} {pc pc' : Pc} {extra : List Pc}
    (hpc : s.thr[t]? = some pc) (h : Step B s t pc pc' extra s') :
    wt s' ≤ wt s ∧ (prim s' < prim s ∨ (prim s' = prim s ∧ sec s' < sec s)) := by
  have hthr := h.thr_eq
  have hS : ∀ f : Pc → Nat, sumBy f s'.thr + f pc = sumBy f s.thr + f pc' + sumBy f extra := by
    intro f; rw [hthr]; exact sumBy_step hpc f pc' extra
  have hP := hS pw
  have hW := hS ww
  unfold wt prim sec
  clear hthr
  cases h
  case push m ms =>
    simp [pw, ww] at hP hW ⊢
    omega
  case schedOk hst hsp =>
    cases hsp
    case sender ms =>
      have h1 := pw_afterSched ms
      have h2 := ww_afterSched ms
      simp [pw, ww] at hP hW h1 h2 ⊢
      omega
    case worker =>
      have hR := hS (rk false (decide (s.q = [])))
      simp [pw, ww] at hP hW ⊢
      simp [hst]
      cases hq : decide (s.q = []) <;> simp [hq, rk] at hR ⊢ <;> omega
    case starter =>
      simp [pw, ww] at hP hW ⊢
      omega
  case schedFail hst hsp =>
    cases hsp
    case sender ms =>
      have h1 := pw_afterSched ms
      have h2 := ww_afterSched ms
      simp [pw, ww] at hP hW h1 h2 ⊢
      omega
    case worker =>
      have hR := hS (rk (decide (s.status = .stopped)) (decide (s.q = [])))
      simp [pw, ww] at hP hW ⊢
      cases hq : decide (s.q = []) <;> cases hs : decide (s.status = .stopped) <;>
        simp [hq, hs, rk] at hR ⊢ <;> omega
    case starter =>
      simp [pw, ww] at hP hW ⊢
      omega
  case loadStopped hst =>
    have hR := hS (rk (decide (s.status = .stopped)) (decide (s.q = [])))
    simp [pw, ww] at hP hW ⊢
    simp [hst, rk] at hR ⊢
    omega
  case loadLive hst =>
    have hR := hS (rk (decide (s.status = .stopped)) (decide (s.q = [])))
    simp [pw, ww] at hP hW ⊢
    cases hq : decide (s.q = []) <;> simp [hq, hst, rk] at hR ⊢ <;> omega
  case popEmpty hq =>
    have hR := hS (rk (decide (s.status = .stopped)) (decide (s.q = [])))
    simp [pw, ww] at hP hW ⊢
    cases hs : decide (s.status = .stopped) <;> simp [hq, hs, rk] at hR ⊢ <;> omega
  case pop hq =>
    have hl : 0 < s.q.length := List.length_pos_iff.2 hq
    simp [pw, ww] at hP hW ⊢
    omega
  case invoke b =>
    have hR := hS (rk (decide (s.status = .stopped)) (decide (s.q = [])))
    simp [pw, ww] at hP hW ⊢
    cases hq : decide (s.q = []) <;> cases hs : decide (s.status = .stopped) <;>
      simp [hq, hs, rk] at hR ⊢ <;> omega
  case casOk hst =>
    have hR := hS (rk false (decide (s.q = [])))
    simp [pw, ww] at hP hW ⊢
    simp [hst]
    cases hq : decide (s.q = []) <;> simp [hq, rk] at hR ⊢ <;> omega
  case casFail hst =>
    have hR := hS (rk (decide (s.status = .stopped)) (decide (s.q = [])))
    simp [pw, ww] at hP hW ⊢
    cases hq : decide (s.q = []) <;> cases hs : decide (s.status = .stopped) <;>
      simp [hq, hs, rk] at hR ⊢ <;> omega
  case lenEmpty hq =>
    have hR := hS (rk (decide (s.status = .stopped)) (decide (s.q = [])))
    simp [pw, ww] at hP hW ⊢
    cases hs : decide (s.status = .stopped) <;> simp [hq, hs, rk] at hR ⊢ <;> omega
  case lenNonempty hq =>
    have hR := hS (rk (decide (s.status = .stopped)) (decide (s.q = [])))
    simp [pw, ww] at hP hW ⊢
    cases hs : decide (s.status = .stopped) <;> simp [hq, hs, rk] at hR ⊢ <;> omega
  all_goals
    simp [pw, ww] at hP hW ⊢
    omega

/-- the `Nat` encoding of the lexicographic measure, for a bound `W0` on `wt`. -/
def potential (W0 : Nat) (s : St) : Nat := prim s * (6 * W0 + 1) + sec s

theorem Step.potential_lt {B : Nat} (hB : 1 ≤ B) {W0 : Nat} {s s' : St} {t : Nat} {pc pc' : Pc}
    {extra : List Pc} (hpc : s.thr[t]? = some pc) (h : Step B s t pc pc' extra s')
    (hW : wt s ≤ W0) : wt s' ≤ W0 ∧ potential W0 s' < potential W0 s := by
  obtain ⟨h1, h2⟩ := h.measure hB hpc
  refine ⟨Nat.le_trans h1 hW, ?_⟩
  unfold potential
  rcases h2 with h2 | ⟨h2, h3⟩
  · have hs : sec s' ≤ 6 * W0 := by
      have := sec_le s'
      omega
    have hm : (prim s' + 1) * (6 * W0 + 1) ≤ prim s * (6 * W0 + 1) :=
      Nat.mul_le_mul_right _ h2
    rw [Nat.add_mul] at hm
    omega
  · rw [h2]; omega

end HW.Inbox
