import HW.Model.ClusterSys
import HW.Proofs.Cluster
namespace HW.ClusterSys
open HW.Cluster

/-- every member's view is the set of nodes of the system. -/
def ViewOK (s : Sys) : Prop := ∀ n ∈ s.nodes, ∀ id, id ∈ ids n.agent.members ↔ ∃ m ∈ s.nodes, m.id = id

/-- all members resolve every id to the same PID. -/
def Agree (s : Sys) : Prop := ∀ n ∈ s.nodes, ∀ m ∈ s.nodes, ∀ k, getActiveByID n k = getActiveByID m k

/-- a quiescent, consistent cluster. -/
structure Consistent (s : Sys) : Prop where
  poolEmpty : s.pool = []
  nodesNodup : (s.nodes.map (·.id)).Nodup
  membersNodup : ∀ n ∈ s.nodes, idsNodup n.agent.members
  view : ViewOK s
  agree : Agree s
  keys : ∀ n ∈ s.nodes, ∀ a ∈ n.agent.activated, a.1 = a.2.2

/-- Activate returns nil and changes nothing if the id is already known to the issuing member. -/
theorem activate_known_nil (s : Sys) (nid kind id : String) (sel : Option Nat) (n : Node)
    (hn : getNode s nid = some n) (hk : n.agent.activated.any (·.1 = key kind id) = true) :
    activate s nid kind id sel = (s, none) := by
  sorry

/-- Activate returns nil and changes nothing if no member of the view advertises the kind. -/
theorem activate_nokind_nil (s : Sys) (nid kind id : String) (sel : Option Nat) (n : Node)
    (hn : getNode s nid = some n) (hk : ∀ m ∈ n.agent.members, m.kinds.contains kind = false) :
    activate s nid kind id sel = (s, none) := by
  sorry

/-- if Activate returns a PID: it is `kind/id` on a node that registered the kind, chosen among the
    members advertising it; at most one actor is spawned, and only there. -/
theorem activate_some (s : Sys) (nid kind id : String) (sel : Option Nat) (pid : Pid)
    (h : (activate s nid kind id sel).2 = some pid) :
    pid.2 = key kind id ∧
    ∃ n t, getNode s nid = some n ∧ getNode s t.id = some t ∧ t.host = pid.1 ∧
      t.localKinds.contains kind = true ∧
      (∃ m ∈ n.agent.members, m.id = t.id ∧ m.kinds.contains kind = true) ∧
      ((activate s nid kind id sel).1.log = s.log ∨
       (activate s nid kind id sel).1.log = s.log ++ ["spawn:" ++ t.id ++ ":" ++ key kind id]) := by
  sorry

/-- Agreement: in a consistent cluster, once the notifications of a successful Activate have been
    delivered — in ANY order — every member resolves kind/id to the PID that was returned, and the
    cluster is consistent again. -/
theorem activate_agreement (s : Sys) (hc : Consistent s) (nid kind id : String) (sel : Option Nat) (pid : Pid)
    (order : List Nat)
    (h : (activate s nid kind id sel).2 = some pid)
    (hlen : (activate s nid kind id sel).1.pool.length ≤ order.length) :
    Consistent (drain (activate s nid kind id sel).1 order) ∧
    ∀ n ∈ (drain (activate s nid kind id sel).1 order).nodes, getActiveByID n (key kind id) = some pid := by
  sorry

/-- Deactivate removes the entry on every member, whatever the arrival order. -/
theorem deactivate_everywhere (s : Sys) (hc : Consistent s) (nid : String) (pid : Pid) (order : List Nat)
    (hn : (getNode s nid).isSome = true)
    (hlen : (deactivate s nid pid).pool.length ≤ order.length) :
    Consistent (drain (deactivate s nid pid) order) ∧
    ∀ n ∈ (drain (deactivate s nid pid) order).nodes, getActiveByID n pid.2 = none := by
  sorry

end HW.ClusterSys
