import HW.Model.ClusterSys
import HW.Proofs.Cluster
import HW.Proofs.ClusterSysRound
namespace HW.ClusterSys
open HW.Cluster

/-- every member's view is the set of nodes of the system. -/
def ViewOK (s : Sys) : Prop := ∀ n ∈ s.nodes, ∀ id, id ∈ ids n.agent.members ↔ ∃ m ∈ s.nodes, m.id = id

/-- all members resolve every id to the same PID. -/
def Agree (s : Sys) : Prop := ∀ n ∈ s.nodes, ∀ m ∈ s.nodes, ∀ k, getActiveByID n k = getActiveByID m k

/-- a quiescent, consistent cluster. -/
structure Consistent (s : Sys) : Prop where
  poolEmpty : s.pool = []
  nodesNodup : (s.nodes.map (·.id)).Nodup
  membersNodup : ∀ n ∈ s.nodes, idsNodup n.agent.members
  view : ViewOK s
  agree : Agree s
  keys : ∀ n ∈ s.nodes, ∀ a ∈ n.agent.activated, a.1 = a.2.2


/-! ### helpers (the generic round argument is in `HW.Proofs.ClusterSysRound`) -/

theorem bcast_activation_log (n : Node) (pid : Pid) (ms : List Member) (s : Sys) :
    (bcast s n ms (.activation pid)).log = s.log := by
  unfold bcast
  induction ms generalizing s with
  | nil => rfl
  | cons m ms ih =>
    rw [List.foldl_cons, ih]
    split
    · split
      · rfl
      · rfl
    · rfl

theorem spawnOn_log (s : Sys) (t : Node) (k : String) :
    (spawnOn s t k).log = s.log ∨ (spawnOn s t k).log = s.log ++ ["spawn:" ++ t.id ++ ":" ++ k] := by
  unfold spawnOn
  split
  · exact Or.inl rfl
  · exact Or.inr rfl

theorem spawnOn_base {note : Note} {k' : String} {OK : AgentSt → Prop} {s : Sys} {t : Node} (k : String)
    (hb : Base note k' OK s) (ht : t ∈ s.nodes) : Base note k' OK (spawnOn s t k) := by
  unfold spawnOn
  split
  · exact hb
  · refine base_congr (s := setNode s { t with actors := t.actors ++ [k] }) rfl hb.poolNote ?_
    exact base_setNode hb ht rfl rfl (hb.keys t ht) (hb.ok t ht) (fun _ _ => rfl)

/-- a consistent cluster satisfies the round invariant's base for any key nobody is in the middle of changing. -/
theorem base_of_consistent {note : Note} {k : String} {OK : AgentSt → Prop} {s : Sys} (hc : Consistent s)
    (hok : ∀ n ∈ s.nodes, OK n.agent) : Base note k OK s :=
  ⟨⟨hc.nodesNodup, hc.membersNodup, hc.view⟩, hc.keys, fun n hn m hm k' _ => hc.agree n hn m hm k', hok,
   by rw [hc.poolEmpty]; intro e he; cases he⟩

/-- when the pool has been emptied every node is done, and the cluster is consistent again. -/
theorem consistent_of_inv {note : Note} {k : String} {Done OK : AgentSt → Prop} {s : Sys}
    (hi : Inv note k Done OK s) (hp : s.pool = [])
    (hag : ∀ n m : Node, Done n.agent → Done m.agent → getActiveByID n k = getActiveByID m k) :
    Consistent s ∧ ∀ n ∈ s.nodes, Done n.agent := by
  have hd : ∀ n ∈ s.nodes, Done n.agent := by
    intro n hn
    rcases hi.2 n hn with h | h
    · exact h
    · rw [hp] at h; cases h
  refine ⟨⟨hp, hi.1.struct.1, hi.1.struct.2.1, hi.1.struct.2.2, ?_, hi.1.keys⟩, hd⟩
  intro n hn m hm k'
  by_cases hk : k' = k
  · rw [hk]; exact hag n m (hd n hn) (hd m hm)
  · exact hi.1.agreeOther n hn m hm k' hk

def DoneA (k : String) (pid : Pid) (a : AgentSt) : Prop := (a.activated.find? (·.1 = k)).map (·.2) = some pid
def OKA (k : String) (pid : Pid) (a : AgentSt) : Prop := DoneA k pid a ∨ a.activated.find? (·.1 = k) = none

theorem specA (pid : Pid) :
    Spec (.activation pid) pid.2 (fun a => addActivated a pid) (DoneA pid.2 pid) (OKA pid.2 pid) where
  handle s n := ⟨{ n with agent := addActivated n.agent pid }, rfl, rfl, rfl, rfl⟩
  members a := addActivated_members a pid
  other a k' h := addActivated_find_other a pid k' h
  keys a h := addActivated_keys a pid h
  done a h := by
    have : DoneA pid.2 pid (addActivated a pid) := by
      rcases h with h | h
      · unfold DoneA at h ⊢
        cases hf : a.activated.find? (·.1 = pid.2) with
        | none => rw [hf] at h; cases h
        | some e => rw [addActivated_find_known a pid e hf]; rw [hf] at h; exact h
      · unfold DoneA
        rw [addActivated_find_new a pid h]; rfl
    exact ⟨this, Or.inl this⟩

theorem specD (pid : Pid) :
    Spec (.deactivation pid) pid.2 (fun a => removeActivated a pid)
      (fun a => a.activated.find? (·.1 = pid.2) = none) (fun _ => True) where
  handle s n := by
    simp only [handleNote]
    split
    · exact ⟨{ n with agent := removeActivated n.agent pid, actors := n.actors.filter (· ≠ pid.2) },
        rfl, rfl, rfl, rfl⟩
    · exact ⟨{ n with agent := removeActivated n.agent pid }, rfl, rfl, rfl, rfl⟩
  members _ := rfl
  other a k' h := removeActivated_find_other a pid k' h
  keys a h := removeActivated_keys a pid h
  done a _ := ⟨removeActivated_find_self a pid, trivial⟩

/-- Activate returns nil and changes nothing if the id is already known to the issuing member. -/
theorem activate_known_nil (s : Sys) (nid kind id : String) (sel : Option Nat) (n : Node)
    (hn : getNode s nid = some n) (hk : n.agent.activated.any (·.1 = key kind id) = true) :
    activate s nid kind id sel = (s, none) := by
  unfold activate
  rw [hn]
  simp only [hk, if_true]

/-- Activate returns nil and changes nothing if no member of the view advertises the kind. -/
theorem activate_nokind_nil (s : Sys) (nid kind id : String) (sel : Option Nat) (n : Node)
    (hn : getNode s nid = some n) (hk : ∀ m ∈ n.agent.members, m.kinds.contains kind = false) :
    activate s nid kind id sel = (s, none) := by
  have hf : n.agent.members.filter (fun m => m.kinds.contains kind) = [] := by
    rw [List.filter_eq_nil_iff]
    intro m hm
    rw [hk m hm]; simp
  unfold activate
  rw [hn]
  simp only [hf]
  split
  · rfl
  · simp [sortById]

/-- if Activate returns a PID: it is `kind/id` on a node that registered the kind, chosen among the
    members advertising it; at most one actor is spawned, and only there. -/
theorem activate_some (s : Sys) (nid kind id : String) (sel : Option Nat) (pid : Pid)
    (h : (activate s nid kind id sel).2 = some pid) :
    pid.2 = key kind id ∧
    ∃ n t, getNode s nid = some n ∧ getNode s t.id = some t ∧ t.host = pid.1 ∧
      t.localKinds.contains kind = true ∧
      (∃ m ∈ n.agent.members, m.id = t.id ∧ m.kinds.contains kind = true) ∧
      ((activate s nid kind id sel).1.log = s.log ∨
       (activate s nid kind id sel).1.log = s.log ++ ["spawn:" ++ t.id ++ ":" ++ key kind id]) := by
  rcases activate_shape s nid kind id sel with hnone | ⟨n, t, m, n1, hn, _, hm, hmk, ht, htk, _, heq⟩
  · rw [hnone] at h; cases h
  · rw [heq] at h ⊢
    simp only [Option.some.injEq] at h
    subst h
    refine ⟨rfl, n, t, hn, ?_, rfl, htk, ⟨m, hm, (getNode_some ht).2.symm, hmk⟩, ?_⟩
    · rw [(getNode_some ht).2]; exact ht
    · simp only [bcast_activation_log]
      exact spawnOn_log s t (key kind id)

/-- Agreement: in a consistent cluster, once the notifications of a successful Activate have been
    delivered — in ANY order — every member resolves kind/id to the PID that was returned, and the
    cluster is consistent again. -/
theorem activate_agreement (s : Sys) (hc : Consistent s) (nid kind id : String) (sel : Option Nat) (pid : Pid)
    (order : List Nat)
    (h : (activate s nid kind id sel).2 = some pid)
    (hlen : (activate s nid kind id sel).1.pool.length ≤ order.length) :
    Consistent (drain (activate s nid kind id sel).1 order) ∧
    ∀ n ∈ (drain (activate s nid kind id sel).1 order).nodes, getActiveByID n (key kind id) = some pid := by
  rcases activate_shape s nid kind id sel with hnone | ⟨n, t, m, n1, hn, hk, _, _, ht, _, hn1, heq⟩
  · rw [hnone] at h; cases h
  · rw [heq] at h hlen ⊢
    simp only [Option.some.injEq] at h
    subst h
    simp only at hlen ⊢
    -- nobody knows the key before
    have hnone : ∀ y ∈ s.nodes, y.agent.activated.find? (·.1 = key kind id) = none := by
      intro y hy
      have := hc.agree y hy n (getNode_some hn).1 (key kind id)
      rw [getActiveByID_none.mpr (find_any_false.mp hk)] at this
      exact getActiveByID_none.mp this
    have hb : Base (.activation (t.host, key kind id)) (key kind id)
        (OKA (key kind id) (t.host, key kind id)) s :=
      base_of_consistent hc (fun y hy => Or.inr (hnone y hy))
    have hb1 := spawnOn_base (key kind id) hb (getNode_some ht).1
    obtain ⟨hn1m, _⟩ := getNode_some hn1
    have hinv := bcast_inv (specA (t.host, key kind id)) n1 n1.agent.members hb1
      (fun y hy => (hb1.struct.2.2 n1 hn1m y.id).mpr ⟨y, hy, rfl⟩)
    obtain ⟨hinv', hpool⟩ := drain_inv (specA (t.host, key kind id)) order hinv hlen
    exact consistent_of_inv hinv' hpool (fun a b ha hb => by
      unfold DoneA at ha hb; unfold getActiveByID; rw [ha, hb])

/-- Deactivate removes the entry on every member, whatever the arrival order. -/
theorem deactivate_everywhere (s : Sys) (hc : Consistent s) (nid : String) (pid : Pid) (order : List Nat)
    (hn : (getNode s nid).isSome = true)
    (hlen : (deactivate s nid pid).pool.length ≤ order.length) :
    Consistent (drain (deactivate s nid pid) order) ∧
    ∀ n ∈ (drain (deactivate s nid pid) order).nodes, getActiveByID n pid.2 = none := by
  cases hg : getNode s nid with
  | none => rw [hg] at hn; cases hn
  | some n =>
    unfold deactivate at hlen ⊢
    rw [hg] at hlen ⊢
    have hb : Base (.deactivation pid) pid.2 (fun _ => True) s := base_of_consistent hc (fun _ _ => trivial)
    obtain ⟨hnm, _⟩ := getNode_some hg
    have hinv := bcast_inv (specD pid) n n.agent.members hb
      (fun y hy => (hb.struct.2.2 n hnm y.id).mpr ⟨y, hy, rfl⟩)
    obtain ⟨hinv', hpool⟩ := drain_inv (specD pid) order hinv hlen
    obtain ⟨hcons, hd⟩ := consistent_of_inv hinv' hpool (fun a b ha hb => by
      unfold getActiveByID; rw [ha, hb])
    exact ⟨hcons, fun y hy => getActiveByID_none.mpr (hd y hy)⟩

end HW.ClusterSys
