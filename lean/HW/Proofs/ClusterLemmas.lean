import HW.Model.Cluster
namespace HW.Cluster

/-! ### ids / hasId -/

theorem mem_ids {ms : List Member} {id : String} : id ∈ ids ms ↔ ∃ m ∈ ms, m.id = id := by
  simp [ids, List.mem_map]

theorem hasId_iff {ms : List Member} {id : String} : hasId ms id = true ↔ id ∈ ids ms := by
  simp [hasId, ids, List.any_eq_true, List.mem_map]

theorem hasId_false_iff {ms : List Member} {id : String} : hasId ms id = false ↔ id ∉ ids ms := by
  rw [← hasId_iff]; cases hasId ms id <;> simp

theorem ids_append (a b : List Member) : ids (a ++ b) = ids a ++ ids b := by
  simp [ids]

theorem ids_of_mem {ms : List Member} {m : Member} (h : m ∈ ms) : m.id ∈ ids ms :=
  mem_ids.2 ⟨m, h, rfl⟩

/-! ### setAdd -/

theorem ids_setAdd_overwrite (ms : List Member) (m : Member) :
    ids (ms.map (fun x => if x.id = m.id then m else x)) = ids ms := by
  induction ms with
  | nil => rfl
  | cons a t ih =>
    simp only [ids, List.map_cons] at ih ⊢
    rw [ih]
    by_cases h : a.id = m.id <;> simp [h]

theorem mem_ids_setAdd {ms : List Member} {m : Member} {id : String} :
    id ∈ ids (setAdd ms m) ↔ id ∈ ids ms ∨ id = m.id := by
  unfold setAdd
  by_cases h : hasId ms m.id = true
  · rw [if_pos h, ids_setAdd_overwrite]
    constructor
    · exact Or.inl
    · rintro (h' | h')
      · exact h'
      · subst h'; exact hasId_iff.1 h
  · rw [if_neg h, ids_append]; simp [ids]

theorem nodup_setAdd {ms : List Member} {m : Member} (hn : (ids ms).Nodup) :
    (ids (setAdd ms m)).Nodup := by
  unfold setAdd
  by_cases h : hasId ms m.id = true
  · rw [if_pos h, ids_setAdd_overwrite]; exact hn
  · rw [if_neg h, ids_append]
    have h' : m.id ∉ ids ms := fun hc => h (hasId_iff.2 hc)
    rw [List.nodup_append]
    refine ⟨hn, by simp [ids], ?_⟩
    intro a ha b hb
    simp [ids] at hb
    subst hb
    intro hab; subst hab; exact h' ha

theorem mem_setAdd_sub {ms : List Member} {m x : Member} (h : x ∈ setAdd ms m) : x ∈ ms ∨ x = m := by
  unfold setAdd at h
  by_cases hh : hasId ms m.id = true
  · rw [if_pos hh] at h
    rcases List.mem_map.1 h with ⟨y, hy, rfl⟩
    by_cases c : y.id = m.id <;> simp [c, hy]
  · rw [if_neg hh] at h
    simpa using h

theorem setAdd_fresh {ms : List Member} {m : Member} (h : m.id ∉ ids ms) : setAdd ms m = ms ++ [m] := by
  unfold setAdd
  rw [if_neg]
  intro hc; exact h (hasId_iff.1 hc)

/-! ### foldl setAdd / mkSet -/

theorem mem_ids_foldl_setAdd (js acc : List Member) (id : String) :
    id ∈ ids (js.foldl setAdd acc) ↔ id ∈ ids acc ∨ id ∈ ids js := by
  induction js generalizing acc with
  | nil => simp [ids]
  | cons j t ih =>
    rw [List.foldl_cons, ih, mem_ids_setAdd]
    simp [ids, or_assoc]

theorem nodup_foldl_setAdd (js acc : List Member) (hn : (ids acc).Nodup) :
    (ids (js.foldl setAdd acc)).Nodup := by
  induction js generalizing acc with
  | nil => exact hn
  | cons j t ih => exact ih _ (nodup_setAdd hn)

theorem mem_foldl_setAdd_sub (js acc : List Member) (x : Member) (h : x ∈ js.foldl setAdd acc) :
    x ∈ acc ∨ x ∈ js := by
  induction js generalizing acc with
  | nil => exact Or.inl h
  | cons j t ih =>
    rcases ih _ h with h1 | h1
    · rcases mem_setAdd_sub h1 with h2 | h2
      · exact Or.inl h2
      · subst h2; exact Or.inr (by simp)
    · exact Or.inr (List.mem_cons_of_mem _ h1)

theorem foldl_setAdd_fresh (js acc : List Member) (hn : (ids js).Nodup)
    (hd : ∀ id, id ∈ ids js → id ∉ ids acc) : js.foldl setAdd acc = acc ++ js := by
  induction js generalizing acc with
  | nil => simp
  | cons j t ih =>
    have hj : j.id ∉ ids acc := hd _ (by simp [ids])
    rw [List.foldl_cons, setAdd_fresh hj]
    have hn' : j.id ∉ ids t ∧ (ids t).Nodup := by simpa [ids] using hn
    rw [ih _ hn'.2]
    · simp
    · intro id hid hc
      rw [ids_append] at hc
      rcases List.mem_append.1 hc with hc | hc
      · exact hd id (by simp [ids] at hid ⊢; exact Or.inr hid) hc
      · simp [ids] at hc; subst hc; exact hn'.1 hid

theorem nodup_mkSet (ms : List Member) : (ids (mkSet ms)).Nodup :=
  nodup_foldl_setAdd ms [] (by simp [ids])

theorem mem_ids_mkSet {ms : List Member} {id : String} : id ∈ ids (mkSet ms) ↔ id ∈ ids ms := by
  unfold mkSet; rw [mem_ids_foldl_setAdd]; simp [ids]

theorem mem_mkSet_sub {ms : List Member} {x : Member} (h : x ∈ mkSet ms) : x ∈ ms := by
  rcases mem_foldl_setAdd_sub ms [] x h with h | h
  · simp at h
  · exact h

/-! ### filters: setRemove / except -/

theorem nodup_ids_filter (p : Member → Bool) {ms : List Member} (hn : (ids ms).Nodup) :
    (ids (ms.filter p)).Nodup :=
  List.Nodup.sublist ((List.filter_sublist (l := ms) (p := p)).map _) hn

theorem mem_ids_filter_of_id {ms : List Member} (p : Member → Bool) (q : String → Prop)
    (hpq : ∀ m, p m = true ↔ q m.id) {id : String} :
    id ∈ ids (ms.filter p) ↔ id ∈ ids ms ∧ q id := by
  rw [mem_ids, mem_ids]
  constructor
  · rintro ⟨m, hm, rfl⟩
    rw [List.mem_filter] at hm
    exact ⟨⟨m, hm.1, rfl⟩, (hpq m).1 hm.2⟩
  · rintro ⟨⟨m, hm, rfl⟩, hq⟩
    exact ⟨m, List.mem_filter.2 ⟨hm, (hpq m).2 hq⟩, rfl⟩

theorem mem_ids_except {s t : List Member} {id : String} :
    id ∈ ids (except s t) ↔ id ∈ ids s ∧ id ∉ ids t := by
  unfold except
  apply mem_ids_filter_of_id _ (fun id => id ∉ ids t)
  intro m
  rw [← hasId_false_iff]; cases hasId t m.id <;> simp

theorem nodup_except {s : List Member} (t : List Member) (hn : (ids s).Nodup) :
    (ids (except s t)).Nodup := nodup_ids_filter _ hn

theorem mem_ids_setRemove {s : List Member} {x id : String} :
    id ∈ ids (setRemove s x) ↔ id ∈ ids s ∧ id ≠ x := by
  unfold setRemove
  apply mem_ids_filter_of_id _ (fun id => id ≠ x)
  intro m; simp

theorem nodup_setRemove {s : List Member} (x : String) (hn : (ids s).Nodup) :
    (ids (setRemove s x)).Nodup := nodup_ids_filter _ hn

/-! ### kinds -/

theorem mem_addKinds (ks acc : List String) (k : String) : k ∈ addKinds acc ks ↔ k ∈ acc ∨ k ∈ ks := by
  unfold addKinds
  induction ks generalizing acc with
  | nil => simp
  | cons a t ih =>
    rw [List.foldl_cons, ih]
    by_cases h : a ∈ acc
    · rw [if_pos h]
      constructor
      · rintro (h1 | h1)
        · exact Or.inl h1
        · exact Or.inr (List.mem_cons_of_mem _ h1)
      · rintro (h1 | h1)
        · exact Or.inl h1
        · rcases List.mem_cons.1 h1 with h2 | h2
          · subst h2; exact Or.inl h
          · exact Or.inr h2
    · rw [if_neg h]
      simp [or_assoc]

theorem mem_foldl_addKinds (ms : List Member) (acc : List String) (k : String) :
    k ∈ ms.foldl (fun acc m => addKinds acc m.kinds) acc ↔ k ∈ acc ∨ ∃ m ∈ ms, k ∈ m.kinds := by
  induction ms generalizing acc with
  | nil => simp
  | cons a t ih =>
    rw [List.foldl_cons, ih, mem_addKinds]
    simp [or_assoc]

theorem mem_rebuildKinds (ms : List Member) (k : String) :
    k ∈ rebuildKinds ms ↔ ∃ m ∈ ms, k ∈ m.kinds := by
  unfold rebuildKinds; rw [mem_foldl_addKinds]; simp

/-! ### outputs -/

theorem joinIds_append (a b : List AgentOut) : joinIds (a ++ b) = joinIds a ++ joinIds b := by
  simp [joinIds, List.filterMap_append]

theorem leaveIds_append (a b : List AgentOut) : leaveIds (a ++ b) = leaveIds a ++ leaveIds b := by
  simp [leaveIds, List.filterMap_append]

/-! ### runAll memberJoin -/

theorem runAll_cons (f : AgentSt → Member → AgentSt × List AgentOut) (st : AgentSt) (m : Member)
    (ms : List Member) :
    runAll f st (m :: ms) = ((runAll f (f st m).1 ms).1, (f st m).2 ++ (runAll f (f st m).1 ms).2) := rfl

theorem join_members (js : List Member) (st : AgentSt) :
    (runAll memberJoin st js).1.members = js.foldl setAdd st.members := by
  induction js generalizing st with
  | nil => rfl
  | cons j t ih => rw [runAll_cons]; simp only [ih]; rfl

theorem join_kinds (js : List Member) (st : AgentSt) :
    (runAll memberJoin st js).1.kinds = js.foldl (fun acc m => addKinds acc m.kinds) st.kinds := by
  induction js generalizing st with
  | nil => rfl
  | cons j t ih => rw [runAll_cons]; simp only [ih]; rfl

theorem join_joinIds (js : List Member) (st : AgentSt) :
    joinIds (runAll memberJoin st js).2 = ids js := by
  induction js generalizing st with
  | nil => rfl
  | cons j t ih =>
    rw [runAll_cons]; simp only [joinIds_append, ih]
    simp only [memberJoin]
    split <;> simp [joinIds, ids]

theorem join_leaveIds (js : List Member) (st : AgentSt) :
    leaveIds (runAll memberJoin st js).2 = [] := by
  induction js generalizing st with
  | nil => rfl
  | cons j t ih =>
    rw [runAll_cons]; simp only [leaveIds_append, ih]
    simp only [memberJoin]
    split <;> simp [leaveIds]

/-! ### runAll memberLeave -/

theorem leave_members (ls : List Member) (st : AgentSt) :
    (runAll memberLeave st ls).1.members = st.members.filter (fun x => !hasId ls x.id) := by
  induction ls generalizing st with
  | nil =>
    simp only [runAll, hasId, List.any_nil, Bool.not_false]
    exact (List.filter_eq_self.2 (fun _ _ => rfl)).symm
  | cons l t ih =>
    rw [runAll_cons, ih]
    simp only [memberLeave, setRemove, List.filter_filter]
    apply List.filter_congr
    intro x _
    simp only [hasId, List.any_cons]
    by_cases c : l.id = x.id
    · simp [c]
    · have c' : ¬ x.id = l.id := fun e => c e.symm
      simp [c, c']

theorem leave_kinds (ls : List Member) (st : AgentSt) (hne : ls ≠ []) :
    (runAll memberLeave st ls).1.kinds = rebuildKinds (runAll memberLeave st ls).1.members := by
  induction ls generalizing st with
  | nil => exact absurd rfl hne
  | cons l t ih =>
    rw [runAll_cons]
    by_cases ht : t = []
    · subst ht; rfl
    · exact ih _ ht

theorem leave_leaveIds (ls : List Member) (st : AgentSt) :
    leaveIds (runAll memberLeave st ls).2 = ids ls := by
  induction ls generalizing st with
  | nil => rfl
  | cons l t ih =>
    rw [runAll_cons]; simp only [leaveIds_append, ih]
    simp [memberLeave, leaveIds, ids]

theorem leave_joinIds (ls : List Member) (st : AgentSt) :
    joinIds (runAll memberLeave st ls).2 = [] := by
  induction ls generalizing st with
  | nil => rfl
  | cons l t ih =>
    rw [runAll_cons]; simp only [joinIds_append, ih]
    simp [memberLeave, joinIds]

theorem handleMembers_eq (st : AgentSt) (snap : List Member) :
    handleMembers st snap =
      ((runAll memberLeave (runAll memberJoin st (except (mkSet snap) st.members)).1
          (except st.members snap)).1,
       (runAll memberJoin st (except (mkSet snap) st.members)).2 ++
       (runAll memberLeave (runAll memberJoin st (except (mkSet snap) st.members)).1
          (except st.members snap)).2) := rfl

end HW.Cluster
