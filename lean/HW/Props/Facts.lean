/-
Regenerated facts (DESIGN.md section 1): `HW/Generated/Facts.lean` is rewritten from the repository
source by harness/extract on every check run; the theorems below compare it with what the model
assumes. If the source changes one of them this file no longer builds, which the pipeline treats like
a correspondence break of every property that imports it.
-/
import HW.Generated.Facts
namespace HW.Facts
open HW.Generated

/-- constants the models are instantiated with -/
theorem constants :
    messageBatchSize = 4096 ∧ defaultInboxSize = 1024 ∧ defaultMaxRestarts = 3 ∧
    streamWriterBatchSize = 1024 ∧ statusOrder = ["stopped", "starting", "idle", "running"] := by
  decide

/-- every RingBuffer method is one critical section of the single mutex; `Len` is one atomic load
    of a counter that is only written with atomic adds (inside those critical sections). -/
theorem ring_atomic :
    ringLockShape = [("Push", true), ("Pop", true), ("PopN", true)] ∧
    ringLenIsAtomicLoad = true ∧ ringLenOnlyAtomicWrites = true := by
  decide

/-- each method updates the length counter exactly once (its linearization point, inside its critical section). -/
theorem ring_linearization_points : ringLenAdds = [("Push", 1), ("Pop", 1), ("PopN", 1)] := by
  decide

/-- registry operations are single critical sections; `add` checks and inserts under one. -/
theorem registry_atomic :
    registryLockShape = [("Remove", true), ("get", true), ("getByID", true)] ∧
    registryAddAtomic = true := by
  decide

/-- the registry's mutex is used by registry.go only: the sections above are ALL its critical sections, and no caller can
    hold the lock across a call that takes it again (a read lock is not re-entrant once a writer waits). -/
theorem registry_mutex_private : registryMuPrivate = true := by
  decide

theorem safemap_atomic :
    safemapLockShape = [("Delete", true), ("ForEach", true), ("Get", true), ("Len", true), ("Set", true)] := by
  decide

end HW.Facts
