/-
C18 — the cluster membership view follows the provider's snapshots exactly.
-/
import HW.Proofs.Cluster
import HW.Proofs.ClusterHist
namespace HW.C18
open HW.Cluster

/-- after a snapshot has been processed, Members() equals the snapshot by member id — for any
    previous view and any snapshot (growing, shrinking, repeated, with duplicate entries). -/
theorem view_equals_snapshot (st : AgentSt) (snap : List Member) (h : idsNodup st.members) :
    idsNodup (handleMembers st snap).1.members ∧
    ∀ id, id ∈ ids (handleMembers st snap).1.members ↔ id ∈ ids snap :=
  handle_view st snap h

/-- exactly one MemberJoinEvent for each member that was not in the previous view, exactly one
    MemberLeaveEvent for each that dropped out, none for members that stayed. -/
theorem events_exact (st : AgentSt) (snap : List Member) (h : idsNodup st.members) :
    (joinIds (handleMembers st snap).2).Nodup ∧ (leaveIds (handleMembers st snap).2).Nodup ∧
    (∀ id, id ∈ joinIds (handleMembers st snap).2 ↔ id ∈ ids snap ∧ id ∉ ids st.members) ∧
    (∀ id, id ∈ leaveIds (handleMembers st snap).2 ↔ id ∈ ids st.members ∧ id ∉ ids snap) :=
  handle_events st snap h

/-- HasKind(k) is true exactly when some member of the current view advertises k (every snapshot
    contains the observing node, which advertises its local kinds). -/
theorem haskind_exact (localKinds : List String) (selfId : String) (st : AgentSt) (snap : List Member)
    (h : idsNodup st.members) (hk : KindsInv localKinds st)
    (hself : selfId ∈ ids snap) (hselfk : ∀ m ∈ snap, m.id = selfId → m.kinds = localKinds)
    (hselfold : ∀ m ∈ st.members, m.id = selfId → m.kinds = localKinds) :
    KindsInv localKinds (handleMembers st snap).1 ∧
    (∀ k, k ∈ (handleMembers st snap).1.kinds ↔ ∃ m ∈ (handleMembers st snap).1.members, k ∈ m.kinds) ∧
    (∀ m ∈ (handleMembers st snap).1.members, m.id = selfId → m.kinds = localKinds) :=
  handle_kinds localKinds selfId st snap h hk hself hselfk hselfold

/-- the agent's initial state satisfies the premises. -/
theorem initial_state (localKinds : List String) :
    idsNodup ({ kinds := localKinds } : AgentSt).members ∧ KindsInv localKinds { kinds := localKinds } := by
  constructor
  · simp [idsNodup, ids]
  · intro k; simp

/-! ### every sequence of snapshots (the property's quantifier) -/

/-- the invariant the one-step theorems need holds along every history. -/
theorem history_nodup (st : AgentSt) (h : idsNodup st.members) (snaps : List (List Member)) :
    idsNodup (runSnaps st snaps).1.members :=
  runSnaps_nodup st h snaps

/-- after ANY non-empty sequence of snapshots (growing, shrinking, repeated, with duplicate entries) Members() is
    the last snapshot, by member id. -/
theorem history_view_is_last_snapshot (st : AgentSt) (h : idsNodup st.members) (snaps : List (List Member))
    (last : List Member) (hl : snaps.getLast? = some last) :
    ∀ id, id ∈ ids (runSnaps st snaps).1.members ↔ id ∈ ids last :=
  runSnaps_view st h snaps last hl

/-- event accounting over the whole history: for every member id, joins − leaves published so far = (in the view
    now) − (in the view at the start): no event missing, doubled, or published for a member that stayed. -/
theorem history_events_balance (st : AgentSt) (h : idsNodup st.members) (snaps : List (List Member)) (id : String) :
    (joinIds (runSnaps st snaps).2).count id + (if id ∈ ids st.members then 1 else 0) =
    (leaveIds (runSnaps st snaps).2).count id + (if id ∈ ids (runSnaps st snaps).1.members then 1 else 0) :=
  runSnaps_balance st h snaps id

example :
    let a : Member := ⟨"A", "hA:1", ["k1"]⟩
    let b : Member := ⟨"B", "hB:1", ["k1", "k2"]⟩
    let s1 := (handleMembers { kinds := ["k1"] } [a, b, b]).1
    let r := handleMembers s1 [a]
    ids s1.members = ["A", "B"] ∧ s1.kinds = ["k1", "k2"] ∧ joinIds (handleMembers { kinds := ["k1"] } [a, b, b]).2 = ["A", "B"] ∧
    ids r.1.members = ["A"] ∧ r.1.kinds = ["k1"] ∧ leaveIds r.2 = ["B"] := by
  decide

end HW.C18
