/-
C05 — a panicking Receive is contained and the actor resumes behind it.
-/
import HW.Proofs.ProcShape
import HW.Proofs.ProcReplay
namespace HW.C05
open HW.Proc

/-- containment: no panic propagates out of the process, whatever the script and history. -/
theorem contained (max mw : Nat) (script : List Outcome) (batches : List (List Msg)) :
    (runHistory max mw script batches).2 = none :=
  Shape.runHistory_no_escape max mw script batches

/-- replay: over all incarnations the user messages received are a prefix of the history — each at
    most once, in the original order, with its own sender; the message that caused a panic is not
    delivered again; nothing sent later overtakes the replayed ones. -/
theorem replay_exactly_once_in_order (max mw : Nat) (script : List Outcome) (batches : List (List Msg)) :
    replayPrefixOK batches (runHistory max mw script batches).1.trace = true :=
  replay_prefix max mw script batches

/-- and an actor that is still alive at the end has received all of them. -/
theorem replay_complete_if_alive (max mw : Nat) (script : List Outcome) (batches : List (List Msg))
    (hne : ∀ b ∈ batches, b ≠ [])
    (hf : (runHistory max mw script batches).1.fuelOut = false)
    (ha : (runHistory max mw script batches).1.stopped = false) :
    userRecvs (runHistory max mw script batches).1.trace = allUsers batches :=
  replay_complete max mw script batches hne hf ha

/-- restart events carry the incremented count: they are numbered 1, 2, 3, … -/
theorem restart_events_numbered (max mw : Nat) (script : List Outcome) (batches : List (List Msg)) :
    restartsOK max (runHistory max mw script batches).1.trace = true :=
  Shape.restarts_ok max mw script batches

/-- non-vacuity: a panic on the 2nd of 4 messages: Stopped to the old incarnation, restart event 1,
    new incarnation initialised, then exactly messages 3 and 4. -/
example :
    (runHistory 2 0 [.ok, .ok, .ok, .panic] [[.user 1 none, .user 2 none, .user 3 none, .user 4 none]]).1.trace =
      [.producer 1, .recv 1 .initialized 0 true, .ev .initialized, .recv 1 .started 0 true, .ev .started, .inboxStart true,
       .recv 1 (.user 1 none) 0 true, .recv 1 (.user 2 none) 0 true,
       .recv 1 .stopped 0 true, .ev (.restarted 1),
       .producer 2, .recv 2 .initialized 0 true, .ev .initialized, .recv 2 .started 0 true, .ev .started,
       .recv 2 (.user 3 none) 0 true, .recv 2 (.user 4 none) 0 true, .inboxStart false] := by
  decide +kernel

end HW.C05
