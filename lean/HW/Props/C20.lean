/-
C20 — the self-managed provider keeps a correct member list through joins and failures.
Well-formedness: member hosts are pairwise distinct (GetByHost returns an arbitrary one of several
members sharing a host).
-/
import HW.Proofs.Cluster
import HW.Proofs.ClusterHist
namespace HW.C20
open HW.Cluster

/-- a handshake adds the peer, answers with the complete member list and reports the new list. -/
theorem handshake (st : ProvSt) (peer : Member) (h : idsNodup st.members) :
    idsNodup (provHandshake st peer).1.members ∧
    (∀ id, id ∈ ids (provHandshake st peer).1.members ↔ id ∈ ids st.members ∨ id = peer.id) ∧
    (provHandshake st peer).2 =
      [.agent (ids (provHandshake st peer).1.members), .reply (ids (provHandshake st peer).1.members)] :=
  prov_handshake st peer h

/-- a member list adds every member in it. -/
theorem members_adds_all (st : ProvSt) (ms : List Member) (h : idsNodup st.members) :
    idsNodup (provMembers st ms).1.members ∧
    (∀ id, id ∈ ids (provMembers st ms).1.members ↔ id ∈ ids st.members ∨ id ∈ ids ms) ∧
    (provMembers st ms).2 = [.agent (ids (provMembers st ms).1.members)] :=
  prov_members st ms h

/-- an unreachable report for a member's address removes that member, only that member, and tells the agent. -/
theorem leave_member_only (st : ProvSt) (addr : String) (m : Member) (h : idsNodup st.members)
    (hhosts : ∀ a ∈ st.members, ∀ b ∈ st.members, a.host = b.host → a = b)
    (hm : m ∈ st.members) (hh : m.host = addr) :
    idsNodup (provLeave st addr).1.members ∧
    (∀ id, id ∈ ids (provLeave st addr).1.members ↔ id ∈ ids st.members ∧ id ≠ m.id) ∧
    (provLeave st addr).2 = [.agent (ids (provLeave st addr).1.members)] :=
  prov_leave_member st addr m h hhosts hm hh

/-- an unreachable report for an address that is not a member changes nothing (and the provider keeps
    running with its list intact: the handler is the identity on the state). -/
theorem leave_nonmember_noop (st : ProvSt) (addr : String) (h : ∀ m ∈ st.members, m.host ≠ addr) :
    provLeave st addr = (st, []) :=
  prov_leave_nonmember st addr h

/-! ### every sequence of handshakes, member lists and unreachable reports (the property's quantifier) -/

/-- REFINEMENT: for all histories, in any order, with repeated and non-member reports, the provider's member list is
    (as a set of ids, duplicate free) exactly what the abstract set semantics `specRun` computes: a handshake adds the
    peer, a list adds all of it, an unreachable report removes the member at that address and only that one, a report
    for a non-member address removes nothing. Well-formedness: each member id has one address (`hostOf`), distinct ids
    have distinct addresses. -/
theorem history_refines_set_semantics (hostOf : String → String) (hinj : ∀ a b, hostOf a = hostOf b → a = b)
    (st : ProvSt) (h : idsNodup st.members) (hst : ∀ m ∈ st.members, m.host = hostOf m.id)
    (ops : List ProvOp) (hops : ∀ op ∈ ops, opWf hostOf op) :
    idsNodup (provRun st ops).members ∧
    (∀ m ∈ (provRun st ops).members, m.host = hostOf m.id) ∧
    (∀ id, id ∈ ids (provRun st ops).members ↔ id ∈ specRun hostOf (ids st.members) ops) :=
  provRun_refines hostOf hinj st h hst ops hops

/-- every handled message reports the then-current list to the agent; only a non-member unreachable report is silent. -/
theorem every_step_reports (st : ProvSt) (op : ProvOp) :
    (provStep st op).2 = [] ∨ ProvOut.agent (ids (provStep st op).1.members) ∈ (provStep st op).2 :=
  provStep_reports st op

/-- non-vacuity of the refinement: join B, join C, B fails, B rejoins, B fails again, a report for a stranger. -/
example :
    let mk (id : String) : Member := ⟨id, "h" ++ id ++ ":1", ["k1"]⟩
    let ops : List ProvOp := [.handshake (mk "B"), .members [mk "C"], .leave "hB:1", .handshake (mk "B"), .leave "hB:1", .leave "hZ:1"]
    ids (provRun { members := [mk "A"] } ops).members = ["A", "C"] ∧
    specRun (fun id => "h" ++ id ++ ":1") ["A"] ops = ["A", "C"] := by
  decide

example :
    let a : Member := ⟨"A", "hA:1", ["k1"]⟩
    let b : Member := ⟨"B", "hB:1", ["k1"]⟩
    let s1 := (provHandshake { members := [a] } b).1
    ids s1.members = ["A", "B"] ∧ (provLeave s1 "hZ:1").2 = [] ∧ ids (provLeave s1 "hZ:1").1.members = ["A", "B"] ∧
    ids (provLeave s1 "hB:1").1.members = ["A"] := by
  decide

end HW.C20
