/-
C01 — local delivery is exactly-once, content-faithful and order-preserving.
Composition: ring buffer = FIFO (C14), inbox protocol (this file), `invokeMsg` hands the envelope's
message and sender to Receive (C04/C13 process model, stream "proc").
-/
import HW.Proofs.Inbox
import HW.Props.C14
namespace HW.C01
open HW.Inbox

/-- Nothing is lost, duplicated or reordered inside the inbox: in every reachable state what was
    delivered, the batch in flight and the queue are together exactly what was pushed, in push order. -/
theorem conservation (B : Nat) (hB : 1 ≤ B) (senders : List (List Msg)) (nStop : Nat) (s : St)
    (hr : Reachable B senders nStop s) (hp : s.restartedAfterStop = false) :
    ∃ inflight, (inflight = [] ∨ ∃ t : Nat, s.thr[t]? = some (Pc.wInvoke inflight)) ∧
      s.delivered ++ inflight ++ s.q = s.pushed.map (·.2) :=
  Inbox.conservation B hB senders nStop s hr hp

/-- Exactly once and in order: once the senders have fallen silent, a live (never stopped) actor has
    received exactly the accepted messages, each once, in the order they were accepted — for any
    number of senders, any batch size, however the backlog was split into batches. -/
theorem exactly_once_in_order (B : Nat) (hB : 1 ≤ B) (senders : List (List Msg)) (nStop : Nat) (s : St)
    (hr : Reachable B senders nStop s) (hq : quiescent s = true) (hn : s.everStopped = false) :
    s.delivered = s.pushed.map (·.2) :=
  (Inbox.quiescent_all_delivered B hB senders nStop s hr hq hn).2.2.2

/-- Program order (the happens-before order of successive sends from one goroutine): the messages a
    sender has had accepted so far are a prefix of its program, in program order. -/
theorem sender_program_order (B : Nat) (senders : List (List Msg)) (nStop : Nat) (s : St)
    (hr : Reachable B senders nStop s) (i : Nat) (prog : List Msg) (hi : senders[i]? = some prog) :
    ∃ rest, sentBy s (i + 1) ++ rest = prog ∧
      (s.thr[i + 1]? = some (Pc.sPush rest) ∨ s.thr[i + 1]? = some (Pc.sSched rest) ∨
       (rest = [] ∧ s.thr[i + 1]? = some Pc.done)) :=
  Inbox.sender_program_order B senders nStop s hr i prog hi

/-- the queue underneath is the ring buffer, which refines a FIFO for every capacity ≥ 1 (C14). -/
theorem ring_is_fifo (size : Nat) (h : 1 ≤ size) (ops : List (RingOp Nat)) :
    (Ring.new size : Ring Nat).run ops = Fifo.run [] ops :=
  C14.refines_fifo size h ops

/-- non-vacuity: two senders, batch size 1, a quiescent end state with everything delivered. -/
example :
    let s := runSched 1 (init [[1, 2], [3]] 0) [0, 0, 0, 1, 0, 2, 1, 1, 1, 2, 3, 3, 3, 3, 3, 3, 3, 3, 3, 3, 3, 3, 3]
    quiescent s = true ∧ s.delivered = [1, 3, 2] ∧ s.pushed.map (·.2) = [1, 3, 2] := by
  decide

end HW.C01
