/-
C01 — local delivery is exactly-once, content-faithful and order-preserving.
Composition: ring buffer = FIFO (C14), inbox protocol (this file), `invokeMsg` hands the envelope's
message and sender to Receive (C04/C13 process model, stream "proc").
-/
import HW.Proofs.Inbox
import HW.Props.C14
import HW.Proofs.ProcReplay
namespace HW.C01
open HW.Inbox

/-- Nothing is lost, duplicated or reordered inside the inbox: in every reachable state what was
    delivered, the batch in flight and the queue are together exactly what was pushed, in push order. -/
theorem conservation (B : Nat) (hB : 1 ≤ B) (senders : List (List Msg)) (nStop : Nat) (s : St)
    (hr : Reachable B senders nStop s) (hp : s.restartedAfterStop = false) :
    ∃ inflight, (inflight = [] ∨ ∃ t : Nat, s.thr[t]? = some (Pc.wInvoke inflight)) ∧
      s.delivered ++ inflight ++ s.q = s.pushed.map (·.2) :=
  Inbox.conservation B hB senders nStop s hr hp

/-- Exactly once and in order: once the senders have fallen silent, a live (never stopped) actor has
    received exactly the accepted messages, each once, in the order they were accepted — for any
    number of senders, any batch size, however the backlog was split into batches. -/
theorem exactly_once_in_order (B : Nat) (hB : 1 ≤ B) (senders : List (List Msg)) (nStop : Nat) (s : St)
    (hr : Reachable B senders nStop s) (hq : quiescent s = true) (hn : s.everStopped = false) :
    s.delivered = s.pushed.map (·.2) :=
  (Inbox.quiescent_all_delivered B hB senders nStop s hr hq hn).2.2.2

/-- Program order (the happens-before order of successive sends from one goroutine): the messages a
    sender has had accepted so far are a prefix of its program, in program order. -/
theorem sender_program_order (B : Nat) (senders : List (List Msg)) (nStop : Nat) (s : St)
    (hr : Reachable B senders nStop s) (i : Nat) (prog : List Msg) (hi : senders[i]? = some prog) :
    ∃ rest, sentBy s (i + 1) ++ rest = prog ∧
      (s.thr[i + 1]? = some (Pc.sPush rest) ∨ s.thr[i + 1]? = some (Pc.sSched rest) ∨
       (rest = [] ∧ s.thr[i + 1]? = some Pc.done)) :=
  Inbox.sender_program_order B senders nStop s hr i prog hi

/-- the queue underneath is the ring buffer, which refines a FIFO for every capacity ≥ 1 (C14). -/
theorem ring_is_fifo (size : Nat) (h : 1 ≤ size) (ops : List (RingOp Nat)) :
    (Ring.new size : Ring Nat).run ops = Fifo.run [] ops :=
  C14.refines_fifo size h ops

/-- the envelope of inbox message `m`: a user message with payload `m` and the sender the caller attached
    (`snd m`; `none` = no sender). The inbox model moves opaque naturals, the process model envelopes. -/
def envOf (snd : Msg → Option Nat) (m : Msg) : Proc.Msg := .user m (snd m)

theorem usersOf_map_envOf (snd : Msg → Option Nat) (l : List Msg) :
    Proc.usersOf (l.map (envOf snd)) = l.map (fun m => (m, snd m)) := by
  induction l with
  | nil => rfl
  | cons m l ih => simp [envOf, Proc.usersOf, ih] at *

/-- END TO END (composition of the inbox protocol, this file, with the process model, C05): take any
    number of senders, any interleaving, any batch size; once the senders have fallen silent and the
    actor was never stopped, split what the inbox handed to `Invoke` into batches in ANY way, let the
    receiver panic wherever the script says (restarts, replay) — if the actor is alive at the end, then
    what its `Receive` saw, over all incarnations, is exactly the sequence of accepted messages: each once,
    in acceptance order, unmodified, each with its own sender. -/
theorem end_to_end (B : Nat) (hB : 1 ≤ B) (senders : List (List Msg)) (nStop : Nat) (s : St)
    (hr : Reachable B senders nStop s) (hq : quiescent s = true) (hn : s.everStopped = false)
    (snd : Msg → Option Nat) (batches : List (List Proc.Msg))
    (hsplit : batches.flatten = s.delivered.map (envOf snd)) (hne : ∀ b ∈ batches, b ≠ [])
    (max mw : Nat) (script : List Proc.Outcome)
    (halive : (Proc.runHistory max mw script batches).1.stopped = false) :
    Proc.userRecvs (Proc.runHistory max mw script batches).1.trace
      = (s.pushed.map (·.2)).map (fun m => (m, snd m)) := by
  rw [Proc.replay_complete max mw script batches hne (Proc.fuel_sufficient max mw script batches) halive]
  unfold Proc.allUsers
  rw [hsplit, usersOf_map_envOf, exactly_once_in_order B hB senders nStop s hr hq hn]

/-- non-vacuity of `end_to_end`: the schedule of the example below, its three deliveries split into two
    batches, a panic on the second message (one restart): Receive saw 1, 3, 2 with their senders. -/
example :
    let s := runSched 1 (init [[1, 2], [3]] 0) [0, 0, 0, 1, 0, 2, 1, 1, 1, 2, 3, 3, 3, 3, 3, 3, 3, 3, 3, 3, 3, 3, 3]
    let snd : Msg → Option Nat := fun m => if m = 3 then some 7 else none
    let batches : List (List Proc.Msg) := [[envOf snd 1, envOf snd 3], [envOf snd 2]]
    batches.flatten = s.delivered.map (envOf snd) ∧
    (Proc.runHistory 2 0 [.ok, .ok, .ok, .panic] batches).1.stopped = false ∧
    Proc.userRecvs (Proc.runHistory 2 0 [.ok, .ok, .ok, .panic] batches).1.trace = [(1, none), (3, some 7), (2, none)] := by
  decide +kernel

/-- non-vacuity: two senders, batch size 1, a quiescent end state with everything delivered. -/
example :
    let s := runSched 1 (init [[1, 2], [3]] 0) [0, 0, 0, 1, 0, 2, 1, 1, 1, 2, 3, 3, 3, 3, 3, 3, 3, 3, 3, 3, 3, 3, 3]
    quiescent s = true ∧ s.delivered = [1, 3, 2] ∧ s.pushed.map (·.2) = [1, 3, 2] := by
  decide

end HW.C01
