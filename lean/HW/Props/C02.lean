/-
C02 — an actor processes one message at a time (serial, race-free Receive).
-/
import HW.Proofs.Inbox
import HW.Proofs.ProcReopen
import HW.Props.Facts
namespace HW.C02
open HW.Inbox

/-- In every reachable state, for any number of concurrent senders, stoppers and workers and every
    interleaving, at most one goroutine is inside the actor's Receive (an inbox worker inside
    `Invoke`, or the spawning goroutine delivering Initialized/Started), provided the inbox is not
    re-opened after a Stop (an obligation on process.go, discharged for the life-cycle model in C04). -/
theorem mutex (B : Nat) (hB : 1 ≤ B) (senders : List (List Msg)) (nStop : Nat) (s : St)
    (hr : Reachable B senders nStop s) (hp : s.restartedAfterStop = false) :
    nInside s ≤ 1 :=
  Inbox.mutex B hB senders nStop s hr hp

/-- The obligation on process.go is discharged for the life-cycle model: for every restart budget,
    chain, crash script and history the inbox of a process is opened at most once in its life (a
    restart finds it running: its `inbox.Start` is a no-op; a process stopped during replay does not
    re-open it) — so `restartedAfterStop` stays false. -/
theorem inbox_opened_at_most_once (max mw : Nat) (script : List Proc.Outcome) (batches : List (List Proc.Msg)) :
    Proc.noReopen (Proc.runHistory max mw script batches).1.trace = true :=
  Proc.no_reopen max mw script batches

/-- Happens-before between consecutive invocations rests on Go atomics: a worker leaves `Receive`
    before its CAS(running,idle); the next worker is created by the goroutine whose CAS(idle,running)
    succeeded. The protocol constants this argument uses are the ones in the source. -/
theorem status_constants : Generated.statusOrder = ["stopped", "starting", "idle", "running"] := by decide

/-- non-vacuity: a state with one worker inside Receive while a second sender has already pushed. -/
example :
    let s := runSched 1 (init [[1], [2]] 0) [0, 0, 0, 1, 0, 3, 3, 2]
    nInside s = 1 ∧ s.q = [2] ∧ s.restartedAfterStop = false := by
  decide

end HW.C02
