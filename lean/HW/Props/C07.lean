/-
C07 — Stop/Poison: drain, stop, then signal — and every caller is signalled.
Full statement: every pill of every history is cancelled. That is FALSE for the code as it is
(known finding KF-D4, proved below with a concrete witness); what holds is `cancel_last` for all
histories and `every_pill_cancelled_partial` for histories with at most one pill whose actor is not
terminated by the restart budget first.
-/
import HW.Proofs.ProcReplay
import HW.Model.Engine
namespace HW.C07
open HW.Proc

/-- a Stop/Poison context becomes done only after the target has handled its final Stopped and is
    unregistered and, for Poison, after every message that precedes the pill has been handled. -/
theorem cancel_last (max mw : Nat) (script : List Outcome) (batches : List (List Msg)) :
    cancelOK batches (runHistory max mw script batches).1.trace = true :=
  cancel_ok max mw script batches

/-- partial: with at most one pill in the history and the restart budget not exhausted, the pill is
    cancelled exactly once — also when the actor crashes while draining behind it. -/
theorem every_pill_cancelled_partial (max mw : Nat) (script : List Outcome) (batches : List (List Msg))
    (hne : ∀ b ∈ batches, b ≠ [])
    (h1 : (pillsOf batches.flatten).length ≤ 1)
    (hf : (runHistory max mw script batches).1.fuelOut = false)
    (hm : Ev.ev .maxRestarts ∉ (runHistory max mw script batches).1.trace) :
    allPillsCancelled batches (runHistory max mw script batches).1.trace = true :=
  single_pill_cancelled max mw script batches hne h1 hf hm

/-- the full statement does not hold: a second pill behind the one that stops the actor is never
    cancelled (known finding KF-D4; the same witness is replayed on the implementation on every run). -/
theorem every_pill_cancelled_full_is_false :
    allPillsCancelled [[.pill 1 true, .pill 2 false]] (runHistory 1 2 [] [[.pill 1 true, .pill 2 false]]).1.trace = false := by
  decide +kernel

/-- poison pills are never visible to Receive: what a receiver can see (`LMsg`) has no pill
    constructor, and `invokeMsg` delivers nothing for a pill. -/
theorem pills_invisible (s : PSt) (id : Nat) (g : Bool) : invokeMsg s (.pill id g) = (s, none) := rfl

/-- non-vacuity: a crash while draining behind a graceful pill; the pill is still honoured. -/
example :
    let b := [[Msg.pill 1 true, .user 1 none, .user 2 none, .user 3 none]]
    let r := runHistory 1 0 [.ok, .ok, .ok, .panic] b
    cancelsOf r.1.trace = [1] ∧ userRecvs r.1.trace = [(1, none), (2, none), (3, none)] ∧ cancelOK b r.1.trace = true := by
  decide +kernel

/-- "… also for an unknown or already stopped PID": when no process is registered under the PID's id (never spawned,
    already stopped and unregistered, or a nil PID), Stop / Poison publish exactly one DeadLetterEvent carrying that
    target and return a context that is done at once — for every engine state and every PID. -/
theorem unknown_pid_done_at_once (e : Engine.Eng) (t : Option Engine.Key)
    (h : ∀ k, t = some k → e.registered k.id = false) :
    Engine.poison e t = .deadLetterDone t := by
  cases t with
  | none => rfl
  | some k => simp [Engine.poison, h k rfl]

/-- and only then: a pill for a registered id is handed to that process (whose context is governed by `cancel_last`). -/
theorem known_pid_queued (e : Engine.Eng) (k : Engine.Key) (h : e.registered k.id = true) :
    Engine.poison e (some k) = .queued k.id := by
  simp [Engine.poison, h]

end HW.C07
