/-
C17 — remote sends arrive once and in order; unreachable peers are reported.
Partial by nature: TCP, drpc framing, the dial timers and the goroutines inside drpc are runtime
behaviour the model assumes ("an established connection is an ordered reliable byte stream");
what is logic is proved here and the whole pipeline is exercised over loopback TCP on every run.
-/
import HW.Proofs.Router
import HW.Props.C15
import HW.Props.C01
namespace HW.C17
open HW.Router HW.Wire

/-- However timing splits the writer's backlog into batches, encoding each batch and decoding it on
    the other side yields exactly the backlog, in order, each message with its own target and sender
    (when everything is sendable). -/
theorem batch_split_irrelevant {P : Type} (c : Codec P) (batches : List (List (Deliver P)))
    (h : ∀ b ∈ batches, ∀ d ∈ b, sendable c d = true) :
    (batches.map fun b => (decode c (encode c b)).1).flatten = batches.flatten.map Deliver.toDelivery := by
  induction batches with
  | nil => rfl
  | cons b bs ih =>
    have hb : ∀ d ∈ b, sendable c d = true := h b (List.mem_cons_self)
    have hbs : ∀ b' ∈ bs, ∀ d ∈ b', sendable c d = true := fun b' hb' => h b' (List.mem_cons_of_mem _ hb')
    simp only [List.map_cons, List.flatten_cons, List.map_append]
    rw [ih hbs, C15.roundtrip_all c b hb]

/-- order: if what leaves the sending node preserves every sender's program order (C01 at the router
    and writer inboxes), then what each target receives preserves the order of every sender's messages
    to that target. (`sender`/`target` are any attributes of a message.) -/
theorem per_target_order {M : Type} (sender target : M → Nat) (wire : List M) (prog : Nat → List M)
    (h : ∀ s, wire.filter (fun m => sender m = s) = prog s) (s t : Nat) :
    (wire.filter (fun m => target m = t)).filter (fun m => sender m = s) = (prog s).filter (fun m => target m = t) := by
  rw [← h s, List.filter_filter, List.filter_filter]
  congr 1
  funext m
  exact Bool.and_comm _ _

/-- unreachable peers: the router/writer state machine keeps the invariant "a route without a
    registered writer has its unreachable notice on the way to the router", for every interleaving
    of sends, router steps, dial outcomes and lost connections … -/
theorem route_invariant (dial : Addr → Bool) (s : St) (h : RouteInv s) (a : Addr) (m : Nat) :
    RouteInv (send s a m) ∧ RouteInv (routerStep dial s).1 ∧ RouteInv (connLost s a).1 :=
  ⟨send_inv s a m h, routerStep_inv dial s h, connLost_inv s a h⟩

/-- … hence once the router has caught up, every route has a live writer: a later send to an address
    whose connection attempt failed (or whose connection was lost) makes a fresh attempt. -/
theorem fresh_attempt_after_failure (s : St) (h : RouteInv s) (hq : s.inbox = []) :
    ∀ a, a ∈ s.routes → a ∈ s.registered :=
  quiescent_routes_live s h hq

/-- every message the router handles is either handed to a live writer or surfaces as a dead letter. -/
theorem no_silent_loss (dial : Addr → Bool) (s : St) (a : Addr) (m : Nat) (rest : List RMsg)
    (hin : s.inbox = .deliver a m :: rest) :
    Out.sent a m ∈ (routerStep dial s).2 ∨ Out.deadLetter a m ∈ (routerStep dial s).2 :=
  deliver_accounted dial s a m rest hin

/-- Start twice, Stop twice, Stop before Start are harmless; after Stop no inbound connection is accepted. -/
theorem start_stop_harmless (s : RState) :
    (remoteStart (remoteStart s).1).1 = (remoteStart s).1 ∧
    (remoteStop (remoteStop s).1).1 = (remoteStop s).1 ∧
    accepting (remoteStop s).1 = false ∧
    (remoteStop .initialized).1 = .initialized ∧
    accepting (remoteStart .initialized).1 = true ∧
    (remoteStart (remoteStop .running).1).2 = .alreadyStarted :=
  remote_state_machine s

/-- non-vacuity: three messages to a peer that refuses, the router catches up, the peer comes up, one more. -/
example :
    let s1 := (drainRouter (fun _ => false) 9 (send (send (send {} "p" 1) "p" 2) "p" 3))
    let s2 := drainRouter (fun _ => true) 9 (send s1.1 "p" 4)
    s1.2 = [.unreachableEvent "p", .deadLetter "p" 1, .deadLetter "p" 2, .deadLetter "p" 3] ∧
    s1.1.routes = [] ∧ s2.2 = [.sent "p" 4] := by
  decide

end HW.C17
