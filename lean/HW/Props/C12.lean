/-
C12 — the event stream delivers each event once to each current subscriber, in order.
Subscribers are identified by (address, id): equal PIDs held in distinct objects are one key.
Broadcast order from one goroutine and happens-before between Subscribe and a later broadcast are
the order of the stream's inbox (C01); the theorems below are about that order.
-/
import HW.Proofs.Engine
namespace HW.C12
open HW.Engine

/-- for EVERY sequence of subscribe / unsubscribe / broadcast over any pool of keys: after a prefix
    `pre` of the stream, a reachable key is a subscriber iff its last sub/unsub in `pre` was a sub … -/
theorem subscribed_iff_last_sub (e : Eng) (pre : List EMsg) (k : Key) (hd : deliverable e k = true) :
    (k ∈ (esRun e [] pre).1) ↔ subscribedAfter k false pre = true := by
  simpa using mem_esRun e [] pre k hd

/-- … and the next event is forwarded to it exactly once if so, and not at all otherwise —
    subscribing twice does not duplicate, after an unsubscribe nothing more arrives. -/
theorem event_once_iff_subscribed (e : Eng) (pre : List EMsg) (n : Nat) (k : Key) (hd : deliverable e k = true) :
    (esReceive e (esRun e [] pre).1 (.event n)).2.count (k, n) =
      if subscribedAfter k false pre = true then 1 else 0 := by
  rw [forward_count e _ n k (esRun_nodup e [] pre List.nodup_nil)]
  simp [hd, subscribed_iff_last_sub e pre k hd]

/-- events broadcast in one order reach each subscriber in that order, each at most once: what a
    subscriber is forwarded is a sublist of the stream's events (the stream's inbox order is the
    broadcast order of each goroutine: C01). -/
theorem forwards_in_stream_order (e : Eng) (ms : List EMsg) (k : Key) :
    (forwardedTo k (esRun e [] ms).2).Sublist (eventsOf ms) :=
  forwards_in_order e [] ms k List.nodup_nil

/-- the subscriber set never holds a key twice. -/
theorem subs_nodup (e : Eng) (ms : List EMsg) : (esRun e [] ms).1.Nodup :=
  esRun_nodup e [] ms List.nodup_nil

/-- non-vacuity: sub, sub again (equal PID), event, unsub, event. -/
example :
    let e : Eng := { address := "local", hasRemote := false, registered := fun _ => true }
    let k : Key := ⟨"local", "s/a"⟩
    (esRun e [] [.sub k, .sub k, .event 1, .unsub k, .event 2]).2 = [(k, 1)] := by
  decide

end HW.C12
