/-
C04 — life-cycle protocol: Initialized, Started, messages, one final Stopped.
Theorems about `HW.Proc.runHistory`: spawn followed by any sequence of batches, for EVERY restart
budget, middleware chain length, crash script (panic / InternalError at any delivery, including the
life-cycle handlers of later incarnations) and history of user messages and poison pills.
-/
import HW.Proofs.ProcShape
namespace HW.C04
open HW.Proc

/-- every incarnation sees `Initialized (Started user*)? Stopped?` — Stopped at most once and last,
    a new incarnation only after the previous one has handled Stopped, nothing after it. -/
theorem lifecycle_shape (max mw : Nat) (script : List Outcome) (batches : List (List Msg)) :
    lifecycleOK (runHistory max mw script batches).1.trace = true :=
  Shape.lifecycle_ok max mw script batches

/-- when Spawn returns, Started has been handled (or the actor has already ended): the trace of a
    spawn that survives ends with the successful inbox start, which comes after the Started event. -/
theorem started_before_spawn_returns :
    (spawn 5 3 0 []).1.trace =
      [.producer 1, .recv 1 .initialized 0 true, .ev .initialized, .recv 1 .started 0 true, .ev .started,
       .inboxStart true] := by
  decide +kernel

/-- general form of the previous statement: for EVERY restart budget, chain length and crash script
    (crashes in Initialized / Started of any incarnation included), when `spawn` returns the actor is
    either alive with Started handled by its current incarnation (phase `started`: Initialized and
    Started delivered, in that order, no Stopped), or it has ended: final Stopped handled, inbox
    closed. Nothing in between is ever visible to the caller of Spawn. -/
theorem spawn_returns_started_or_ended (max mw : Nat) (script : List Outcome) :
    let s := (spawn (3 * script.length + 6) max mw script).1
    lifecycleOK s.trace = true ∧
    (s.stopped = false → (lcRun s.trace).phase = .started) ∧
    (s.stopped = true → (lcRun s.trace).phase = .stopped ∧ s.inboxOpen = false) := by
  have h := Shape.spawn_post (3 * script.length + 6) max mw script (by omega)
  exact ⟨h.2.1.1, h.2.2.2, h.2.2.1⟩

/-- the state every history ends in: an actor that has ended - by stop, poison, crash beyond the
    budget - has handled Stopped as the LAST delivery of its last incarnation (phase `stopped`, and
    by `lifecycle_shape` nothing was delivered after it) and its inbox is closed, so nothing can be
    delivered later either; an actor that has not ended is in phase `started` (never observed
    half-initialised between batches). For every budget, chain, crash script and history. -/
theorem history_ends_stopped_or_started (max mw : Nat) (script : List Outcome) (batches : List (List Msg)) :
    let s := (runHistory max mw script batches).1
    (s.stopped = true → (lcRun s.trace).phase = .stopped ∧ s.inboxOpen = false) ∧
    (s.stopped = false → (lcRun s.trace).phase = .started) :=
  let h := Shape.history_post max mw script batches
  ⟨h.2.2.1, h.2.2.2⟩

/-- non-vacuity of both branches: a clean spawn is alive and started; a spawn whose Started handler
    panics with no budget ends stopped. -/
example : (spawn 6 0 0 []).1.stopped = false ∧ (spawn 12 0 0 [.ok, .panic]).1.stopped = true := by
  decide +kernel

/-- non-vacuity: a history with a crash during replay and a pill in the replay buffer (the shape
    that used to re-open the inbox after Stopped, defect D2) is accepted and ends stopped. -/
example :
    let r := runHistory 1 0 [.ok, .ok, .panic] [[.user 1 none, .user 2 (some 0), .pill 1 false], [.user 3 none]]
    lifecycleOK r.1.trace = true ∧ r.1.stopped = true ∧ r.1.inboxOpen = false := by
  decide +kernel

end HW.C04
