/-
C09 — undeliverable messages surface exactly once as events, never silently.
-/
import HW.Proofs.Engine
import HW.Props.Facts
namespace HW.C09
open HW.Engine

/-- the decision logic of `Engine.send`, stated outright, for every target / message / sender:
    nil ⇒ nothing; local and registered ⇒ handed to the process; local and not registered ⇒ exactly
    one DeadLetterEvent carrying the original target, message and sender; foreign address without a
    remote ⇒ one EngineRemoteMissingEvent with the same fields; foreign with a remote ⇒ the remote. -/
theorem decision (e : Eng) (t : Key) (msg : Payload) (sender : Option Key) :
    send e none msg sender = .nothing ∧
    (t.address = e.address → e.registered t.id = true → send e (some t) msg sender = .enqueue t.id) ∧
    (t.address = e.address → e.registered t.id = false → send e (some t) msg sender = .deadLetter t msg sender) ∧
    (t.address ≠ e.address → e.hasRemote = false → send e (some t) msg sender = .remoteMissing t msg sender) ∧
    (t.address ≠ e.address → e.hasRemote = true → send e (some t) msg sender = .remoteSend t) := by
  refine ⟨rfl, ?_, ?_, ?_, ?_⟩ <;> intro h1 h2 <;> simp [send, h1, h2]

/-- the event produced for an undeliverable message reaches every subscriber that can be reached,
    exactly once, and nobody else. -/
theorem exactly_once_to_each_subscriber (e : Eng) (subs : List Key) (n : Nat) (k : Key) (h : subs.Nodup) :
    (esReceive e subs (.event n)).2.count (k, n) =
      if k ∈ subs ∧ deliverable e k = true then 1 else 0 :=
  forward_count e subs n k h

/-- finiteness: handling an event never produces another event — forwards go only to keys for
    which `send` hands the message to a process or to the remote (subscribers that have since stopped
    are dropped instead of dead-lettered), and there are at most as many forwards as subscribers. -/
theorem no_feedback (e : Eng) (subs : List Key) (m : EMsg) (msg : Payload) (sender : Option Key) :
    (esReceive e subs m).2.length ≤ subs.length ∧
    ∀ f ∈ (esReceive e subs m).2,
      send e (some f.1) msg sender = .enqueue f.1.id ∨ send e (some f.1) msg sender = .remoteSend f.1 :=
  ⟨forwards_bound e subs m, fun f hf => send_deliverable e f.1 msg sender (forwards_deliverable e subs m f hf)⟩

/-- non-vacuity: one live, one stopped and one foreign subscriber on an engine without remote. -/
example :
    let e : Eng := { address := "local", hasRemote := false, registered := fun id => id = "s/a" }
    esReceive e [⟨"local", "s/a"⟩, ⟨"local", "s/dead"⟩, ⟨"other:1", "s/x"⟩] (.event 7) =
      ([⟨"local", "s/a"⟩], [(⟨"local", "s/a"⟩, 7)]) := by
  decide

/-- "sending never blocks the caller", the part that is about the registry: the registry's mutex is taken by the methods
    of registry.go only (each one critical section, C10.registry_ops_atomic), never by `Engine.send` / `SendLocal` /
    `BroadcastEvent` themselves — so a send cannot hold it across the dead-letter broadcast (which looks the event
    stream up again) and wait on itself. Regenerated from the source on every run. -/
theorem registry_lock_not_held_across_sends : Generated.registryMuPrivate = true :=
  Facts.registry_mutex_private

end HW.C09
