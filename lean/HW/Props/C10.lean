/-
C10 — one live actor per ID; duplicate spawns change nothing.
Each Registry method is one critical section (Facts.registry_atomic), so every history of concurrent
Spawn / SpawnChild / Stop callers is a sequence of the atomic steps modelled in HW.Registry, in
lock-acquisition order; the theorems quantify over ALL such sequences.
-/
import HW.Proofs.Registry
import HW.Props.Facts
namespace HW.C10
open HW.Registry

/-- at any moment at most one actor answers to an id: the registry never holds two entries for one
    id, after any sequence of add / remove / get by any callers. -/
theorem unique (ops : List Op) : (run {} ops).1.WF :=
  run_wf {} ops wf_empty

/-- spawning an id that is taken changes nothing (the incumbent stays, `Start` is not run: the result
    is `dup`, on which the code only publishes ActorDuplicateIdEvent). -/
theorem add_dup_noop (r : Reg) (id : Id) (inst inc : Inst) (h : r.get id = some inc) :
    r.add id inst = (r, .dup) :=
  Registry.add_dup_noop r id inst inc h

/-- spawning a free id registers exactly that actor and touches no other id. -/
theorem add_free (r : Reg) (id : Id) (inst : Inst) (h : r.get id = none) :
    (r.add id inst).2 = .won ∧ (r.add id inst).1.get id = some inst ∧
    ∀ id', id' ≠ id → (r.add id inst).1.get id' = r.get id' :=
  Registry.add_free r id inst h

/-- of several concurrent spawns of one free id exactly one wins (whatever their order). -/
theorem one_winner (r : Reg) (id : Id) (insts : List Inst) (h : r.get id = none) (hne : insts ≠ []) :
    ((run r (insts.map (Op.add id))).2.filter (· = Out.added .won)).length = 1 :=
  Registry.one_winner r id insts h hne

/-- after an actor has been removed its id can be spawned again; GetPID answers exactly while registered. -/
theorem reuse_after_stop (r : Reg) (id : Id) (inst : Inst) :
    ((r.remove id).add id inst).2 = .won ∧ ((r.remove id).add id inst).1.get id = some inst := by
  have h := (remove_spec r id).1
  exact ⟨(Registry.add_free _ id inst h).1, (Registry.add_free _ id inst h).2.1⟩

theorem getpid_iff_registered (r : Reg) (id : Id) :
    (r.remove id).get id = none ∧ ∀ id', id' ≠ id → (r.remove id).get id' = r.get id' :=
  remove_spec r id

/-- the atomicity premise, regenerated from the source on every run. -/
theorem registry_ops_atomic :
    Generated.registryLockShape = [("Remove", true), ("get", true), ("getByID", true)] ∧
    Generated.registryAddAtomic = true :=
  Facts.registry_atomic

example : (run {} [.add "a" 1, .add "a" 2, .get "a", .remove "a", .get "a", .add "a" 3, .get "a"]).2 =
    [.added .won, .added .dup, .got (some 1), .removed, .got none, .added .won, .got (some 3)] := by
  decide

end HW.C10
