/-
C03 — no lost wake-up: an accepted message is processed without further stimulus.
Theorems over the transition system `HW.Inbox` (one step per atomic action of actor/inbox.go), for
every number of senders, messages, stoppers, every batch size B ≥ 1 and EVERY interleaving.
-/
import HW.Proofs.Inbox
import HW.Proofs.InboxLive
import HW.Props.Facts
import HW.Proofs.ProcOpen
namespace HW.C03
open HW.Inbox

/-- "An actor never rests idle with a non-empty inbox": in every reachable state of a started, never
    stopped inbox with a backlog, either a worker holds the running token or some thread is at the
    very instruction that (re)schedules one. -/
theorem no_idle_backlog (B : Nat) (hB : 1 ≤ B) (senders : List (List Msg)) (nStop : Nat) (s : St)
    (hr : Reachable B senders nStop s) (hs : s.started = true) (hn : s.everStopped = false)
    (hq : s.q ≠ []) :
    s.status = .running ∨
    (∃ (t : Nat) (ms : List Msg), s.thr[t]? = some (Pc.sSched ms)) ∨
    (∃ t : Nat, s.thr[t]? = some Pc.wLen ∨ s.thr[t]? = some Pc.wSched) ∨
    (∃ t : Nat, s.thr[t]? = some Pc.stSched) :=
  Inbox.no_idle_backlog B hB senders nStop s hr hs hn hq

/-- "Whenever senders fall silent, every accepted message has been processed": at quiescence (no
    thread has a step left) of a never stopped inbox the queue is empty, the inbox is idle and
    everything pushed was delivered — no further send is needed. -/
theorem quiescent_all_processed (B : Nat) (hB : 1 ≤ B) (senders : List (List Msg)) (nStop : Nat) (s : St)
    (hr : Reachable B senders nStop s) (hq : quiescent s = true) (hn : s.everStopped = false) :
    s.started = true ∧ s.status = .idle ∧ s.q = [] ∧ s.delivered = s.pushed.map (·.2) :=
  Inbox.quiescent_all_delivered B hB senders nStop s hr hq hn

/-- "Eventually": the protocol has no infinite runs — from every initial configuration there is a bound
    on the number of steps ANY schedule can take (workers cannot keep re-spawning each other, a failed
    CAS is never retried in a loop). -/
theorem terminates (B : Nat) (hB : 1 ≤ B) (senders : List (List Msg)) (nStop : Nat) :
    ∃ N, ∀ sched, effSteps B (init senders nStop) sched ≤ N :=
  Inbox.terminates B hB senders nStop

/-- Liveness in its "every maximal run" form: every run that cannot be extended — which by `terminates`
    every run becomes after finitely many steps, under any scheduler that keeps running enabled threads
    (the fairness of the Go scheduler is the only assumption left) — of a never stopped inbox has an
    empty queue and has delivered everything that was accepted, with no further send needed. -/
theorem maximal_run_delivers_all (B : Nat) (hB : 1 ≤ B) (senders : List (List Msg)) (nStop : Nat) (sched : List Nat)
    (hmax : ∀ t, step B (runSched B (init senders nStop) sched) t = none)
    (hn : (runSched B (init senders nStop) sched).everStopped = false) :
    (runSched B (init senders nStop) sched).q = [] ∧
    (runSched B (init senders nStop) sched).delivered = (runSched B (init senders nStop) sched).pushed.map (·.2) :=
  Inbox.maximal_run_delivers_all B hB senders nStop sched hmax hn

/-- the batch size the code uses is ≥ 1 (regenerated constant). -/
theorem batch_size_pos : 1 ≤ Generated.messageBatchSize := by decide

/-- non-vacuity: the lost-wake-up window is reachable — the worker has found the queue empty and gone
    idle, a message is queued behind it, and the disjunct that saves the day is the worker's re-check. -/
example :
    let s := runSched 4096 (init [[7]] 0) [0, 0, 0, 0, 2, 2, 1, 2]
    s.status = .idle ∧ s.q = [7] ∧ s.thr[2]? = some Pc.wLen ∧ s.started = true ∧ s.everStopped = false := by
  decide

/-- Process-level half (actor/process.go): whatever the receiver does — panics in Initialized / Started /
    any message, restarts, replays, pills — an actor that is still registered at the end of a history (its
    inbox still accepts what senders send) is not stopped and its inbox IS open: so the premise `started` of
    the theorems above holds for every actor whose messages are being accepted, and accepted messages are
    not stranded in an inbox that was never opened. -/
theorem registered_actor_has_open_inbox (max mw : Nat) (script : List Proc.Outcome) (batches : List (List Proc.Msg))
    (hr : (Proc.runHistory max mw script batches).1.registered = true) :
    (Proc.runHistory max mw script batches).1.stopped = false ∧
    (Proc.runHistory max mw script batches).1.inboxOpen = true :=
  Proc.registered_open max mw script batches hr

/-- non-vacuity: a receiver that panics in Started on the initial spawn is restarted and ends registered with
    an open inbox (the case in which the spawning goroutine, not an inbox worker, runs the restart). -/
example : (Proc.runHistory 2 0 [.ok, .panic] [[.user 1 none]]).1.registered = true ∧
    (Proc.runHistory 2 0 [.ok, .panic] [[.user 1 none]]).1.inboxOpen = true ∧
    Proc.userRecvs (Proc.runHistory 2 0 [.ok, .panic] [[.user 1 none]]).1.trace = [(1, none)] := by
  decide +kernel

end HW.C03
