import HW.Model.ClusterSys
namespace HW.C19
end HW.C19
