/-
C19 — cluster activations: unique, placed on a capable member, known everywhere.
Theorems over `HW.ClusterSys` (n agents, per-node registries, a pool of in-flight notifications
delivered in an ARBITRARY order), under the well-formedness stated in the model file.
-/
import HW.Proofs.ClusterSys
import HW.Proofs.ClusterJoin
import HW.Proofs.Cluster
namespace HW.C19
open HW.Cluster HW.ClusterSys

/-- Activate returns nil and spawns nothing if kind/id is already known to the cluster … -/
theorem dup_nil (s : Sys) (nid kind id : String) (sel : Option Nat) (n : Node)
    (hn : getNode s nid = some n) (hk : n.agent.activated.any (·.1 = key kind id) = true) :
    activate s nid kind id sel = (s, none) :=
  activate_known_nil s nid kind id sel n hn hk

/-- … or if no member advertises the kind. -/
theorem nokind_nil (s : Sys) (nid kind id : String) (sel : Option Nat) (n : Node)
    (hn : getNode s nid = some n) (hk : ∀ m ∈ n.agent.members, m.kinds.contains kind = false) :
    activate s nid kind id sel = (s, none) :=
  activate_nokind_nil s nid kind id sel n hn hk

/-- otherwise the PID returned is kind/id on a member that registered the kind, chosen among the
    members advertising it, and at most one actor is spawned — there. -/
theorem spawn_once_on_capable (s : Sys) (nid kind id : String) (sel : Option Nat) (pid : Pid)
    (h : (activate s nid kind id sel).2 = some pid) :
    pid.2 = key kind id ∧
    ∃ n t, getNode s nid = some n ∧ getNode s t.id = some t ∧ t.host = pid.1 ∧
      t.localKinds.contains kind = true ∧
      (∃ m ∈ n.agent.members, m.id = t.id ∧ m.kinds.contains kind = true) ∧
      ((activate s nid kind id sel).1.log = s.log ∨
       (activate s nid kind id sel).1.log = s.log ++ ["spawn:" ++ t.id ++ ":" ++ key kind id]) :=
  activate_some s nid kind id sel pid h

/-- once the resulting notifications have been delivered — under ALL arrival orders — every member
    resolves kind/id to that same PID, and the cluster is consistent again. -/
theorem agreement (s : Sys) (hc : Consistent s) (nid kind id : String) (sel : Option Nat) (pid : Pid)
    (order : List Nat)
    (h : (activate s nid kind id sel).2 = some pid)
    (hlen : (activate s nid kind id sel).1.pool.length ≤ order.length) :
    Consistent (drain (activate s nid kind id sel).1 order) ∧
    ∀ n ∈ (drain (activate s nid kind id sel).1 order).nodes, getActiveByID n (key kind id) = some pid :=
  activate_agreement s hc nid kind id sel pid order h hlen

/-- Deactivate removes the entry on every member, under all arrival orders. -/
theorem deactivate_everywhere (s : Sys) (hc : Consistent s) (nid : String) (pid : Pid) (order : List Nat)
    (hn : (getNode s nid).isSome = true)
    (hlen : (deactivate s nid pid).pool.length ≤ order.length) :
    Consistent (drain (deactivate s nid pid) order) ∧
    ∀ n ∈ (drain (deactivate s nid pid) order).nodes, getActiveByID n pid.2 = none :=
  ClusterSys.deactivate_everywhere s hc nid pid order hn hlen

/-- a member that joins later learns all active actors: after the topology notifications have been
    delivered — in ANY order — the joiner resolves every id exactly like everybody else, and the
    enlarged cluster is consistent. -/
theorem joiner_learns_all (s : Sys) (hc : Consistent s) (x : Node)
    (hfresh : ∀ n ∈ s.nodes, n.id ≠ x.id)
    (hx : x.agent.members = [] ∧ x.agent.activated = [])
    (order : List Nat) (hlen : (joinNode s x).pool.length ≤ order.length) :
    Consistent (drain (joinNode s x) order) ∧
    (∀ n ∈ s.nodes, ∀ k, ∀ x' ∈ (drain (joinNode s x) order).nodes, x'.id = x.id →
       getActiveByID x' k = getActiveByID n k) :=
  ClusterSys.joiner_learns_all s hc x hfresh hx order hlen

/-- when a member leaves, every activation hosted on it disappears from a remaining member's view,
    and nothing else does. -/
theorem leave_purges (st : AgentSt) (m : Member) :
    ∀ a, a ∈ (memberLeave st m).1.activated ↔ a ∈ st.activated ∧ a.2.1 ≠ m.host :=
  Cluster.leave_purges st m

end HW.C19
