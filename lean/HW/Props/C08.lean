/-
C08 — supervision tree: a stopping parent takes all descendants down first.
Full statement ("for all interleavings of the parent's shutdown with children being poisoned by
someone else") is FALSE for the code as it is (known finding KF-D12: a child that already has a
poison pill queued never cancels the parent's pill, so the parent waits forever; a child poisoned by
a third party has already left the parent's map, so the parent does not wait for it). What is proved
is the partial statement: without such third-party interference the shutdown of every tree is a
post-order.
-/
import HW.Proofs.Tree
import HW.Props.Facts
namespace HW.C08
open HW.Tree

/-- partial (no third party stops a descendant concurrently): for EVERY tree shape — any depth, any
    fan-out, any order among siblings — when a node handles Stopped it is already unregistered and
    every transitive child has handled Stopped and been unregistered; a node's stop context becomes
    done after its own Stopped and after the contexts of all its descendants. -/
theorem postorder_partial (pre : Path) (t : T) (hnd : (paths pre t).Nodup) :
    postorderOK (paths pre t) [] (stopTree pre t) = true :=
  stop_postorder pre t hnd

/-- every actor of the tree handles Stopped exactly once. -/
theorem each_stopped_once (pre : Path) (t : T) (p : Path) :
    (stopTree pre t).count (.stopped p) = (paths pre t).count p :=
  stop_covers pre t p

/-- the stopping parent's own context is the very last thing to become done. -/
theorem parent_context_done_last (pre : Path) (name : String) (cs : List T) :
    (stopTree pre (.node name cs)).getLast? = some (.done (pre ++ [name])) :=
  root_done_last pre name cs

/-- Children(): after a node has stopped, exactly its subtree has left the set of live actors. -/
theorem children_exact_after_stop (live : List Path) (p q : Path) :
    q ∈ stopAt live p ↔ q ∈ live ∧ q ≠ p ∧ below q p = false :=
  stopAt_spec live p q

/-- Children() is one critical section of the children map (regenerated fact), so it returns the set
    of children at one instant. -/
theorem children_snapshot_atomic :
    Generated.safemapLockShape = [("Delete", true), ("ForEach", true), ("Get", true), ("Len", true), ("Set", true)] :=
  Facts.safemap_atomic

example :
    let t : T := .node "r" [.node "a" [.node "x" [], .node "y" []], .node "b" []]
    postorderOK (paths [] t) [] (stopTree [] t) = true ∧
    postorderOK (paths [] t) [] (stopTree [] t).reverse = false := by
  decide

end HW.C08
