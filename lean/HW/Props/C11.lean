/-
C11 — request/response: correlated, at most once, bounded by the timeout.
-/
import HW.Proofs.Response
namespace HW.C11
open HW.Response

/-- No cross-talk, for every history of requests, replies (zero, one or several per request, to any
    response id, in any order) and Result calls by any number of concurrent requesters: a value
    returned for a response was sent to that very response id — which only that request's message
    carried as its sender (ids are fresh: `fresh_ids`). -/
theorem correlated (ops : List Op) (id : Nat) (fired : Bool) (v : Val)
    (hr : (step (run {} ops).1 (.result id fired)).2 = .value v) :
    (id, v) ∈ (run {} ops).1.hist :=
  result_value_was_sent _ (run_inv {} ops inv_init) id fired v hr

/-- response ids are never reused while one is alive: the id handed to a new request is not registered. -/
theorem fresh_ids (ops : List Op) : lookup (run {} ops).1.nextId (run {} ops).1.reg = none :=
  request_fresh _ (run_inv {} ops inv_init)

/-- an error is returned only once the timeout has passed. -/
theorem timeout_only_after_deadline (s : St) (id : Nat) (fired : Bool)
    (hr : (step s (.result id fired)).2 = .timeout) : fired = true ∧ lookup id s.reg = some none :=
  timeout_only_if_fired s id fired hr

/-- once Result() has returned, whichever of reply and timeout won, the response PID is no longer
    registered and a late reply becomes a dead letter. -/
theorem unregistered_then_deadletter (s : St) (id : Nat) (fired : Bool)
    (hr : (step s (.result id fired)).2 ≠ .pending) (v : Val) :
    lookup id (step s (.result id fired)).1.reg = none ∧
    (step (step s (.result id fired)).1 (.reply id v)).2 = .deadLetter :=
  unregistered_after_result s id fired hr v

example : (run {} [.request, .request, .reply 1 7, .reply 0 5, .reply 0 6, .result 0 true, .reply 0 9, .result 1 true]).2 =
    [.requested 0, .requested 1, .delivered, .delivered, .dropped, .value 5, .deadLetter, .value 7] := by
  decide

end HW.C11
