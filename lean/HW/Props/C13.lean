/-
C13 — middleware wraps every delivery, in the configured order.
-/
import HW.Proofs.ProcShape
import HW.Model.Mw
namespace HW.C13
open HW.Proc

/-- every message a receiver sees — user messages, Initialized, Started, Stopped, on the normal,
    restart, poison and max-restarts paths — went through the whole chain given at spawn. -/
theorem every_delivery_wrapped (max mw : Nat) (script : List Outcome) (batches : List (List Msg)) :
    allWrapped mw (runHistory max mw script batches).1.trace = true :=
  Shape.all_wrapped max mw script batches

/-- "the receiver last": on every path (spawn, restart, poison, max-restarts) the receiver at the
    inner end of the chain is the current incarnation - a chain composed around an earlier
    incarnation's receiver is never used (seed C13-r10m1: chain cached across a restart). -/
theorem chain_ends_at_current_receiver (max mw : Nat) (script : List Outcome) (batches : List (List Msg)) :
    chainTargetOK 0 (runHistory max mw script batches).1.trace = true :=
  Shape.chain_target_ok max mw script batches

/-- the acceptor is not trivially true: a delivery to incarnation 1 after incarnation 2 was produced. -/
example : chainTargetOK 0 [.producer 1, .recv 1 .initialized 1 true, .producer 2, .recv 1 (.user 7 none) 1 true] = false := by
  decide

/-- order: applying the chain `[m₁ … mₙ]` runs m₁ outermost, …, mₙ innermost, the receiver last,
    each exactly once, for every chain length. -/
theorem chain_order (chain : List Nat) :
    Mw.run (Mw.apply chain) = chain.map Mw.Step.enter ++ [Mw.Step.recv] ++ chain.reverse.map Mw.Step.exit :=
  Mw.run_apply chain

example : Mw.run (Mw.apply [0, 1, 2]) =
    [.enter 0, .enter 1, .enter 2, .recv, .exit 2, .exit 1, .exit 0] := by decide

/-- exactly once: in one delivery through the chain `[m₁ … mₙ]` every middleware is entered as often
    as it is listed (once for a chain without repetition), left as often, and the receiver runs once —
    for every chain length, including the empty chain. -/
theorem each_exactly_once (chain : List Nat) (i : Nat) :
    (Mw.run (Mw.apply chain)).count (Mw.Step.enter i) = chain.count i ∧
    (Mw.run (Mw.apply chain)).count (Mw.Step.exit i) = chain.count i ∧
    (Mw.run (Mw.apply chain)).count Mw.Step.recv = 1 := by
  have he : ∀ l : List Nat, (l.map Mw.Step.enter).count (Mw.Step.enter i) = l.count i := by
    intro l; induction l with
    | nil => rfl
    | cons a t ih => by_cases h : a = i <;> simp [ih, h]
  have hx : ∀ l : List Nat, (l.map Mw.Step.exit).count (Mw.Step.exit i) = l.count i := by
    intro l; induction l with
    | nil => rfl
    | cons a t ih => by_cases h : a = i <;> simp [ih, h]
  have he0 : ∀ l : List Nat, (l.map Mw.Step.enter).count (Mw.Step.exit i) = 0 ∧
      (l.map Mw.Step.enter).count Mw.Step.recv = 0 := by
    intro l; induction l with
    | nil => exact ⟨rfl, rfl⟩
    | cons a t ih => simp [ih.1, ih.2]
  have hx0 : ∀ l : List Nat, (l.map Mw.Step.exit).count (Mw.Step.enter i) = 0 ∧
      (l.map Mw.Step.exit).count Mw.Step.recv = 0 := by
    intro l; induction l with
    | nil => exact ⟨rfl, rfl⟩
    | cons a t ih => simp [ih.1, ih.2]
  rw [Mw.run_apply]
  simp [List.count_append, he, hx, (he0 chain).1, (he0 chain).2, (hx0 chain).1, (hx0 chain).2]

/-- the receiver is strictly inside: before it runs every middleware has been entered and none left;
    after it none is entered again. -/
theorem receiver_innermost (chain : List Nat) :
    ∃ pre post, Mw.run (Mw.apply chain) = pre ++ [Mw.Step.recv] ++ post ∧
      pre = chain.map Mw.Step.enter ∧ post = chain.reverse.map Mw.Step.exit :=
  ⟨_, _, Mw.run_apply chain, rfl, rfl⟩

example : (Mw.run (Mw.apply [4, 7])).count (Mw.Step.enter 7) = 1 := by decide

end HW.C13
