/-
C13 — middleware wraps every delivery, in the configured order.
-/
import HW.Proofs.ProcShape
import HW.Model.Mw
namespace HW.C13
open HW.Proc

/-- every message a receiver sees — user messages, Initialized, Started, Stopped, on the normal,
    restart, poison and max-restarts paths — went through the whole chain given at spawn. -/
theorem every_delivery_wrapped (max mw : Nat) (script : List Outcome) (batches : List (List Msg)) :
    allWrapped mw (runHistory max mw script batches).1.trace = true :=
  Shape.all_wrapped max mw script batches

/-- order: applying the chain `[m₁ … mₙ]` runs m₁ outermost, …, mₙ innermost, the receiver last,
    each exactly once, for every chain length. -/
theorem chain_order (chain : List Nat) :
    Mw.run (Mw.apply chain) = chain.map Mw.Step.enter ++ [Mw.Step.recv] ++ chain.reverse.map Mw.Step.exit :=
  Mw.run_apply chain

example : Mw.run (Mw.apply [0, 1, 2]) =
    [.enter 0, .enter 1, .enter 2, .recv, .exit 2, .exit 1, .exit 0] := by decide

end HW.C13
