/-
C14 — RingBuffer is an unbounded, linearizable FIFO queue.
Property theorems only; helper lemmas live in HW/Proofs/Ring.lean.
-/
import HW.Proofs.Ring
import HW.Proofs.RingConc
import HW.Props.Facts
namespace HW
namespace C14
variable {α : Type} [Inhabited α]

/-- a fresh ring of any capacity >= 1 satisfies the invariant and is empty. -/
theorem inv_new (size : Nat) (h : 1 ≤ size) :
    (Ring.new size : Ring α).Inv ∧ (Ring.new size : Ring α).abs = [] :=
  Ring.inv_new size h

/-- Push appends, whatever the head/tail position (growth and wrap included). -/
theorem push_refines (r : Ring α) (x : α) (h : r.Inv) :
    (r.push x).Inv ∧ (r.push x).abs = r.abs ++ [x] :=
  Ring.push_refines r x h

/-- PopN returns `false` iff empty, else the first `min n len` elements, and removes exactly those. -/
theorem popN_refines (r : Ring α) (n : Nat) (h : r.Inv) :
    (r.popN n).1.Inv ∧
    (r.popN n).2 = (if r.abs.isEmpty then none else some (r.abs.take n)) ∧
    (r.popN n).1.abs = r.abs.drop n :=
  Ring.popN_refines r n h

theorem pop_refines (r : Ring α) (h : r.Inv) :
    (r.pop).1.Inv ∧ (r.pop).2 = r.abs.head? ∧ (r.pop).1.abs = r.abs.tail :=
  Ring.pop_refines r h

/-- Len = number of queued elements (pushes minus popped elements; a `Nat`, never negative). -/
theorem len_refines (r : Ring α) : r.lenOf = r.abs.length :=
  Ring.len_refines r

/-- Main theorem: for every capacity >= 1 and EVERY operation sequence the ring buffer returns
    exactly what the abstract FIFO queue returns. -/
theorem refines_fifo (size : Nat) (h : 1 ≤ size) (ops : List (RingOp α)) :
    (Ring.new size : Ring α).run ops = Fifo.run [] ops :=
  Ring.refines_fifo size h ops

/-- Linearizability (argument, with its checked premise): every method is one critical section of
    one mutex and `Len` is one atomic load of the counter those sections update atomically
    (`Facts.ring_atomic`, regenerated from the source on every run). Hence every concurrent history is
    equivalent to the sequential history ordered by the `atomic.AddInt64` inside each critical section
    (lock acquisition for an empty pop), to which `refines_fifo` applies. The mutual-exclusion
    semantics of `sync.Mutex` is trusted. -/
theorem methods_are_atomic_sections :
    Generated.ringLockShape = [("Push", true), ("Pop", true), ("PopN", true)] ∧
    Generated.ringLenIsAtomicLoad = true ∧ Generated.ringLenOnlyAtomicWrites = true ∧
    Generated.ringLenAdds = [("Push", 1), ("Pop", 1), ("PopN", 1)] :=
  ⟨Facts.ring_atomic.1, Facts.ring_atomic.2.1, Facts.ring_atomic.2.2, Facts.ring_linearization_points⟩

/-- Linearizability, machine-checked for the fine-grained model `HW.RingConc` (one step per mutex
    acquisition, atomic add = linearization point, release, atomic load): for every program of every
    thread and EVERY interleaving, the results returned are exactly those of the sequential FIFO applied
    to the operations in linearization order — `Len` included, which reads the counter without the lock. -/
theorem linearizable (progs : List (List (RingOp Nat))) (sched : List Nat) :
    let s := RingConc.runSched (RingConc.init progs) sched
    Fifo.run [] (s.lin.map (·.1)) = s.lin.map (·.2) :=
  RingConc.linearizable progs sched

/-- mutual exclusion of the critical sections and counter = queue length in every reachable state. -/
theorem concurrent_safety (progs : List (List (RingOp Nat))) (sched : List Nat) :
    let s := RingConc.runSched (RingConc.init progs) sched
    (s.thr.countP RingConc.inCritical ≤ 1) ∧ (s.cnt = s.q.length) ∧
    ((s.thr.countP RingConc.inCritical = 1) ↔ s.lock.isSome = true) :=
  RingConc.safety progs sched

/-- non-vacuity: a wrapped ring that is about to grow satisfies the invariant. -/
example : ({ items := [30, 0, 10, 20], head := 1, tail := 0, len := 3 } : Ring Nat).Inv :=
  ⟨by decide, by decide, by decide, by decide⟩

example : ({ items := [30, 0, 10, 20], head := 1, tail := 0, len := 3 } : Ring Nat).abs = [10, 20, 30] := by
  decide

end C14
end HW
