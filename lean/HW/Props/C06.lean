/-
C06 — restarts are bounded by MaxRestarts; exceeding it stops the actor cleanly.
-/
import HW.Proofs.ProcShape
import HW.Props.Facts
namespace HW.C06
open HW.Proc

/-- over its whole life an actor is restarted at most MaxRestarts times (for all MaxRestarts ≥ 0,
    all scripts, all placements of the panics). -/
theorem restarts_bounded (max mw : Nat) (script : List Outcome) (batches : List (List Msg)) :
    restartsOK max (runHistory max mw script batches).1.trace = true :=
  Shape.restarts_ok max mw script batches

/-- read off as plain statements: an actor is restarted at most `max` times in its whole life, for
    every history and crash script, and the k-th restart event carries the number k. -/
theorem at_most_max_restarts (max mw : Nat) (script : List Outcome) (batches : List (List Msg)) :
    (restartNumbers (runHistory max mw script batches).1.trace).length ≤ max ∧
    ∀ k (h : k < (restartNumbers (runHistory max mw script batches).1.trace).length),
      (restartNumbers (runHistory max mw script batches).1.trace)[k] = k + 1 := by
  have h := Shape.restarts_ok max mw script batches
  simp only [restartsOK, Bool.and_eq_true, beq_iff_eq, decide_eq_true_eq] at h
  refine ⟨h.2, fun k hk => ?_⟩
  generalize restartNumbers (runHistory max mw script batches).1.trace = ns at h hk
  have h1 := h.1
  have : ns[k]? = ((List.range ns.length).map (· + 1))[k]? := by rw [← h1]
  simp [hk] at this
  exact this

/-- the next panic terminates it instead: after ActorMaxRestartsExceededEvent the inbox is stopped,
    the actor unregistered, Stopped handled once, ActorStoppedEvent published, and nothing follows. -/
theorem terminates_cleanly (max mw : Nat) (script : List Outcome) (batches : List (List Msg)) :
    afterMaxOK (runHistory max mw script batches).1.trace = true :=
  Shape.after_max_ok max mw script batches

/-- … and the hosting process keeps running: the panic does not escape. -/
theorem process_survives (max mw : Nat) (script : List Outcome) (batches : List (List Msg)) :
    (runHistory max mw script batches).2 = none :=
  Shape.runHistory_no_escape max mw script batches

/-- the default budget in the source is the one documented. -/
theorem default_budget : Generated.defaultMaxRestarts = 3 := by decide

/-- non-vacuity: budget 1, two panics: one restart, then clean termination. -/
example :
    let r := runHistory 1 0 [.ok, .ok, .panic, .ok, .ok, .panic] [[.user 1 none, .user 2 none, .user 3 none]]
    restartNumbers r.1.trace = [1] ∧ (Ev.ev .maxRestarts) ∈ r.1.trace ∧ r.1.stopped = true ∧ r.1.registered = false ∧ r.2 = none := by
  decide +kernel

end HW.C06
