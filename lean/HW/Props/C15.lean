/-
C15 — batched wire encoding round-trips every message to its own target and sender.
-/
import HW.Proofs.Wire
namespace HW.C15
open HW.Wire
variable {P : Type}

/-- For every codec satisfying the payload round-trip law and EVERY batch (any length, any mix of
    targets, senders incl. none, PIDs that differ only in how address and id split, payload types,
    unserialisable or non-proto payloads at any position): the receiver delivers exactly the sendable
    messages, same count, same order, each to its own target with its own payload and sender. -/
theorem roundtrip (c : Codec P) (batch : List (Deliver P)) :
    decode c (encode c batch) = ((batch.filter (sendable c)).map Deliver.toDelivery, .ok) :=
  decode_encode c batch

/-- what the receiver gets of a batch, given that the writer puts nothing on the wire when no message of the batch
    could be encoded (`transmit`). -/
def received (c : Codec P) (batch : List (Deliver P)) : List (Delivery P) × Outcome :=
  match transmit c batch with
  | none => ([], .ok)
  | some e => decode c e

/-- … and that changes nothing: with or without the empty envelope, the receiver delivers exactly the sendable
    messages of the batch. -/
theorem roundtrip_transmit (c : Codec P) (batch : List (Deliver P)) :
    received c batch = ((batch.filter (sendable c)).map Deliver.toDelivery, .ok) := by
  unfold received transmit
  by_cases h : (encode c batch).messages.isEmpty = true
  · have hr := roundtrip c batch
    simp only [h, if_true]
    have hm : (encode c batch).messages = [] := List.isEmpty_iff.mp h
    unfold decode at hr
    rw [hm] at hr
    simp only [decodeMsgs] at hr
    exact hr
  · simp only [h]
    exact roundtrip c batch

/-- a batch in which everything is sendable arrives complete. -/
theorem roundtrip_all (c : Codec P) (batch : List (Deliver P)) (h : ∀ d ∈ batch, sendable c d = true) :
    decode c (encode c batch) = (batch.map Deliver.toDelivery, .ok) := by
  rw [roundtrip, List.filter_eq_self.mpr h]

/-- an unserialisable message is dropped on its own: nothing is delivered in its place and the
    messages around it are unaffected. -/
theorem bad_message_isolated (c : Codec P) (pre post : List (Deliver P)) (d : Deliver P)
    (hbad : sendable c d = false) :
    decode c (encode c (pre ++ d :: post)) = decode c (encode c (pre ++ post)) := by
  simp [roundtrip, List.filter_append, hbad]

/-- a message sent without a sender arrives without one (instance of `roundtrip`, stated outright). -/
theorem nil_sender_stays_nil (c : Codec P) (batch : List (Deliver P)) (i : Nat) (d : Delivery P)
    (h : (decode c (encode c batch)).1[i]? = some d) :
    ∃ x ∈ batch, x.toDelivery = d ∧ (x.sender = none → d.sender = none) := by
  rw [roundtrip] at h
  have hm : d ∈ (batch.filter (sendable c)).map Deliver.toDelivery := List.mem_of_getElem? h
  obtain ⟨x, hx, rfl⟩ := List.mem_map.mp hm
  exact ⟨x, (List.mem_filter.mp hx).1, rfl, fun hs => hs⟩

/-- non-vacuity: a mixed batch with a nil sender, PIDs differing only in the address/id split, an
    unserialisable and a non-proto payload. -/
example :
    decode demoCodec (encode demoCodec
      [⟨none, ⟨"ab", "c"⟩, 1⟩, ⟨some ⟨"a", "bc"⟩, ⟨"a", "bc"⟩, 2⟩, ⟨some ⟨"ab", "c"⟩, ⟨"n", "x"⟩, 4⟩,
       ⟨some ⟨"a", "bc"⟩, ⟨"ab", "c"⟩, 5⟩, ⟨none, ⟨"n", "x"⟩, 3⟩]) =
    ([⟨⟨"ab", "c"⟩, 1, none⟩, ⟨⟨"a", "bc"⟩, 2, some ⟨"a", "bc"⟩⟩, ⟨⟨"n", "x"⟩, 3, none⟩], .ok) := by
  rw [roundtrip]; decide

end HW.C15
