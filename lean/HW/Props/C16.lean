/-
C16 — no inbound envelope can crash a node or reach an unaddressed actor.
The reader is modelled as the total function `decode`; "does not panic" is the statement that the
real reader agrees with this total function on every generated envelope (correspondence), the
theorems below say what the total function guarantees for EVERY envelope.
-/
import HW.Proofs.Wire
namespace HW.C16
open HW.Wire
variable {P : Type}

/-- whatever the envelope (indices out of range or negative, empty tables, unknown type names,
    undecodable payloads), handling it ends in one of two ways: all messages handled, or an error
    that ends this stream — there is no third outcome. -/
theorem outcome_total (c : Codec P) (env : Envelope) :
    (decode c env).2 = .ok ∨ (decode c env).2 = .err := by
  cases h : (decode c env).2 <;> simp

/-- a message is delivered only to the target and with the type that the message's own valid
    indices name; its sender is the entry its sender index names, or none if it names no entry. -/
theorem only_addressed (c : Codec P) (env : Envelope) (d : Delivery P) (h : d ∈ (decode c env).1) :
    ∃ m ∈ env.messages, ∃ tname,
      idx env.typeNames m.typeIdx = some tname ∧
      idx env.targets m.targetIdx = some d.target ∧
      c.deserialize m.data tname = some d.payload ∧
      d.sender = idx env.senders m.senderIdx :=
  decode_justified c env d h

/-- an index that is negative or beyond its table never yields an element. -/
theorem idx_out_of_range {α : Type} (l : List α) (i : Int) (h : i < 0 ∨ (l.length : Int) ≤ i) :
    idx l i = none := by
  unfold idx
  split
  · rfl
  · rename_i hneg
    have : l.length ≤ i.toNat := by omega
    simp [this]

/-- at most one delivery per message; all of them iff no error. -/
theorem count (c : Codec P) (env : Envelope) :
    (decode c env).1.length ≤ env.messages.length ∧
    ((decode c env).2 = .ok → (decode c env).1.length = env.messages.length) :=
  decode_count c env

/-- non-vacuity: a hostile envelope (negative, huge, valid indices mixed) is handled without a third
    outcome: the valid first message is delivered, the second ends the stream. -/
example :
    decode demoCodec
      { typeNames := ["odd"], targets := [⟨"n", "x"⟩], senders := [],
        messages := [⟨[1], 0, 7, 0⟩, ⟨[1], 0, 0, 5⟩, ⟨[1], 0, -1, 0⟩] } =
    ([⟨⟨"n", "x"⟩, 1, none⟩], .err) := by decide

end HW.C16
