/-
L3 — model of `actor/registry.go` + the part of `Engine.Spawn/SpawnProc/Stop/SendLocal` that decides
who is registered. Every Registry method is one critical section of one RWMutex (regenerated facts
`registryLockShape`, `registryAddAtomic`), so each operation below is one atomic step and a history
of concurrent callers is a sequence of these steps in lock-acquisition order.

Go                                           model
-------------------------------------------  -----------------------------------------------
Registry.lookup map[string]Processer          `entries : List (Id × Inst)` (at most one entry per id: `Reg.WF`)
Registry.add(proc)                            `add id inst` → `won` (inserted; proc.Start() runs) | `dup` (ActorDuplicateIdEvent; Start never runs)
Registry.Remove(pid)                          `remove id`
Registry.get / getByID / GetPID               `get id`
-/
namespace HW.Registry

abbrev Id := String
abbrev Inst := Nat     -- identity of a Processer object

structure Reg where
  entries : List (Id × Inst) := []
deriving Repr

def lookup (id : Id) : List (Id × Inst) → Option Inst
  | [] => none
  | (k, v) :: rest => if k = id then some v else lookup id rest

def erase (id : Id) : List (Id × Inst) → List (Id × Inst)
  | [] => []
  | (k, v) :: rest => if k = id then erase id rest else (k, v) :: erase id rest

def Reg.get (r : Reg) (id : Id) : Option Inst := lookup id r.entries

inductive AddResult where
  | won | dup
deriving DecidableEq, Repr

def Reg.add (r : Reg) (id : Id) (inst : Inst) : Reg × AddResult :=
  match r.get id with
  | some _ => (r, .dup)
  | none => ({ entries := (id, inst) :: r.entries }, .won)

def Reg.remove (r : Reg) (id : Id) : Reg :=
  { entries := erase id r.entries }

/-- at most one entry per id. -/
def Reg.WF (r : Reg) : Prop := (r.entries.map (·.1)).Nodup

inductive Op where
  | add (id : Id) (inst : Inst)
  | remove (id : Id)
  | get (id : Id)
deriving Repr

inductive Out where
  | added (res : AddResult)
  | removed
  | got (inst : Option Inst)
deriving DecidableEq, Repr

def step (r : Reg) : Op → Reg × Out
  | .add id inst => let (r', res) := r.add id inst; (r', .added res)
  | .remove id => (r.remove id, .removed)
  | .get id => (r, .got (r.get id))

def run (r : Reg) : List Op → Reg × List Out
  | [] => (r, [])
  | op :: ops => let (r1, o) := step r op; let (r2, os) := run r1 ops; (r2, o :: os)

/-- abstract spec: a partial map from ids to the instance that answers to them. -/
def Spec := Id → Option Inst

def abs (r : Reg) : Spec := fun id => r.get id

end HW.Registry
