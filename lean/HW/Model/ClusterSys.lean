/-
L5 — a cluster of agents (`cluster/agent.go`, `cluster/cluster.go`) with a pool of in-flight
notifications. Request/response between agents (ActivationRequest) is synchronous; `Activation`,
`Deactivation` and `ActorTopology` sent to OTHER members are held in the pool and delivered later in
an arbitrary order; what an agent sends to itself is handled right after the current message.

Go                                                    model
----------------------------------------------------  --------------------------------------------
Agent.activate(kind, config)                           `activate n kind id sel`
Agent.handleActivationRequest (engine.Spawn)            `spawnOn`
Agent.bcast(&Activation{PID}) / (&Deactivation{PID})    `bcast` (self: immediate; others: pool)
Agent.handleActivation / handleDeactivation /           `deliver`
  handleActorTopology
Cluster.Spawn                                           `clusterSpawn`
Agent.handleMembers (+ topology to a joiner)            `snapshot` (uses HW.Cluster.handleMembers)
engine Registry of a node (actor ids)                   `Node.actors`
config.selectMember                                     `sel : Option Nat` (index into the candidates sorted by id; none = select returns nil)

Well-formedness assumed by the theorems (and kept by the harness): kind names contain no "/"; member
hosts are pairwise distinct; a member advertises exactly the kinds it registered locally.
-/
import HW.Model.Cluster
namespace HW.ClusterSys
open HW.Cluster

structure Node where
  id : String
  host : String
  localKinds : List String
  agent : AgentSt := {}
  actors : List String := []       -- ids ("kind/id") of the actors registered on this node's engine
deriving Repr

inductive Note where
  | activation (pid : Pid)
  | deactivation (pid : Pid)
  | topology (pids : List Pid)
deriving DecidableEq, Repr

structure Sys where
  nodes : List Node := []
  pool : List (String × Note) := []       -- (target node id, notification)
  log : List String := []                 -- "spawn:<node>:<key>" / "stop:<node>:<key>"
deriving Repr

def getNode (s : Sys) (id : String) : Option Node := s.nodes.find? (·.id = id)

def setNode (s : Sys) (n : Node) : Sys :=
  { s with nodes := s.nodes.map fun x => if x.id = n.id then n else x }

def key (kind id : String) : String := kind ++ "/" ++ id

/-- `addActivated`: only if the id is not known yet. -/
def addActivated (a : AgentSt) (pid : Pid) : AgentSt :=
  if a.activated.any (·.1 = pid.2) then a else { a with activated := a.activated ++ [(pid.2, pid)] }

def removeActivated (a : AgentSt) (pid : Pid) : AgentSt :=
  { a with activated := a.activated.filter (·.1 ≠ pid.2) }

/-- handling one notification on node `n`. `Poison(pid)` looks the id up in the local registry. -/
def handleNote (s : Sys) (n : Node) : Note → Sys
  | .activation pid => setNode s { n with agent := addActivated n.agent pid }
  | .topology pids => setNode s { n with agent := pids.foldl addActivated n.agent }
  | .deactivation pid =>
    let n1 := { n with agent := removeActivated n.agent pid }
    if n.actors.contains pid.2 then
      let s1 := setNode s { n1 with actors := n.actors.filter (· ≠ pid.2) }
      { s1 with log := s1.log ++ ["stop:" ++ n.id ++ ":" ++ pid.2] }
    else setNode s n1

/-- deliver the `i`-th pooled notification (if its target node still exists). -/
def deliver (s : Sys) (i : Nat) : Sys :=
  match s.pool[i]? with
  | none => s
  | some (target, note) =>
    let s1 := { s with pool := s.pool.eraseIdx i }
    match getNode s1 target with
    | none => s1
    | some n => handleNote s1 n note

/-- deliver everything, always taking the pooled notification the order list says next. -/
def drain (s : Sys) : List Nat → Sys
  | [] => s
  | i :: is => drain (deliver s (if s.pool.length = 0 then 0 else i % s.pool.length)) is

/-- send `note` to every member of `n`'s view: itself immediately, the others through the pool. -/
def bcast (s : Sys) (n : Node) (members : List Member) (note : Note) : Sys :=
  members.foldl (fun s m =>
    if m.id = n.id then
      match getNode s n.id with
      | some self => handleNote s self note
      | none => s
    else { s with pool := s.pool ++ [(m.id, note)] }) s

def insertSorted (m : Member) : List Member → List Member
  | [] => [m]
  | x :: xs => if m.id ≤ x.id then m :: x :: xs else x :: insertSorted m xs

def sortById (ms : List Member) : List Member := ms.foldl (fun acc m => insertSorted m acc) []

/-- `engine.Spawn(kind, WithID(id))` on node `t`: a second spawn of a registered id starts nothing. -/
def spawnOn (s : Sys) (t : Node) (k : String) : Sys :=
  if t.actors.contains k then s
  else
    let s1 := setNode s { t with actors := t.actors ++ [k] }
    { s1 with log := s1.log ++ ["spawn:" ++ t.id ++ ":" ++ k] }

/-- `Agent.activate` on node `nid`. Returns the PID handed back to the caller (`none` = nil). -/
def activate (s : Sys) (nid kind id : String) (sel : Option Nat) : Sys × Option Pid :=
  match getNode s nid with
  | none => (s, none)
  | some n =>
    let k := key kind id
    if n.agent.activated.any (·.1 = k) then (s, none) else
    let cands := sortById (n.agent.members.filter (fun m => m.kinds.contains kind))
    if cands = [] then (s, none) else
    match sel with
    | none => (s, none)
    | some i =>
      match cands[i % cands.length]? with
      | none => (s, none)
      | some m =>
        match getNode s m.id with
        | none => (s, none)                       -- unreachable member: the request times out
        | some t =>
          if !t.localKinds.contains kind then (s, none) else   -- ActivationResponse{Success: false}
          let s1 := spawnOn s t k
          let pid : Pid := (t.host, k)
          match getNode s1 nid with
          | none => (s1, none)
          | some n1 => (bcast s1 n1 n1.agent.members (.activation pid), some pid)

/-- `Cluster.Deactivate(pid)` issued on node `nid`. -/
def deactivate (s : Sys) (nid : String) (pid : Pid) : Sys :=
  match getNode s nid with
  | none => s
  | some n => bcast s n n.agent.members (.deactivation pid)

/-- `Cluster.Spawn(producer, kind, WithID(id))` on node `nid`. -/
def clusterSpawn (s : Sys) (nid kind id : String) : Sys × Option Pid :=
  match getNode s nid with
  | none => (s, none)
  | some n =>
    let k := key kind id
    let s1 := spawnOn s n k
    let pid : Pid := (n.host, k)
    match getNode s1 nid with
    | none => (s1, none)
    | some n1 => (bcast s1 n1 n1.agent.members (.activation pid), some pid)

/-- a membership snapshot reaches node `nid`'s agent: `handleMembers`, topology to joiners. -/
def snapshot (s : Sys) (nid : String) (snap : List Member) : Sys :=
  match getNode s nid with
  | none => s
  | some n =>
    let (a', outs) := handleMembers n.agent snap
    let s1 := setNode s { n with agent := a' }
    outs.foldl (fun s o =>
      match o with
      | .topology toId _ =>
        -- the topology carries the sender's activations at the time of the join
        let note := Note.topology (n.agent.activated.map (·.2))
        if toId = nid then
          (match getNode s nid with | some self => handleNote s self note | none => s)
        else { s with pool := s.pool ++ [(toId, note)] }
      | _ => s) s1

/-- a node leaves the cluster (its engine is gone: nothing can be delivered to it any more). -/
def removeNode (s : Sys) (nid : String) : Sys :=
  { s with nodes := s.nodes.filter (·.id ≠ nid) }

def getActiveByID (n : Node) (k : String) : Option Pid := (n.agent.activated.find? (·.1 = k)).map (·.2)

def getActiveByKind (n : Node) (kind : String) : List Pid :=
  (n.agent.activated.filter (fun a => (a.1.splitOn "/").headD "" = kind)).map (·.2)

end HW.ClusterSys
