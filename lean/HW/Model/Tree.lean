/-
L3 — supervision tree (`actor/context.go` SpawnChild/Children/Parent, `process.cleanup`).

`cleanup` of a process: delete itself from its parent's children map; for every child (snapshot of
`Children()`): Poison it and wait until its context is done; then stop the inbox, unregister, handle
Stopped, publish the event; the deferred cancel runs last. The waiting makes the shutdown of a subtree
a sequential recursion — modelled by `stopTree` — as long as nobody else stops a descendant
concurrently (known finding KF-D12 otherwise). A path is the list of names from the root.
-/
namespace HW.Tree

inductive T where
  | node (name : String) (children : List T)
deriving Repr

abbrev Path := List String

inductive Ev where
  | unregister (path : Path)
  | stopped (path : Path)
  | done (path : Path)        -- the stop context of this node becomes done
deriving DecidableEq, Repr

mutual
/-- shutdown of the subtree rooted at `t`, whose parent has path `pre`. -/
def stopTree (pre : Path) : T → List Ev
  | .node name cs =>
    stopForest (pre ++ [name]) cs ++ [.unregister (pre ++ [name]), .stopped (pre ++ [name]), .done (pre ++ [name])]
def stopForest (pre : Path) : List T → List Ev
  | [] => []
  | c :: cs => stopTree pre c ++ stopForest pre cs
end

mutual
def paths (pre : Path) : T → List Path
  | .node name cs => (pre ++ [name]) :: pathsForest (pre ++ [name]) cs
def pathsForest (pre : Path) : List T → List Path
  | [] => []
  | c :: cs => paths pre c ++ pathsForest pre cs
end

/-- `q` is strictly below `p` in the tree. -/
def below (q p : Path) : Bool := p.isPrefixOf q && p.length < q.length

/-- post-order acceptor: when a node handles Stopped it is already unregistered and every node below
    it (among `all`) has already handled Stopped and been unregistered; a node's stop context becomes
    done after its own Stopped and after the contexts of everything below it. -/
def postorderOK (all : List Path) : List Ev → List Ev → Bool
  | _, [] => true
  | seen, e :: rest =>
    let ok := match e with
      | .stopped p => seen.contains (.unregister p) &&
          all.all (fun q => !below q p || (seen.contains (.stopped q) && seen.contains (.unregister q)))
      | .done p => seen.contains (.stopped p) &&
          all.all (fun q => !below q p || seen.contains (.done q))
      | .unregister _ => true
    ok && postorderOK all (seen ++ [e]) rest

/-! ### dynamic view: which nodes are alive, as a set of paths -/

def childrenOf (live : List Path) (p : Path) : List Path :=
  live.filter (fun q => q.dropLast = p && q ≠ [])

def subtreeOf (live : List Path) (p : Path) : List Path :=
  live.filter (fun q => q = p || below q p)

/-- stopping `p` (stop, poison, self-stop, crash with an exhausted budget): the whole subtree goes. -/
def stopAt (live : List Path) (p : Path) : List Path :=
  live.filter (fun q => !(q = p || below q p))

end HW.Tree
