/-
Model of `applyMiddleware` (actor/process.go): `for i := len(mw)-1; i >= 0; i-- { rcv = mw[i](rcv) }`.
A middleware is identified by a number; calling the wrapped function is modelled by the sequence
of steps it performs.
-/
namespace HW.Mw

inductive Step where
  | enter (i : Nat) | exit (i : Nat) | recv
deriving DecidableEq, Repr

/-- a receive function, as the trace it produces when called. -/
abbrev Fn := List Step

def receiver : Fn := [.recv]

/-- middleware `i` wrapped around `next`. -/
def wrap (i : Nat) (next : Fn) : Fn := [.enter i] ++ next ++ [.exit i]

/-- the loop of `applyMiddleware`: from the last middleware to the first. -/
def applyRev (rcv : Fn) : List Nat → Fn
  | [] => rcv
  | i :: rest => applyRev (wrap i rcv) rest

def apply (chain : List Nat) : Fn := applyRev receiver chain.reverse

def run (f : Fn) : List Step := f

theorem applyRev_spec (rcv : Fn) (rev : List Nat) :
    applyRev rcv rev = rev.reverse.map Step.enter ++ rcv ++ rev.map Step.exit := by
  induction rev generalizing rcv with
  | nil => simp [applyRev]
  | cons i rest ih => simp [applyRev, ih, wrap, List.append_assoc]

theorem run_apply (chain : List Nat) :
    run (apply chain) = chain.map Step.enter ++ [Step.recv] ++ chain.reverse.map Step.exit := by
  simp [run, apply, applyRev_spec, receiver]

end HW.Mw
