/-
L3 — request/response (`actor/response.go`, `Engine.Request`, `Context.Respond`).

Go                                                    model
----------------------------------------------------  ------------------------------------------
NewResponse: pid "response/<n>", n from a process-wide   `request`: id := `nextId` (fresh, never reused)
  counter; Registry.add(resp)
Response.result chan any (capacity 1)                   `Option Val` slot of the registered response
engine.Send(respPid, v): registered ⇒ Response.Send       `reply id v`: slot empty ⇒ stored; slot full ⇒ dropped (non-blocking send);
  (non-blocking); not registered ⇒ DeadLetterEvent          not registered ⇒ dead letter
Response.Result(): select { reply | timeout }, then         `result id fired`: value if buffered; timeout only if the timer fired;
  Registry.Remove                                           afterwards always unregistered
The wall-clock side of the timeout is an input (`fired`), not modelled.
-/
namespace HW.Response

abbrev Val := Nat

structure St where
  reg : List (Nat × Option Val) := []     -- registered response ids and their buffered reply
  nextId : Nat := 0
  hist : List (Nat × Val) := []            -- ghost: every reply (id, v) sent so far
deriving Repr

def lookup (id : Nat) : List (Nat × Option Val) → Option (Option Val)
  | [] => none
  | (k, v) :: rest => if k = id then some v else lookup id rest

def erase (id : Nat) : List (Nat × Option Val) → List (Nat × Option Val)
  | [] => []
  | (k, v) :: rest => if k = id then erase id rest else (k, v) :: erase id rest

def setVal (id : Nat) (x : Val) : List (Nat × Option Val) → List (Nat × Option Val)
  | [] => []
  | (k, v) :: rest => if k = id then (k, some x) :: rest else (k, v) :: setVal id x rest

inductive Op where
  | request
  | reply (id : Nat) (v : Val)
  | result (id : Nat) (fired : Bool)
deriving DecidableEq, Repr

inductive Out where
  | requested (id : Nat)
  | delivered | dropped | deadLetter
  | value (v : Val) | timeout | pending | unknown
deriving DecidableEq, Repr

def step (s : St) : Op → St × Out
  | .request => ({ s with reg := (s.nextId, none) :: s.reg, nextId := s.nextId + 1 }, .requested s.nextId)
  | .reply id v =>
    let s := { s with hist := s.hist ++ [(id, v)] }
    match lookup id s.reg with
    | none => (s, .deadLetter)
    | some none => ({ s with reg := setVal id v s.reg }, .delivered)
    | some (some _) => (s, .dropped)
  | .result id fired =>
    match lookup id s.reg with
    | none => (s, .unknown)
    | some (some v) => ({ s with reg := erase id s.reg }, .value v)
    | some none => if fired then ({ s with reg := erase id s.reg }, .timeout) else (s, .pending)

def run (s : St) : List Op → St × List Out
  | [] => (s, [])
  | op :: ops => let (s1, o) := step s op; let (s2, os) := run s1 ops; (s2, o :: os)

end HW.Response
