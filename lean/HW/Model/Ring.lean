/-
L0 — model of `ringbuffer/ringbuffer.go`, transcribed statement by statement.

Go                                              model
--------------------------------------------    ---------------------------------------------
buffer.items []T (len = mod)                    `items : List α`  (`mod = items.length`)
buffer.head, buffer.tail int64                  `head tail : Nat`
RingBuffer.len int64 (atomic)                   `len : Nat`
var t T  (zero value written into popped slot)  `default` of `[Inhabited α]`
New(size)                                       `Ring.new size`
Push / Pop / PopN(n) / Len                      `push` / `pop` / `popN n` / `lenOf`

Each method body is one critical section of `rb.mu` (fact `ringLockShape` in Generated/Facts),
so a method is one atomic step here.  `int64` overflow (2^62 slots) is outside the model.
`New(0)` (division by zero in Push) and `PopN(n<0)` (panic in make) are outside the property
(capacity >= 1; the only caller passes 4096); the model is total there but nothing is claimed.
-/
namespace HW

structure Ring (α : Type) where
  items : List α
  head  : Nat
  tail  : Nat
  len   : Nat
deriving Repr

namespace Ring
variable {α : Type} [Inhabited α]

def mod (r : Ring α) : Nat := r.items.length

def new (size : Nat) : Ring α :=
  { items := List.replicate size default, head := 0, tail := 0, len := 0 }

/-- the slot read by Go's `items[i]` (in range whenever the invariant holds). -/
def slot (r : Ring α) (i : Nat) : α := r.items.getD i default

/-- `newBuff` after the copy loop of `Push`: `newBuff[i] = items[(tail+i) % mod]` for `i < mod`,
    zero values above; `t` is the already incremented tail. -/
def growItems (r : Ring α) (t : Nat) : List α :=
  (List.range r.mod).map (fun i => r.slot ((t + i) % r.mod)) ++ List.replicate r.mod default

def push (r : Ring α) (x : α) : Ring α :=
  let t := (r.tail + 1) % r.mod
  if t = r.head then
    { items := (r.growItems t).set r.mod x, head := 0, tail := r.mod, len := r.len + 1 }
  else
    { items := r.items.set t x, head := r.head, tail := t, len := r.len + 1 }

def lenOf (r : Ring α) : Nat := r.len

def pop (r : Ring α) : Ring α × Option α :=
  if r.len = 0 then (r, none)
  else
    let h := (r.head + 1) % r.mod
    ({ r with items := r.items.set h default, head := h, len := r.len - 1 }, some (r.slot h))

/-- the positions read (and zeroed) by the `PopN` loop. -/
def popPositions (r : Ring α) (n : Nat) : List Nat :=
  (List.range n).map (fun i => (r.head + 1 + i) % r.mod)

def zeroAll (items : List α) (ps : List Nat) : List α :=
  ps.foldl (fun acc p => acc.set p default) items

def popN (r : Ring α) (n : Nat) : Ring α × Option (List α) :=
  if r.len = 0 then (r, none)
  else
    let n' := if n ≥ r.len then r.len else n
    let ps := r.popPositions n'
    ({ r with items := zeroAll r.items ps, head := (r.head + n') % r.mod, len := r.len - n' },
     some (ps.map r.slot))

/-- abstraction: the queue content, oldest first. -/
def abs (r : Ring α) : List α :=
  (List.range r.len).map (fun i => r.slot ((r.head + 1 + i) % r.mod))

/-- representation invariant. -/
structure Inv (r : Ring α) : Prop where
  modPos : 0 < r.mod
  headLt : r.head < r.mod
  lenLt  : r.len < r.mod
  tailEq : r.tail = (r.head + r.len) % r.mod

end Ring

/-- operations of the sequential interface. -/
inductive RingOp (α : Type) where
  | push (x : α)
  | pop
  | popN (n : Nat)
  | len
deriving Repr

/-- observable result of one operation. -/
inductive RingOut (α : Type) where
  | unit
  | item (x : Option α)
  | items (xs : Option (List α))
  | len (n : Nat)
deriving Repr, DecidableEq

namespace Ring
variable {α : Type} [Inhabited α]

def step (r : Ring α) : RingOp α → Ring α × RingOut α
  | .push x => (r.push x, .unit)
  | .pop    => let (r', o) := r.pop; (r', .item o)
  | .popN n => let (r', o) := r.popN n; (r', .items o)
  | .len    => (r, .len r.lenOf)

def run (r : Ring α) : List (RingOp α) → List (RingOut α)
  | [] => []
  | op :: ops => let (r', o) := r.step op; o :: run r' ops

end Ring
end HW
