/-
L3 — `Engine.send` / `SendLocal` decision logic and the event stream (`actor/engine.go`,
`actor/event_stream.go`).

Go                                                     model
-----------------------------------------------------  ------------------------------------------
Engine.address, Engine.remote (nil or not)              `Eng.address`, `Eng.hasRemote`
Registry.get(pid) != nil                                `Eng.registered id`
e.send(pid, msg, sender)                                `send` : what happens to one message
DeadLetterEvent / EngineRemoteMissingEvent              `Decision.deadLetter / remoteMissing` (carrying target, msg, sender)
eventStream.subs map[subKey]*PID                        `subs : List Key` without duplicates (map iteration order is
                                                          unspecified: theorems speak about membership and counts)
eventStream.Receive(eventSub / eventUnsub / other)      `esReceive`
Engine.canDeliver(sub)                                  `deliverable`
-/
namespace HW.Engine

structure Key where
  address : String
  id : String
deriving DecidableEq, Repr

structure Eng where
  address : String
  hasRemote : Bool
  registered : String → Bool

abbrev Payload := Nat

inductive Decision where
  | nothing                                                            -- nil target: silently ignored
  | enqueue (id : String)                                               -- handed to the registered process
  | deadLetter (target : Key) (msg : Payload) (sender : Option Key)     -- DeadLetterEvent broadcast
  | remoteMissing (target : Key) (msg : Payload) (sender : Option Key)  -- EngineRemoteMissingEvent broadcast
  | remoteSend (target : Key)                                           -- handed to the remote
deriving DecidableEq, Repr

/-- `Engine.send`. -/
def send (e : Eng) (target : Option Key) (msg : Payload) (sender : Option Key) : Decision :=
  match target with
  | none => .nothing
  | some t =>
    if t.address = e.address then
      (if e.registered t.id then .enqueue t.id else .deadLetter t msg sender)
    else if e.hasRemote then .remoteSend t
    else .remoteMissing t msg sender

/-- outcome of `Engine.sendPoisonPill` (behind Stop / Poison / PoisonCtx). -/
inductive PoisonOut where
  | queued (id : String)                   -- the pill is handed to the registered process: its context becomes done when
                                           --   that process has stopped (process model, C07.cancel_last)
  | deadLetterDone (target : Option Key)   -- no such process: one DeadLetterEvent (target as given, the pill, no sender)
                                           --   and the returned context is done at once
deriving DecidableEq, Repr

/-- `Engine.sendPoisonPill`: the registry is consulted by id (the address of the PID is not looked at). -/
def poison (e : Eng) (target : Option Key) : PoisonOut :=
  match target with
  | none => .deadLetterDone none
  | some t => if e.registered t.id then .queued t.id else .deadLetterDone (some t)

/-- `Engine.canDeliver`. -/
def deliverable (e : Eng) (k : Key) : Bool :=
  if k.address = e.address then e.registered k.id else e.hasRemote

inductive EMsg where
  | sub (k : Key)
  | unsub (k : Key)
  | event (n : Nat)
deriving DecidableEq, Repr

/-- `eventStream.Receive`: new subscriber set and the forwards made (subscriber, event). -/
def esReceive (e : Eng) (subs : List Key) : EMsg → List Key × List (Key × Nat)
  | .sub k => (if k ∈ subs then subs else subs ++ [k], [])
  | .unsub k => (subs.filter (· ≠ k), [])
  | .event n => (subs.filter (deliverable e), (subs.filter (deliverable e)).map (·, n))

/-- the event stream's inbox processed in order (C01 gives the order). -/
def esRun (e : Eng) (subs : List Key) : List EMsg → List Key × List (Key × Nat)
  | [] => (subs, [])
  | m :: ms =>
    let (s1, f1) := esReceive e subs m
    let (s2, f2) := esRun e s1 ms
    (s2, f1 ++ f2)

/-- effect of one stream message on "is `k` subscribed?" (last sub/unsub for `k` wins). -/
def subStep (k : Key) (b : Bool) : EMsg → Bool
  | .sub k' => if k' = k then true else b
  | .unsub k' => if k' = k then false else b
  | .event _ => b

/-- is `k` subscribed after the given prefix of the stream, starting from `b`? -/
def subscribedAfter (k : Key) (b : Bool) (ms : List EMsg) : Bool := ms.foldl (subStep k) b

end HW.Engine
