/-
L4 — the stream router and the life of a stream writer (`remote/stream_router.go`,
`remote/stream_writer.go` Start/init/Shutdown, `remote/remote.go` Start/Stop), as a transition system.

Go                                                     model
-----------------------------------------------------  ------------------------------------------
streamRouter.streams map[address]*PID                    `routes : List Addr` (addresses the router has a writer pid for)
Registry entry "stream/<address>"                        `registered : List Addr`
router inbox (deliveries and RemoteUnreachableEvents      `inbox : List RMsg` (FIFO, C01)
  in arrival order)
deliverStream: SpawnProc(newStreamWriter) runs            `routerStep` on `.deliver`: a missing route dials synchronously
  Start() = inbox.Start + init() (dial, 3 attempts)         (`dial a` = does the peer accept?); on failure Shutdown runs at once
streamWriter.Shutdown (after the fix): inbox.Stop,        `shutdown`: unregister FIRST, then the unreachable event is queued
  Registry.Remove, then notify router + event stream        for the router and published
connection lost (conn.Closed())                           `connLost a`
engine.Send(swpid, msg): registered ⇒ writer inbox,       outcome `sent` / `deadLetter`
  else DeadLetterEvent
-/
namespace HW.Router

abbrev Addr := String

inductive RMsg where
  | deliver (a : Addr) (m : Nat)
  | unreachable (a : Addr)
deriving DecidableEq, Repr

inductive Out where
  | sent (a : Addr) (m : Nat)            -- handed to a live writer (goes out on its connection)
  | deadLetter (a : Addr) (m : Nat)
  | unreachableEvent (a : Addr)          -- RemoteUnreachableEvent published on the event stream
deriving DecidableEq, Repr

structure St where
  routes : List Addr := []
  registered : List Addr := []
  inbox : List RMsg := []
deriving Repr

/-- `streamWriter.Shutdown()` (fixed order): unregister, then tell the router and the event stream. -/
def shutdown (s : St) (a : Addr) : St × List Out :=
  ({ s with registered := s.registered.filter (· ≠ a), inbox := s.inbox ++ [.unreachable a] }, [.unreachableEvent a])

/-- `deliverStream` makes sure there is a route: spawn a writer (registry add; a taken id starts
    nothing); a fresh writer dials synchronously; if the dial fails Shutdown runs at once. -/
def ensureRoute (dial : Addr → Bool) (s : St) (a : Addr) : St × List Out :=
  if s.routes.contains a then (s, [])
  else if s.registered.contains a then ({ s with routes := a :: s.routes }, [])   -- duplicate id: never started
  else if dial a then ({ s with routes := a :: s.routes, registered := a :: s.registered }, [])
  else shutdown { s with routes := a :: s.routes, registered := a :: s.registered } a

/-- `engine.Send(swpid, msg)`. -/
def sendToWriter (s : St) (a : Addr) (m : Nat) : Out :=
  if s.registered.contains a then .sent a m else .deadLetter a m

/-- the router handles the message at the head of its inbox. `dial a` says whether the peer at `a`
    accepts a connection right now. -/
def routerStep (dial : Addr → Bool) (s : St) : St × List Out :=
  match s.inbox with
  | [] => (s, [])
  | .unreachable a :: rest => ({ s with inbox := rest, routes := s.routes.filter (· ≠ a) }, [])
  | .deliver a m :: rest =>
    let (s1, outs) := ensureRoute dial { s with inbox := rest } a
    (s1, outs ++ [sendToWriter s1 a m])

/-- an established connection is lost: the writer's watcher goroutine runs Shutdown. -/
def connLost (s : St) (a : Addr) : St × List Out :=
  if s.registered.contains a then shutdown s a else (s, [])

/-- a message is sent to a remote address: it is queued for the router. -/
def send (s : St) (a : Addr) (m : Nat) : St := { s with inbox := s.inbox ++ [.deliver a m] }

/-- run the router until its inbox is empty (each step removes one message and adds at most one). -/
def drainRouter (dial : Addr → Bool) : Nat → St → St × List Out
  | 0, s => (s, [])
  | f + 1, s =>
    if s.inbox = [] then (s, []) else
    let (s1, o1) := routerStep dial s
    let (s2, o2) := drainRouter dial f s1
    (s2, o1 ++ o2)

/-- the invariant the fixed Shutdown order maintains: a route without a registered writer always has
    its unreachable notice on the way to the router. -/
def RouteInv (s : St) : Prop :=
  ∀ a, a ∈ s.routes → a ∈ s.registered ∨ RMsg.unreachable a ∈ s.inbox

/-! ### Remote.Start / Remote.Stop -/

inductive RState where
  | initialized | running | stopped
deriving DecidableEq, Repr

inductive ROut where
  | started | alreadyStarted | stopSignalled | notRunning
deriving DecidableEq, Repr

def remoteStart : RState → RState × ROut
  | .initialized => (.running, .started)
  | s => (s, .alreadyStarted)

def remoteStop : RState → RState × ROut
  | .running => (.stopped, .stopSignalled)
  | s => (s, .notRunning)

/-- the node accepts inbound connections exactly while running. -/
def accepting : RState → Bool
  | .running => true
  | _ => false

end HW.Router
