/-
L2 — sequential big-step model of `actor/process.go` (Start / Invoke / invokeMsg / tryRestart /
cleanup), with panics as explicit outcomes and user code as a script.

Go                                                       model
------------------------------------------------------   -----------------------------------------
Receiver.Receive (user code)                             `callRecv`: consumes one `Outcome` of the script per
                                                           Initialized / Started / user delivery (exhausted = ok);
                                                           Stopped deliveries never panic (outside every property)
panic(v) / recover                                       functions return `PSt × Option Pv` (`some v` = a panic
                                                           is propagating out of the function)
p.restarts, p.MaxRestarts (>= 0), p.mbuffer, p.stopped   fields of `PSt`
p.inbox.Stop() / p.inbox.Start(p) (CAS from stopped)     `inboxOpen : Bool`, events `inboxStop`, `inboxStart ok`
Registry.Remove(p.pid)                                   `registered := false`, event `unregister`
engine.BroadcastEvent(Actor…Event)                       event `ev …`
pill.cancel()                                            event `cancel id`
applyMiddleware(recv, mw…)                               `recv … (mw := number of middlewares the delivery went through)`
time.Sleep(RestartDelay)                                 not modelled (an event of no consequence here)
children (cleanup poisons them and waits)                not in this model (C08, stream "tree")

`fuel` bounds the nesting depth of restarts (each restart consumes a panic of the finite script, so
`3 * script.length + 6` suffices; the driver reports if it is ever exhausted).
-/
namespace HW.Proc

/-- what user code does when called. -/
inductive Outcome where
  | ok | panic | ierr     -- ierr = panic(&InternalError{…})
deriving DecidableEq, Repr

/-- a panic value. -/
inductive Pv where
  | user | ierr
deriving DecidableEq, Repr

/-- an envelope in a batch. -/
inductive Msg where
  | user (k : Nat) (sender : Option Nat)
  | pill (id : Nat) (graceful : Bool)
deriving DecidableEq, Repr

/-- what Receive sees. There is no constructor for a poison pill. -/
inductive LMsg where
  | initialized | started | stopped
  | user (k : Nat) (sender : Option Nat)
deriving DecidableEq, Repr

inductive EvKind where
  | initialized | started | stopped | restarted (n : Nat) | maxRestarts
deriving DecidableEq, Repr

inductive Ev where
  | producer (inc : Nat)
  | recv (inc : Nat) (m : LMsg) (mw : Nat) (registered : Bool)
  | ev (k : EvKind)
  | cancel (id : Nat)
  | inboxStop
  | inboxStart (ok : Bool)
  | unregister
deriving DecidableEq, Repr

structure PSt where
  maxRestarts : Nat
  mwLen : Nat
  restarts : Nat := 0
  mbuffer : List Msg := []
  inc : Nat := 0
  script : List Outcome := []
  inboxOpen : Bool := false
  registered : Bool := true
  stopped : Bool := false
  fuelOut : Bool := false
  trace : List Ev := []
deriving Repr

def emit (s : PSt) (e : Ev) : PSt := { s with trace := s.trace ++ [e] }

/-- next outcome of user code. -/
def nextOutcome (s : PSt) : PSt × Outcome :=
  match s.script with
  | [] => (s, .ok)
  | o :: rest => ({ s with script := rest }, o)

/-- deliver `m` to the current receiver through the middleware chain. -/
def callRecv (s : PSt) (m : LMsg) : PSt × Option Pv :=
  let s := emit s (.recv s.inc m s.mwLen s.registered)
  match m with
  | .stopped => (s, none)
  | _ =>
    let (s, o) := nextOutcome s
    match o with
    | .ok => (s, none)
    | .panic => (s, some .user)
    | .ierr => (s, some .ierr)

/-- `invokeMsg`: poison pills are suppressed, everything else goes to the receiver. -/
def invokeMsg (s : PSt) : Msg → PSt × Option Pv
  | .pill _ _ => (s, none)
  | .user k snd => callRecv s (.user k snd)

/-- `cleanup(cancel)` without children: stop the inbox, unregister, Stopped, event, cancel last. -/
def cleanup (s : PSt) (cancel : Option Nat) : PSt :=
  let s := { s with stopped := true }
  let s := emit { s with inboxOpen := false } .inboxStop
  let s := emit { s with registered := false } .unregister
  let (s, _) := callRecv s .stopped
  let s := emit s (.ev .stopped)
  match cancel with
  | none => s
  | some id => emit s (.cancel id)

/-- `p.inbox.Start(p)`: succeeds only from the stopped state. -/
def inboxStart (s : PSt) : PSt :=
  if s.inboxOpen then emit s (.inboxStart false)
  else emit { s with inboxOpen := true } (.inboxStart true)

/-- result of the delivery loop of `Invoke`. -/
inductive Loop where
  | finished                          -- loop ran to the end, or a pill ended the process
  | panicked (v : Pv) (rest : List Msg)  -- a delivery panicked; `rest` = what the recover handler buffers
deriving Repr

/-- drain behind a graceful pill: deliver every remaining message of the batch; on a panic the
    handler buffers what is behind the failing message, then the pill again. -/
def drain (s : PSt) (pill : Msg) : List Msg → PSt × Option (Pv × List Msg)
  | [] => (s, none)
  | m :: rest =>
    match invokeMsg s m with
    | (s, some v) => (s, some (v, rest ++ [pill]))
    | (s, none) => drain s pill rest

/-- the `for` loop of `Invoke`. -/
def invokeLoop (s : PSt) : List Msg → PSt × Loop
  | [] => (s, .finished)
  | .pill id g :: rest =>
    if g then
      match drain s (.pill id g) rest with
      | (s, some (v, buf)) => (s, .panicked v buf)
      | (s, none) => (cleanup s (some id), .finished)
    else (cleanup s (some id), .finished)
  | .user k snd :: rest =>
    match callRecv s (.user k snd) with
    | (s, some v) => (s, .panicked v rest)
    | (s, none) => invokeLoop s rest

mutual

/-- `process.Start()`. -/
def start : Nat → PSt → PSt × Option Pv
  | 0, s => ({ s with fuelOut := true }, none)
  | f + 1, s =>
    let s := emit { s with inc := s.inc + 1 } (.producer (s.inc + 1))
    match callRecv s .initialized with
    | (s, some v) => tryRestart f s v
    | (s, none) =>
      let s := emit s (.ev .initialized)
      match callRecv s .started with
      | (s, some v) => tryRestart f s v
      | (s, none) =>
        let s := emit s (.ev .started)
        let (s, p) := if s.mbuffer = [] then (s, none) else
          (match invoke f s s.mbuffer with
           | (s, some v) => (s, some v)
           | (s, none) => ({ s with mbuffer := [] }, none))
        match p with
        | some v => tryRestart f s v   -- a panic that escaped Invoke's own handler is caught by Start's
        | none => if s.stopped then (s, none) else (inboxStart s, none)

/-- `process.Invoke(msgs)`. -/
def invoke : Nat → PSt → List Msg → PSt × Option Pv
  | 0, s, _ => ({ s with fuelOut := true }, none)
  | f + 1, s, msgs =>
    match invokeLoop s msgs with
    | (s, .finished) => (s, none)
    | (s, .panicked v buf) => tryRestart f { s with mbuffer := buf } v

/-- `process.tryRestart(v)`. -/
def tryRestart : Nat → PSt → Pv → PSt × Option Pv
  | 0, s, _ => ({ s with fuelOut := true }, none)
  | f + 1, s, .ierr =>
    let (s, _) := callRecv s .stopped
    start f s
  | f + 1, s, .user =>
    if s.restarts = s.maxRestarts then
      (cleanup (emit s (.ev .maxRestarts)) none, none)
    else
      let (s, _) := callRecv s .stopped
      let s := { s with restarts := s.restarts + 1 }
      let s := emit s (.ev (.restarted s.restarts))
      start f s

end

/-- a history: spawn, then the batches the inbox worker hands to Invoke, one after the other, for
    as long as the inbox is open (the worker's loop condition). -/
def runBatches (fuel : Nat) (s : PSt) : List (List Msg) → PSt × Option Pv
  | [] => (s, none)
  | b :: bs =>
    if s.inboxOpen then
      match invoke fuel s b with
      | (s, some v) => (s, some v)
      | (s, none) => runBatches fuel s bs
    else (s, none)

def spawn (fuel : Nat) (maxRestarts mwLen : Nat) (script : List Outcome) : PSt × Option Pv :=
  start fuel { maxRestarts := maxRestarts, mwLen := mwLen, script := script }

def runHistory (maxRestarts mwLen : Nat) (script : List Outcome) (batches : List (List Msg)) : PSt × Option Pv :=
  let fuel := 3 * script.length + 6
  match spawn fuel maxRestarts mwLen script with
  | (s, some v) => (s, some v)
  | (s, none) => runBatches fuel s batches

end HW.Proc
