/-
L5 — per-node models of the cluster agent's membership handling (`cluster/agent.go`,
`cluster/member_set.go`) and of the self-managed provider (`cluster/selfmanaged.go`).

Go                                                     model
-----------------------------------------------------  -------------------------------------------
Member{ID, Host, Kinds}                                 `Member`
MemberSet (map[string]*Member keyed by ID)              `List Member` with pairwise distinct ids (`idsNodup`);
                                                          Go map iteration order is unspecified: theorems speak
                                                          about membership, never about order
NewMemberSet(ms...)  (later duplicates overwrite)        `mkSet`
MemberSet.Except(ms)                                     `except`
Agent.handleMembers / memberJoin / memberLeave           `handleMembers` / `memberJoin` / `memberLeave`
Agent.kinds map[string]bool (+ rebuildKinds)             `kinds : List String` (as a set)
Agent.activated map[string]*PID (id -> PID)              `activated : List (String × (String × String))`  (id ↦ (address, id))
MemberJoinEvent / MemberLeaveEvent / topology send        `AgentOut`
SelfManaged.Receive on Handshake / Members / memberLeave `provHandshake` / `provMembers` / `provLeave`
-/
namespace HW.Cluster

structure Member where
  id : String
  host : String
  kinds : List String
deriving DecidableEq, Repr

abbrev Pid := String × String     -- (address, id)

inductive AgentOut where
  | join (id : String)
  | leave (id : String)
  | topology (toId : String) (actorIds : List String)
deriving DecidableEq, Repr

structure AgentSt where
  members : List Member := []
  kinds : List String := []
  activated : List (String × Pid) := []
deriving Repr

def ids (ms : List Member) : List String := ms.map (·.id)

def hasId (ms : List Member) (id : String) : Bool := ms.any (·.id = id)

/-- `MemberSet.Add` / map assignment: insert or overwrite by id. -/
def setAdd (ms : List Member) (m : Member) : List Member :=
  if hasId ms m.id then ms.map (fun x => if x.id = m.id then m else x) else ms ++ [m]

/-- `NewMemberSet(ms...)`. -/
def mkSet (ms : List Member) : List Member := ms.foldl setAdd []

/-- `MemberSet.Remove`. -/
def setRemove (ms : List Member) (id : String) : List Member := ms.filter (·.id ≠ id)

/-- `s.Except(members)`: members of `s` whose id does not occur in `members`. -/
def except (s : List Member) (members : List Member) : List Member :=
  s.filter (fun m => !hasId members m.id)

def addKinds (kinds : List String) (ks : List String) : List String :=
  ks.foldl (fun acc k => if k ∈ acc then acc else acc ++ [k]) kinds

/-- `rebuildKinds`: the kinds of the current members. -/
def rebuildKinds (ms : List Member) : List String := ms.foldl (fun acc m => addKinds acc m.kinds) []

def memberJoin (st : AgentSt) (m : Member) : AgentSt × List AgentOut :=
  let st' := { st with members := setAdd st.members m, kinds := addKinds st.kinds m.kinds }
  let topo := if st.activated = [] then [] else [AgentOut.topology m.id (st.activated.map (·.1))]
  (st', topo ++ [.join m.id])

def memberLeave (st : AgentSt) (m : Member) : AgentSt × List AgentOut :=
  let members := setRemove st.members m.id
  ({ members := members, kinds := rebuildKinds members,
     activated := st.activated.filter (fun a => a.2.1 ≠ m.host) }, [.leave m.id])

def runAll (f : AgentSt → Member → AgentSt × List AgentOut) (st : AgentSt) : List Member → AgentSt × List AgentOut
  | [] => (st, [])
  | m :: ms => let (s1, o1) := f st m; let (s2, o2) := runAll f s1 ms; (s2, o1 ++ o2)

/-- `Agent.handleMembers(snapshot)`. -/
def handleMembers (st : AgentSt) (snap : List Member) : AgentSt × List AgentOut :=
  let joined := except (mkSet snap) st.members
  let left := except st.members snap
  let (s1, o1) := runAll memberJoin st joined
  let (s2, o2) := runAll memberLeave s1 left
  (s2, o1 ++ o2)

def joinIds (out : List AgentOut) : List String :=
  out.filterMap fun o => match o with | .join id => some id | _ => none

def leaveIds (out : List AgentOut) : List String :=
  out.filterMap fun o => match o with | .leave id => some id | _ => none

/-! ### self-managed provider -/

structure ProvSt where
  members : List Member := []
deriving Repr

inductive ProvOut where
  | agent (memberIds : List String)          -- `sendMembersToAgent`
  | reply (memberIds : List String)          -- `Members{…}` sent back to the handshake's sender
deriving DecidableEq, Repr

/-- `addMembers`: add those not yet contained, then always report to the agent. -/
def provAdd (st : ProvSt) (ms : List Member) : ProvSt × List ProvOut :=
  let members := ms.foldl (fun acc m => if hasId acc m.id then acc else acc ++ [m]) st.members
  ({ members := members }, [.agent (ids members)])

def provHandshake (st : ProvSt) (peer : Member) : ProvSt × List ProvOut :=
  let (st', o) := provAdd st [peer]
  (st', o ++ [.reply (ids st'.members)])

def provMembers (st : ProvSt) (ms : List Member) : ProvSt × List ProvOut := provAdd st ms

/-- `GetByHost`: some member with that host (the last one in map order; unique when hosts are distinct). -/
def getByHost (ms : List Member) (host : String) : Option Member :=
  (ms.filter (·.host = host)).getLast?

/-- `memberLeave{ListenAddr}`: remove the member with that address and tell the agent; an address
    that belongs to no member changes nothing. -/
def provLeave (st : ProvSt) (addr : String) : ProvSt × List ProvOut :=
  match getByHost st.members addr with
  | none => (st, [])
  | some m =>
    let members := setRemove st.members m.id
    ({ members := members }, [.agent (ids members)])

end HW.Cluster
