/-
L1 — the inbox scheduling protocol of `actor/inbox.go` as a transition system with one step per
atomic action of the Go code, for an UNBOUNDED number of threads.

Go                                                      model
-----------------------------------------------------   ------------------------------------------
procStatus int32 (stopped, starting, idle, running)      `Status`
in.rb (ring buffer; Push / PopN / Len are atomic:        `q : List Msg` (abstract FIFO, justified by
  one critical section each, C14)                          C14.refines_fifo and Facts.ring_atomic)
Inbox.Send  = rb.Push ; schedule()                       sender pcs  `sPush` → `sSched`
schedule()  = CAS(idle,running) && go process()          `trySchedule` (spawns a worker thread at `wLoad`)
process()   = run(); CAS(running,idle) && Len()>0        worker pcs `wLoad → wPop → wInvoke b → wLoad …`
              && schedule()                                `→ wCasIdle → wLen → wSched → done`
run()       = for Load != stopped { PopN(B) … Invoke }
Start()     = CAS(stopped,starting); proc=..;            starter pcs `stLife → stCas → stSwap → stSched`
              Swap(idle); schedule()                       (`stLife`: the life-cycle deliveries the spawning
                                                            goroutine makes before inbox.Start, process.Start)
Stop()      = Store(stopped)                             pc `stop`

Ghost state: `pushed` (every accepted message with its sender thread, in push order), `delivered`
(messages handed to Invoke, in order), `started`, `everStopped`, `restartedAfterStop`.
`B ≥ 1` is the batch size (4096 in the code: Generated.messageBatchSize).
-/
namespace HW.Inbox

inductive Status where
  | stopped | starting | idle | running
deriving DecidableEq, Repr

abbrev Msg := Nat

inductive Pc where
  | sPush (ms : List Msg)     -- sender: about to Push the head of ms (done when ms = [])
  | sSched (ms : List Msg)    -- sender: pushed, about to try CAS(idle,running); ms = what is left to send
  | wLoad                     -- worker: top of run(): Load(procStatus)
  | wPop                      -- worker: PopN(B)
  | wInvoke (b : List Msg)    -- worker: inside proc.Invoke(b)  (inside Receive)
  | wCasIdle                  -- worker: run() returned, CAS(running,idle)
  | wLen                      -- worker: CAS succeeded, rb.Len()
  | wSched                    -- worker: Len() > 0, schedule()
  | stLife                    -- starter: Initialized/Started (+ replay) on the spawning goroutine (inside Receive)
  | stCas                     -- starter: CAS(stopped,starting)
  | stSwap                    -- starter: in.proc = proc; Swap(idle)
  | stSched                   -- starter: schedule()
  | stop                      -- stopper: Store(stopped)
  | done
deriving DecidableEq, Repr

structure St where
  status : Status
  q : List Msg
  thr : List Pc
  pushed : List (Nat × Msg)
  delivered : List Msg
  started : Bool
  everStopped : Bool
  restartedAfterStop : Bool
deriving Repr

/-- what one step did, as observable at the shimmed atomic operations of the real code. -/
inductive Label where
  | lock                       -- a ring operation (Push / PopN critical section)
  | cas (old new : Status) (ok : Bool)
  | load (v : Status)
  | len (n : Nat)
  | swap (old : Status)
  | store
  | invoke (n : Nat)
  | life
deriving DecidableEq, Repr

def setPc (s : St) (t : Nat) (pc : Pc) : St := { s with thr := s.thr.set t pc }

/-- `schedule()`: CAS(idle,running); on success `go in.process()` — a new worker thread. -/
def trySchedule (s : St) : St × Bool :=
  if s.status = .idle then ({ s with status := .running, thr := s.thr ++ [.wLoad] }, true)
  else (s, false)

/-- one atomic step of thread `t`; `none` if `t` does not exist or has finished. -/
def step (B : Nat) (s : St) (t : Nat) : Option (St × Label) :=
  match s.thr[t]? with
  | none => none
  | some pc =>
    match pc with
    | .done => none
    | .sPush [] => none   -- a sender with nothing left to send has finished
    | .sPush (m :: ms) =>
      some (setPc { s with q := s.q ++ [m], pushed := s.pushed ++ [(t, m)] } t (.sSched ms), .lock)
    | .sSched ms =>
      let (s', ok) := trySchedule (setPc s t (if ms = [] then .done else .sPush ms))
      some (s', .cas .idle .running ok)
    | .wLoad =>
      some (setPc s t (if s.status = .stopped then .wCasIdle else .wPop), .load s.status)
    | .wPop =>
      if s.q = [] then some (setPc s t .wCasIdle, .lock)
      else some (setPc { s with q := s.q.drop B } t (.wInvoke (s.q.take B)), .lock)
    | .wInvoke b =>
      some (setPc { s with delivered := s.delivered ++ b } t .wLoad, .invoke b.length)
    | .wCasIdle =>
      if s.status = .running then some (setPc { s with status := .idle } t .wLen, .cas .running .idle true)
      else some (setPc s t .done, .cas .running .idle false)
    | .wLen =>
      some (setPc s t (if s.q = [] then .done else .wSched), .len s.q.length)
    | .wSched =>
      let (s', ok) := trySchedule (setPc s t .done)
      some (s', .cas .idle .running ok)
    | .stLife => some (setPc s t .stCas, .life)
    | .stCas =>
      if s.status = .stopped then
        some (setPc { s with status := .starting,
                             restartedAfterStop := s.restartedAfterStop || s.everStopped } t .stSwap,
              .cas .stopped .starting true)
      else some (setPc s t .done, .cas .stopped .starting false)
    | .stSwap =>
      some (setPc { s with status := .idle, started := true } t .stSched, .swap s.status)
    | .stSched =>
      let (s', ok) := trySchedule (setPc s t .done)
      some (s', .cas .idle .running ok)
    | .stop =>
      some (setPc { s with status := .stopped, everStopped := true } t .done, .store)

/-- initial configuration: thread 0 is the spawning goroutine, then one thread per sender (with the
    messages it sends, in program order), then `nStop` threads that call `Stop()`. -/
def init (senders : List (List Msg)) (nStop : Nat) : St :=
  { status := .stopped, q := [], pushed := [], delivered := [],
    thr := [.stLife] ++ senders.map .sPush ++ List.replicate nStop .stop,
    started := false, everStopped := false, restartedAfterStop := false }

/-- run a schedule (list of thread ids); ids of finished / non-existent threads are skipped. -/
def runSched (B : Nat) (s : St) : List Nat → St
  | [] => s
  | t :: ts => match step B s t with
    | none => runSched B s ts
    | some (s', _) => runSched B s' ts

/-- reachable = reached from an initial configuration by some schedule. -/
def Reachable (B : Nat) (senders : List (List Msg)) (nStop : Nat) (s : St) : Prop :=
  ∃ sched, s = runSched B (init senders nStop) sched

def insideReceive : Pc → Bool
  | .wInvoke _ => true
  | .stLife => true
  | _ => false

/-- number of goroutines that are inside the actor's Receive. -/
def nInside (s : St) : Nat := s.thr.countP insideReceive

def isDone : Pc → Bool
  | .done => true
  | .sPush [] => true
  | _ => false

/-- every thread has finished: the senders have fallen silent and nothing is in flight. -/
def quiescent (s : St) : Bool := s.thr.all isDone

/-- messages sender thread `t` has pushed so far, in push order. -/
def sentBy (s : St) (t : Nat) : List Msg := (s.pushed.filter (·.1 = t)).map (·.2)

end HW.Inbox
