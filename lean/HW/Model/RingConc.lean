/-
L0 (concurrency) — fine-grained model of how the methods of `ringbuffer.go` interleave: one step per
mutex acquisition, atomic add (the linearization point), mutex release, and atomic load.

Go                                            model
--------------------------------------------  -------------------------------------------
rb.mu.Lock()                                   `acquire` (enabled only when the lock is free)
atomic.AddInt64(&rb.len, ±k) inside the CS     `linearize`: the abstract queue `q` and the counter change TOGETHER here
                                                 (what the sequential theorem C14.refines_fifo says the whole critical
                                                  section does to the queue content is attributed to this point)
the rest of the critical section + Unlock      `release` (returns the result computed at the linearization point)
`if rb.len == 0 { Unlock; return false }`       `linearize` with an empty queue: result none, nothing changes
atomic.LoadInt64(&rb.len)   (Len, no lock)      `load`
Regenerated facts used: every method is one critical section; exactly one atomic add per method; Len is one load.
-/
import HW.Model.Ring
import HW.Spec.Fifo
namespace HW.RingConc

/-- where a thread is inside its current operation. -/
inductive Pc where
  | idle
  | waiting (op : RingOp Nat)                      -- called the method, has not got the mutex yet
  | inCS (op : RingOp Nat)                         -- holds the mutex, before its atomic add / empty test
  | finishing (op : RingOp Nat) (res : RingOut Nat) -- holds the mutex, past its linearization point
  | loading                                         -- Len(): about to do its atomic load
deriving Repr

structure St where
  q : List Nat := []                -- abstract queue content as of the linearization points so far
  cnt : Nat := 0                    -- rb.len
  lock : Option Nat := none         -- thread holding rb.mu
  thr : List Pc := []
  todo : List (List (RingOp Nat)) := []           -- per thread: operations still to call
  results : List (List (RingOut Nat)) := []       -- per thread: results returned so far, in program order
  lin : List (RingOp Nat × RingOut Nat) := []     -- operations in linearization order with their results
deriving Repr

def setT (s : St) (t : Nat) (pc : Pc) : St := { s with thr := s.thr.set t pc }

def addResult (s : St) (t : Nat) (r : RingOut Nat) : St :=
  { s with results := s.results.set t ((s.results.getD t []) ++ [r]) }

/-- one atomic step of thread `t`; `none` if the thread cannot move (finished, or blocked on the mutex). -/
def step (s : St) (t : Nat) : Option St :=
  match s.thr[t]? with
  | none => none
  | some .idle =>
    match s.todo.getD t [] with
    | [] => none
    | op :: rest =>
      let s := { s with todo := s.todo.set t rest }
      match op with
      | .len => some (setT s t .loading)
      | _ => some (setT s t (.waiting op))
  | some (.waiting op) =>
    match s.lock with
    | some _ => none                                        -- blocked
    | none => some (setT { s with lock := some t } t (.inCS op))
  | some (.inCS op) =>
    -- the linearization point: queue content and counter change together
    let (q', out) := Fifo.step s.q op
    some (setT { s with q := q', cnt := q'.length, lin := s.lin ++ [(op, out)] } t (.finishing op out))
  | some (.finishing _ res) =>
    some (addResult (setT { s with lock := none } t .idle) t res)
  | some .loading =>
    let out := RingOut.len s.cnt
    some (addResult (setT { s with lin := s.lin ++ [(.len, out)] } t .idle) t out)

def init (progs : List (List (RingOp Nat))) : St :=
  { thr := progs.map (fun _ => .idle), todo := progs, results := progs.map (fun _ => []) }

def runSched (s : St) : List Nat → St
  | [] => s
  | t :: ts => match step s t with
    | none => runSched s ts
    | some s' => runSched s' ts

/-- number of threads inside the critical section. -/
def inCritical : Pc → Bool
  | .inCS _ => true
  | .finishing _ _ => true
  | _ => false

end HW.RingConc
