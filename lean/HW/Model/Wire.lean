/-
L4 — model of the batched wire encoding, at the level of the `Envelope` structure.

Go (remote/stream_writer.go, stream_reader.go)            model
------------------------------------------------------    --------------------------------------------
streamWriter.Invoke: the loop building typeNames,          `encode` = fold of `encodeStep` over the batch
  senders, targets, messages                               `lookupIdx` = lookupPIDs / lookupTypeName
map[pidKey]int32 / map[string]int32                        association list `List (κ × Nat)` (newest first)
`stream.sender == nil`  ->  SenderIndex = -1               `senderIdx = -1`
msg not a proto.Message -> skipped (logged)                `isProto = false`  -> state unchanged
Serialize error -> skipped, nothing appended               `serialize = none` -> tables grow, no Message
streamReader.Receive: type/target index checks,             `decodeMsg` (`none` = the reader returns an error
  Deserialize, SendLocal                                     and the stream ends; deliveries so far stand)

Not modelled: protobuf/vtproto/drpc byte encoding of the Envelope itself and of payloads — payload
(de)serialisation is the `Codec` parameter whose round-trip law is a *field* (an explicit hypothesis
discharged for the concrete codec used by the driver), not an axiom.
-/
namespace HW.Wire

structure Pid where
  address : String
  id : String
deriving DecidableEq, Repr, BEq, Hashable

abbrev Bytes := List Nat

/-- payload (de)serialisation, abstracted. -/
structure Codec (P : Type) where
  isProto : P → Bool
  typeName : P → String
  serialize : P → Option Bytes
  deserialize : Bytes → String → Option P
  roundtrip : ∀ p b, isProto p = true → serialize p = some b → deserialize b (typeName p) = some p

/-- one outbound message handed to the stream writer (`streamDeliver`). -/
structure Deliver (P : Type) where
  sender : Option Pid
  target : Pid
  msg : P
deriving Repr

structure Message where
  data : Bytes
  typeIdx : Int
  senderIdx : Int
  targetIdx : Int
deriving Repr, DecidableEq

structure Envelope where
  typeNames : List String
  targets : List Pid
  senders : List Pid
  messages : List Message
deriving Repr

/-- what the receiving node hands to `SendLocal`. -/
structure Delivery (P : Type) where
  target : Pid
  payload : P
  sender : Option Pid
deriving Repr, DecidableEq

/-- `lookupPIDs` / `lookupTypeName`: index of `k`, appending it to the table when new.
    `max := len(m)` is the next free index. -/
def lookupIdx {κ : Type} [DecidableEq κ] (m : List (κ × Nat)) (k : κ) (tbl : List κ) :
    Nat × List (κ × Nat) × List κ :=
  match m.lookup k with
  | some i => (i, m, tbl)
  | none => (m.length, (k, m.length) :: m, tbl ++ [k])

structure EncState where
  typeLookup : List (String × Nat) := []
  typeNames : List String := []
  senderLookup : List (Pid × Nat) := []
  senders : List Pid := []
  targetLookup : List (Pid × Nat) := []
  targets : List Pid := []
  messages : List Message := []

variable {P : Type}

def encodeStep (c : Codec P) (st : EncState) (d : Deliver P) : EncState :=
  if c.isProto d.msg = false then st else
  let (tid, tl, tn) := lookupIdx st.typeLookup (c.typeName d.msg) st.typeNames
  let (sid, sl, sn) : Int × List (Pid × Nat) × List Pid :=
    match d.sender with
    | none => (-1, st.senderLookup, st.senders)
    | some s => let (i, l, t) := lookupIdx st.senderLookup s st.senders; ((i : Int), l, t)
  let (gid, gl, gn) := lookupIdx st.targetLookup d.target st.targets
  let st' : EncState := { st with typeLookup := tl, typeNames := tn, senderLookup := sl, senders := sn,
                                   targetLookup := gl, targets := gn }
  match c.serialize d.msg with
  | none => st'
  | some b => { st' with messages := st.messages ++ [{ data := b, typeIdx := tid, senderIdx := sid, targetIdx := gid }] }

def EncState.envelope (st : EncState) : Envelope :=
  { typeNames := st.typeNames, targets := st.targets, senders := st.senders, messages := st.messages }

def encode (c : Codec P) (batch : List (Deliver P)) : Envelope :=
  (batch.foldl (encodeStep c) {}).envelope

/-- what `streamWriter.Invoke` puts on the wire: nothing at all when no message of the batch could be encoded
    (the stream is not touched then; it may not even exist yet while the writer is still dialing). -/
def transmit (c : Codec P) (batch : List (Deliver P)) : Option Envelope :=
  let e := encode c batch
  if e.messages.isEmpty then none else some e

/-- Go slice indexing with an `int32` index, guarded: `none` when out of range or negative. -/
def idx {α : Type} (l : List α) (i : Int) : Option α :=
  if i < 0 then none else l[i.toNat]?

/-- the reader's handling of one message; `none` = return an error (stream ends). -/
def decodeMsg (c : Codec P) (env : Envelope) (m : Message) : Option (Delivery P) :=
  match idx env.typeNames m.typeIdx with
  | none => none
  | some tname =>
    match idx env.targets m.targetIdx with
    | none => none
    | some target =>
      -- a sender index that names no table entry (the writer uses -1) means "no sender"
      let sender := idx env.senders m.senderIdx
      match c.deserialize m.data tname with
      | none => none
      | some p => some { target := target, payload := p, sender := sender }

inductive Outcome where
  | ok
  | err
deriving Repr, DecidableEq

/-- deliveries made (in order) and how the loop over `envelope.Messages` ended. -/
def decodeMsgs (c : Codec P) (env : Envelope) : List Message → List (Delivery P) × Outcome
  | [] => ([], .ok)
  | m :: ms =>
    match decodeMsg c env m with
    | none => ([], .err)
    | some d => let (ds, o) := decodeMsgs c env ms; (d :: ds, o)

def decode (c : Codec P) (env : Envelope) : List (Delivery P) × Outcome :=
  decodeMsgs c env env.messages

/-- a message the writer can put on the wire. -/
def sendable (c : Codec P) (d : Deliver P) : Bool :=
  c.isProto d.msg && (c.serialize d.msg).isSome

def Deliver.toDelivery (d : Deliver P) : Delivery P :=
  { target := d.target, payload := d.msg, sender := d.sender }

/-- concrete codec (used by the driver and for non-vacuity): payloads are indices into the harness'
    payload pool; `bad` lists the unserialisable ones, `nonProto` those that are not proto messages,
    `tname` gives the registered type name. The round-trip law is proved, not assumed. -/
def poolCodec (tname : Nat → String) (bad nonProto : List Nat) : Codec Nat where
  isProto p := !nonProto.contains p
  typeName p := tname p
  serialize p := if bad.contains p then none else some [p]
  deserialize b t := match b with
    | [p] => if tname p = t then some p else none
    | _ => none
  roundtrip := by
    intro p b _ h
    split at h
    · simp at h
    · simp at h; subst h; simp

def demoCodec : Codec Nat := poolCodec (fun p => if p % 2 = 0 then "even" else "odd") [4] [5]

end HW.Wire
