/-
What C04, C05, C06, C07 and C13 demand of a process trace, as executable acceptors over `List Ev`.
They are evaluated (a) on the IMPLEMENTATION's trace by the driver (property monitor) and (b) are the
statements of the theorems about the model's trace (HW/Props/C04 … C07, C13).
-/
import HW.Model.Proc
namespace HW.Proc

/-! ### C04: life-cycle shape of every incarnation -/

inductive Phase where
  | none | produced | inited | started | stopped
deriving DecidableEq, Repr

structure LcSt where
  cur : Nat := 0
  phase : Phase := .none
  ok : Bool := true
deriving Repr

/-- one step of the life-cycle automaton: `Initialized (Started user*)? Stopped?` per incarnation,
    a new incarnation only after the previous one has had its Stopped, nothing after Stopped. -/
def lcStep (st : LcSt) : Ev → LcSt
  | .producer n =>
    if n = st.cur + 1 ∧ (st.phase = .none ∨ st.phase = .stopped) then { st with cur := n, phase := .produced }
    else { st with ok := false }
  | .recv inc m _ _ =>
    if inc ≠ st.cur then { st with ok := false } else
    match m, st.phase with
    | .initialized, .produced => { st with phase := .inited }
    | .started, .inited => { st with phase := .started }
    | .user _ _, .started => st
    | .stopped, .inited => { st with phase := .stopped }
    | .stopped, .started => { st with phase := .stopped }
    | _, _ => { st with ok := false }
  | _ => st

def lcRun (tr : List Ev) : LcSt := tr.foldl lcStep {}

/-- C04 acceptor. -/
def lifecycleOK (tr : List Ev) : Bool := (lcRun tr).ok

/-! ### C05: replay — user deliveries across all incarnations -/

def userRecvs : List Ev → List (Nat × Option Nat)
  | [] => []
  | .recv _ (.user k s) _ _ :: tr => (k, s) :: userRecvs tr
  | _ :: tr => userRecvs tr

def usersOf : List Msg → List (Nat × Option Nat)
  | [] => []
  | .user k s :: ms => (k, s) :: usersOf ms
  | _ :: ms => usersOf ms

def allUsers (batches : List (List Msg)) : List (Nat × Option Nat) := usersOf batches.flatten

/-- every user message is delivered at most once, in order, with its own sender, the failing ones
    never again: the deliveries are a prefix of the history … -/
def replayPrefixOK (batches : List (List Msg)) (tr : List Ev) : Bool :=
  (userRecvs tr).isPrefixOf (allUsers batches)

/-- … and all of it when the actor is still alive at the end. -/
def replayCompleteOK (batches : List (List Msg)) (tr : List Ev) (aliveAtEnd : Bool) : Bool :=
  !aliveAtEnd || userRecvs tr == allUsers batches

/-! ### C05/C06: restart events are numbered 1, 2, 3 … and bounded by the budget -/

def restartNumbers : List Ev → List Nat
  | [] => []
  | .ev (.restarted n) :: tr => n :: restartNumbers tr
  | _ :: tr => restartNumbers tr

def restartsOK (maxRestarts : Nat) (tr : List Ev) : Bool :=
  let ns := restartNumbers tr
  ns == (List.range ns.length).map (· + 1) && ns.length ≤ maxRestarts

/-! ### C06: exceeding the budget stops the actor cleanly -/

/-- after `ActorMaxRestartsExceededEvent`: inbox stopped, unregistered, Stopped handled (seen as
    unregistered), ActorStoppedEvent; no restart, no new incarnation, no further delivery. -/
def afterMaxOK : List Ev → Bool
  | [] => true
  | .ev .maxRestarts :: rest =>
    (match rest with
     | [.inboxStop, .unregister, .recv _ .stopped _ false, .ev .stopped] => true
     | _ => false)
  | _ :: rest => afterMaxOK rest

/-! ### C07: stop / poison -/

def pillsOf : List Msg → List (Nat × Bool)
  | [] => []
  | .pill id g :: ms => (id, g) :: pillsOf ms
  | _ :: ms => pillsOf ms

/-- user messages that precede pill `id` in the history. -/
def usersBeforePill (id : Nat) : List Msg → List (Nat × Option Nat)
  | [] => []
  | .pill i _ :: ms => if i = id then [] else usersBeforePill id ms
  | .user k s :: ms => (k, s) :: usersBeforePill id ms

/-- scan state for `cancelOK`. -/
structure CSt where
  registered : Bool := true
  cur : Nat := 0
  stoppedInc : Nat := 0          -- last incarnation that handled Stopped
  users : List (Nat × Option Nat) := []
  ok : Bool := true

def cancelStep (hist : List Msg) (st : CSt) : Ev → CSt
  | .producer n => { st with cur := n }
  | .unregister => { st with registered := false }
  | .recv inc .stopped _ _ => { st with stoppedInc := inc }
  | .recv _ (.user k s) _ _ => { st with users := st.users ++ [(k, s)] }
  | .cancel id =>
    let graceful := (pillsOf hist).any (fun p => p.1 = id && p.2)
    let drained := !graceful || (usersBeforePill id hist).all (fun u => st.users.contains u)
    { st with ok := st.ok && !st.registered && st.stoppedInc = st.cur && st.cur ≠ 0 && drained }
  | _ => st

/-- every cancel comes after the target's final Stopped and its unregistration and, for a graceful
    pill, after every message that precedes the pill in the history has been handled. -/
def cancelOK (batches : List (List Msg)) (tr : List Ev) : Bool :=
  (tr.foldl (cancelStep batches.flatten) {}).ok

def cancelsOf : List Ev → List Nat
  | [] => []
  | .cancel id :: tr => id :: cancelsOf tr
  | _ :: tr => cancelsOf tr

/-- every pill of the history is eventually cancelled, once. -/
def allPillsCancelled (batches : List (List Msg)) (tr : List Ev) : Bool :=
  (pillsOf batches.flatten).all fun p => (cancelsOf tr).count p.1 = 1

/-! ### C02 (obligation on process.go): the inbox is never re-opened after it was stopped -/

/-- the inbox of a process is opened at most once in its life (restarts find it running and their
    `inbox.Start` is a no-op): so there is never a successful `inbox.Start` after an `inbox.Stop` of an
    open inbox — the hypothesis `restartedAfterStop = false` of the inbox protocol theorems
    (C02.mutex, C01.conservation). -/
def noReopen (tr : List Ev) : Bool := tr.count (.inboxStart true) ≤ 1

/-! ### C13: every delivery goes through the whole middleware chain -/

def allWrapped (mwLen : Nat) : List Ev → Bool
  | [] => true
  | .recv _ _ mw _ :: tr => mw = mwLen && allWrapped mwLen tr
  | _ :: tr => allWrapped mwLen tr

/-- C13, "the receiver last": the receiver at the inner end of the chain is the CURRENT incarnation
    (the one returned by the latest Producer call), not one captured by an earlier composition. -/
def chainTargetOK (cur : Nat) : List Ev → Bool
  | [] => true
  | .producer n :: tr => chainTargetOK n tr
  | .recv inc _ _ _ :: tr => inc == cur && chainTargetOK cur tr
  | _ :: tr => chainTargetOK cur tr

end HW.Proc
