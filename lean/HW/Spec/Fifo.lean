/-
Abstract specification C14 demands: an unbounded FIFO queue (a list, oldest first).
`Pop`/`PopN` report `none` (Go: `false`) exactly when the queue is empty, `PopN n` returns the
first `min n len` elements, `Len` is the number of queued elements.
-/
import HW.Model.Ring
namespace HW
namespace Fifo
variable {α : Type}

def step (q : List α) : RingOp α → List α × RingOut α
  | .push x => (q ++ [x], .unit)
  | .pop    => match q with
               | [] => (q, .item none)
               | x :: q' => (q', .item (some x))
  | .popN n => if q.isEmpty then (q, .items none) else (q.drop n, .items (some (q.take n)))
  | .len    => (q, .len q.length)

def run (q : List α) : List (RingOp α) → List (RingOut α)
  | [] => []
  | op :: ops => let (q', o) := step q op; o :: run q' ops

end Fifo
end HW
