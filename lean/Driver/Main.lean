import Driver.Util
import Driver.RingStream
import Driver.WireStream
import Driver.SchedStream
import Driver.ProcStream
import Driver.RegStream
import Driver.EngineStream
import Driver.ClusterStream
import Driver.RespStream
import Driver.ClusterSysStream
import Driver.TreeStream
import Driver.RemoteStream
import Driver.LifeStream
/-
hwdriver: reads
    stream <name>
    case <id>
    in <...>
    impl <...>
    ...
and prints for each case   `case <id> corr=<ok|DIFF> spec=<ok|FAIL:...>`  (+ `model <...>` on DIFF),
then `cov <tag> <count>` lines and a `summary` line.  The `impl` line is what the real Go code
produced; `model` is what the Lean model computes for the same input; `spec` is the verdict of the
property's abstract specification evaluated on the IMPLEMENTATION's output.
-/
namespace Driver

def dispatch (stream : String) : Option (String → String → CaseOut) :=
  match stream with
  | "ring" => some ringCase
  | "ringsched" => some ringSchedCase
  | "ringfine" => some ringFineCase
  | "wire" => some wireCase
  | "hostile" => some hostileCase
  | "sched" => some schedCase
  | "proc" => some procCase
  | "mwopts" => some mwOptsCase
  | "reg" => some regSeqCase
  | "engine" => some engineCase
  | "members" => some membersCase
  | "resp" => some respCase
  | "clustersys" => some clusterSysCase
  | "tree" => some treeCase
  | "remote" => some remoteCase
  | "life" => some lifeCase
  | "ctxapi" => some ctxApiCase
  | "remotelost" => some remoteLostCase
  | "childsched" => some childSchedCase
  | "provider" => some providerCase
  | "regsched" => some regSchedCase
  | _ => none

def bump (cov : List (String × Nat)) (t : String) : List (String × Nat) :=
  match cov with
  | [] => [(t, 1)]
  | (k, n) :: rest => if k = t then (k, n + 1) :: rest else (k, n) :: bump rest t

partial def loop (h : IO.FS.Stream) (f : String → String → CaseOut)
    (cases diffs fails : Nat) (cov : List (String × Nat)) : IO (Nat × Nat × Nat × List (String × Nat)) := do
  let l1 ← h.getLine
  if l1.isEmpty then return (cases, diffs, fails, cov)
  let l1 := l1.trimAscii.toString
  if !l1.startsWith "case " then
    loop h f cases diffs fails cov
  else
    let id := rest l1 5
    let l2 := (← h.getLine).trimAscii.toString
    let l3 := (← h.getLine).trimAscii.toString
    let inp := if l2.startsWith "in" then (rest l2 2).trimAscii.toString else ""
    let impl := if l3.startsWith "impl" then (rest l3 4).trimAscii.toString else ""
    let out := f inp impl
    let corr := out.model = (if out.implView = "" then impl else out.implView)
    IO.println s!"case {id} corr={if corr then "ok" else "DIFF"} nt={if out.nontrivial then 1 else 0} h={inp.hash} spec={out.spec}"
    if !corr then IO.println s!"model {out.model}"
    let cov' := out.tags.foldl bump cov
    loop h f (cases + 1) (if corr then diffs else diffs + 1)
      (if out.spec = "ok" then fails else fails + 1) cov'

def main (_ : List String) : IO UInt32 := do
  let stdin ← IO.getStdin
  let l0 := (← stdin.getLine).trimAscii.toString
  let name := if l0.startsWith "stream " then rest l0 7 else ""
  match dispatch name with
  | none => IO.eprintln s!"unknown stream '{name}'"; return 2
  | some f =>
    let (cases, diffs, fails, cov) ← loop stdin f 0 0 0 []
    for (k, n) in cov do IO.println s!"cov {k} {n}"
    IO.println s!"summary cases={cases} corr_diff={diffs} spec_fail={fails}"
    return 0

end Driver

def main (args : List String) : IO UInt32 := Driver.main args
