import HW.Model.Inbox
import Driver.Util
/-
stream sched (C01, C02, C03)
  in   size=<n> B=<batch> senders=<m.m|m.m|...> stops=<k> sched=<tid>,<tid>,...
  impl t<tid>:<op>[=<res>]:<status>:<len>:<inside>;...;end:<status>:<len>:<delivered m.m.m>
The model replays the same schedule with `HW.Inbox.step`; the spec column evaluates C01/C02/C03 on the
IMPLEMENTATION's own log: never two goroutines inside Receive (unless the inbox was re-opened after a
Stop), and, if no Stop happened, the run ends idle with an empty queue and exactly the pushed
messages delivered in push order.
-/
namespace Driver
open HW.Inbox

def statusNum : Status → Nat
  | .stopped => 0 | .starting => 1 | .idle => 2 | .running => 3

def showLabel : Label → String
  | .lock => "lock"
  | .cas o n ok => s!"cas({statusNum o},{statusNum n})={ok}"
  | .load v => s!"load={statusNum v}"
  | .len n => s!"len={n}"
  | .swap old => s!"swap(2)={statusNum old}"
  | .store => "store(0)"
  | .invoke n => s!"invoke={n}"
  | .life => "life"

def dotNats (s : String) : List Nat :=
  if s = "" then [] else (s.splitOn ".").filterMap String.toNat?

partial def schedLoop (B : Nat) (s : St) (sched : List Nat) (acc : List String) : St × List String :=
  match sched with
  | [] => (s, acc.reverse)
  | t :: ts =>
    match step B s t with
    | none => schedLoop B s ts (s!"t{t}:none" :: acc)
    | some (s', l) =>
      schedLoop B s' ts (s!"t{t}:{showLabel l}:{statusNum s'.status}:{s'.q.length}:{nInside s'}" :: acc)

def pcTag : Pc → String
  | .sPush _ => "sPush" | .sSched _ => "sSched" | .wLoad => "wLoad" | .wPop => "wPop"
  | .wInvoke _ => "wInvoke" | .wCasIdle => "wCasIdle" | .wLen => "wLen" | .wSched => "wSched"
  | .stLife => "stLife" | .stCas => "stCas" | .stSwap => "stSwap" | .stSched => "stSched"
  | .stop => "stop" | .done => "done"

def schedCase (inp impl : String) : CaseOut :=
  let ws := words inp
  match kvNat ws "size", kvNat ws "B", kvNat ws "stops" with
  | some _, some B, some stops =>
    let senders : List (List Nat) := match kv ws "senders" with
      | some s => if s = "" then [] else (s.splitOn "|").map dotNats
      | none => []
    let sched : List Nat := match kv ws "sched" with
      | some s => (commaList s).filterMap String.toNat?
      | none => []
    if B = 0 then bad "B0" else
    let s0 := init senders stops
    let (sEnd, steps) := schedLoop B s0 sched []
    let fin := s!"end:{statusNum sEnd.status}:{sEnd.q.length}:{String.intercalate "." (sEnd.delivered.map toString)}"
    let model := String.intercalate ";" (steps ++ [fin])
    -- ---- spec on the implementation's log ----
    let isteps := impl.splitOn ";"
    let fields := isteps.map (·.splitOn ":")
    let nSenders := senders.length
    -- pushed order according to the impl log: each "lock" step of a sender thread pushes its next message
    let rec pushedOf (fs : List (List String)) (rem : List (List Nat)) (acc : List Nat) : List Nat :=
      match fs with
      | [] => acc.reverse
      | f :: fs' =>
        match f with
        | tid :: op :: _ =>
          let t := ((rest tid 1).toNat?).getD 0
          if op = "lock" && 1 ≤ t && t ≤ nSenders then
            match rem[t-1]? with
            | some (m :: ms) => pushedOf fs' (rem.set (t-1) ms) (m :: acc)
            | _ => pushedOf fs' rem acc
          else pushedOf fs' rem acc
        | _ => pushedOf fs' rem acc
    let pushed := pushedOf fields senders []
    let stopped := fields.any fun f => match f with | _ :: op :: _ => op.startsWith "store(0)" | _ => false
    -- a re-open after a stop: successful cas(0,1) after a store(0)
    let rec reopened (fs : List (List String)) (seenStop : Bool) : Bool :=
      match fs with
      | [] => false
      | f :: fs' => match f with
        | _ :: op :: _ =>
          if op.startsWith "store(0)" then reopened fs' true
          else if seenStop && op = "cas(0,1)=true" then true
          else reopened fs' seenStop
        | _ => reopened fs' seenStop
    let overlap := fields.any fun f => match f with
      | [_, _, _, _, ins] => (ins.toNat?.getD 0) > 1
      | _ => false
    let endF := match fields.getLast? with
      | some ("end" :: st :: ln :: dl :: _) => some (st, ln, dotNats dl)
      | some ["end", st, ln] => some (st, ln, [])
      | _ => none
    let allSent := pushed.length = (senders.map List.length).sum
    let spec :=
      if overlap && !reopened fields false then "FAIL:C02 two goroutines inside Receive"
      else match endF with
        | none => "FAIL:harness no end record"
        | some (st, ln, dl) =>
          if stopped then
            -- after a Stop nothing is promised about the backlog, but nothing may be duplicated or reordered
            if dl.length ≤ pushed.length && dl = pushed.take dl.length then "ok"
            else s!"FAIL:C01 delivered {dl} is not a prefix of pushed {pushed}"
          else if !allSent then "FAIL:harness senders did not finish"
          else if st ≠ "2" || ln ≠ "0" then s!"FAIL:C03 quiescent with status={st} len={ln} (lost wake-up)"
          else if dl ≠ pushed then s!"FAIL:C01 delivered {dl} pushed {pushed}"
          else "ok"
    -- coverage: pcs visited in the model, and interesting protocol events
    let tags0 := steps.filterMap fun st =>
      match st.splitOn ":" with
      | _ :: op :: _ =>
        if op = "cas(3,2)=true" then some "w.cas-idle-ok"
        else if op = "cas(3,2)=false" then some "w.cas-idle-fail"
        else if op = "cas(2,3)=false" then some "sched.cas-fail"
        else if op.startsWith "len=" && op ≠ "len=0" then some "w.recheck-nonempty"
        else if op = "len=0" then some "w.recheck-empty"
        else if op = "load=0" then some "w.load-stopped"
        else if op = "cas(0,1)=false" then some "start.cas-fail"
        else none
      | _ => none
    let tags := tags0.eraseDups ++ [if stops > 0 then "with-stop" else "no-stop", s!"B{min B 5}", s!"senders{nSenders}"]
    { model := model, spec := spec, tags := tags, nontrivial := sched.length ≥ 8 }
  | _, _, _ => bad "fields"

end Driver
