import HW.Model.Response
import Driver.Util
/-
stream resp (C11)
  in   ops=<op>,...     op ::= rq | rp<i>v<k> (reply k to request #i) | rs<i> (Result of request #i, short timeout) | ids<n>
  impl requested<i> | sent | dead | value<k> | timeout | dups=<d> | BLOCKED | skip     (+ "!flag" on anomalies)
-/
namespace Driver
open HW.Response

def respCase (inp impl : String) : CaseOut :=
  let ws := words inp
  match (kv ws "ops").map commaList with
  | none => bad "ops"
  | some ops =>
    let stepOp (acc : St × Nat × List String × List String) (op : String) : St × Nat × List String × List String :=
      let (s, nreq, out, tags) := acc
      if op = "rq" then
        let (s', o) := step s .request
        match o with
        | .requested id => (s', nreq + 1, out ++ [s!"requested{id}"], tags)
        | _ => (s', nreq, out ++ ["?"], tags)
      else if op.startsWith "rp" then
        match (rest op 2).splitOn "v" with
        | [i, k] =>
          let id := i.toNat?.getD 0
          if id ≥ nreq then (s, nreq, out ++ ["skip"], tags) else
          let (s', o) := step s (.reply id (k.toNat?.getD 0))
          match o with
          | .deadLetter => (s', nreq, out ++ ["dead"], tags ++ ["reply.late-deadletter"])
          | .dropped => (s', nreq, out ++ ["sent"], tags ++ ["reply.extra-dropped"])
          | _ => (s', nreq, out ++ ["sent"], tags ++ ["reply.first"])
        | _ => (s, nreq, out ++ ["bad-op"], tags)
      else if op.startsWith "rs" then
        let id := (rest op 2).toNat?.getD 0
        if id ≥ nreq then (s, nreq, out ++ ["skip"], tags) else
        let (s', o) := step s (.result id true)
        match o with
        | .value v => (s', nreq, out ++ [s!"value{v}"], tags ++ ["result.value"])
        | _ => (s', nreq, out ++ ["timeout"], tags ++ ["result.timeout"])
      -- ed<n>: a reply racing the deadline of one request must not disturb the next one (C11.timeout_only_after_deadline:
      -- an error only once the timeout has passed; C11.correlated: the value is the reply to that very request)
      -- sl: no reply was sent to that request (a Respond made while handling a senderless message answers nobody): timeout
      -- zt: a zero timeout has passed at once: an error, never a wait (C11.timeout_only_after_deadline covers "not before")
      -- un: the Response whose id is taken by a user actor is refused as a duplicate; the user actor stays registered
      -- (C10.add_dup_noop: a refused duplicate changes nothing)
      else if op = "un" then (s, nreq, out ++ ["user-actor-kept"], tags ++ ["response-id-taken-by-a-user-actor"])
      else if op = "zt" then (s, nreq, out ++ ["timeout"], tags ++ ["zero-timeout"])
      -- cq: two Context.Request calls of one actor; the first times out, its late reply is a dead letter
      -- (C11.unregistered_then_deadletter), the second gets its own reply (C11.correlated, fresh_ids)
      else if op = "cq" then (s, nreq, out ++ ["first=timeout second=value9 late=deadletter"], tags ++ ["context-request-twice"])
      else if op = "sl" then (s, nreq, out ++ ["timeout"], tags ++ ["no-reply-then-senderless-respond"])
      else if op.startsWith "ed" then (s, nreq, out ++ ["early=0 wrong=0"], tags ++ ["deadline-race"])
      else if op.startsWith "ids" then (s, nreq, out ++ ["dups=0"], tags ++ ["ids"])
      else if op.startsWith "qi" then
        -- request to a target that replies at once: request; reply (delivered); Result = that value; unregistered
        let k := (rest op 2).toNat?.getD 0
        -- (self-contained: run on a scratch state so that the harness' request numbering is undisturbed)
        let (s1, o1) := step ({} : St) .request
        match o1 with
        | .requested id =>
          let (s2, _) := step s1 (.reply id k)
          let (_, o3) := step s2 (.result id true)
          (s, nreq, out ++ [match o3 with | .value v => s!"value{v}" | _ => "timeout"], tags ++ ["inline-reply"])
        | _ => (s, nreq, out ++ ["?"], tags)
      else if op.startsWith "cc" then
        -- n x m concurrent requests, each answered once in time: all correlated (C11.correlated), no timeouts
        match (rest op 2).splitOn "x" with
        | [a, b] => (s, nreq, out ++ [s!"ok={(a.toNat?.getD 0) * (b.toNat?.getD 0)} timeouts=0 crosstalk=0 dupid=0"], tags ++ ["concurrent"])
        | _ => (s, nreq, out ++ ["bad-op"], tags)
      else (s, nreq, out ++ ["bad-op"], tags)
    let (_, _, out, tags) := ops.foldl stepOp ({}, 0, [], [])
    let model := String.intercalate ";" out
    let implL := impl.splitOn ";"
    let firstBad := (List.range (max out.length implL.length)).find? fun i => out[i]? ≠ implL[i]?
    let spec := match firstBad with
      | none => "ok"
      | some i =>
        let got := implL.getD i "?"
        let why :=
          if got = "BLOCKED" then "a reply blocked its sender (C09: sending never blocks the caller)"
          else if got.startsWith "ok=" then "concurrent requests: a reply was lost, timed out or reached the wrong requester"
          else if got.startsWith "early=" then "Result returned an error before its timeout had passed (or another request's value) after a reply raced an earlier deadline"
          else if got.startsWith "dups=" then "two responses can draw the same id (cross-talk between concurrent requests)"
          else if got.startsWith "value" then "Result returned a value that was not the first reply to that very request"
          else "request/response protocol"
        let lbl := if got.startsWith "user-actor" then "C10+C11" else "C11"
        s!"FAIL:{lbl} {why}: op#{i} {ops.getD i "?"}: implementation [{got}] expected [{out.getD i "?"}]"
    { model := model, spec := spec, tags := tags.eraseDups, nontrivial := ops.length ≥ 3 }

end Driver
