import HW.Model.Cluster
import Driver.Util
/-
stream members (C18)
  in   self=<k+k> snaps=<m.m.m>/<m.m>/...      m ::= <id>:<k+k>   (the observing node is A)
  impl view=<id+id> kinds=<k+k> ev=<join:id|leave:id,...> ; ...   (everything sorted)
stream provider (C20)
  in   ops=<op>,...      op ::= hs<id> | ms<id+id+..> | lv<id>
  impl per op: agent:<ids>,reply:<to>:<ids>,members:<ids>,inc:<n>
-/
namespace Driver
open HW.Cluster

def sortStrs (xs : List String) : List String := (xs.toArray.qsort (· < ·)).toList

def plusList (s : String) : List String := if s = "" then [] else s.splitOn "+"

/-- F shares B's address, G shares C's (a node restarted on its old address under a new id). -/
def hostOfId (id : String) : String :=
  if id = "F" then "hB:1" else if id = "G" then "hC:1" else "h" ++ id ++ ":1"

/-- `<id>@<n>`: the same member id seen at another address. -/
def idAndHost (idTok : String) : String × String :=
  match idTok.splitOn "@" with
  | [id, n] => (id, "h" ++ id ++ ":" ++ n)
  | _ => (idTok, hostOfId idTok)

def parseMemberTok (tok : String) : Member :=
  match tok.splitOn ":" with
  | [idTok, ks] => { id := (idAndHost idTok).1, host := (idAndHost idTok).2, kinds := plusList ks }
  | [idTok] => { id := (idAndHost idTok).1, host := (idAndHost idTok).2, kinds := [] }
  | _ => { id := tok, host := "?", kinds := [] }

def membersCase (inp impl : String) : CaseOut :=
  let ws := words inp
  let selfKinds := plusList ((kv ws "self").getD "")
  match kv ws "snaps" with
  | none => bad "snaps"
  | some ss =>
    let snaps : List (List Member) := (ss.splitOn "/").map fun s => if s = "" then [] else (s.splitOn ".").map parseMemberTok
    let kuniv := ["k1", "k2", "k3"]
    -- `!act<kind>` in place of a snapshot: an activation attempt (the remote members cannot be reached): the view stays
    let isAct (snap : List Member) : Bool := match snap with | [m] => m.id.startsWith "!act" | _ => false
    let stepSnap (acc : AgentSt × List String × List String) (snap : List Member) : AgentSt × List String × List String :=
      let (st, out, tags) := acc
      if isAct snap then
        (st, out ++ ["view=" ++ String.intercalate "+" (sortStrs (ids st.members)) ++
          " kinds=" ++ String.intercalate "+" (kuniv.filter (· ∈ st.kinds)) ++ " ev="], tags ++ ["activation-attempt"]) else
      let (st', o) := handleMembers st snap
      let evs := sortStrs ((joinIds o).map ("join:" ++ ·) ++ (leaveIds o).map ("leave:" ++ ·))
      let line := "view=" ++ String.intercalate "+" (sortStrs (ids st'.members)) ++
        " kinds=" ++ String.intercalate "+" (kuniv.filter (· ∈ st'.kinds)) ++
        " ev=" ++ String.intercalate "," evs
      let dup := (ids snap).length ≠ (ids snap).eraseDups.length
      (st', out ++ [line], tags ++ [if (joinIds o).isEmpty then "no-join" else "join", if (leaveIds o).isEmpty then "no-leave" else "leave",
        if dup then "dup-entries" else "no-dup-entries"])
    let (_, out, tags) := snaps.foldl stepSnap ({ kinds := selfKinds }, [], [])
    let model := String.intercalate ";" out
    -- spec, computed from the input alone: view = ids of the snapshot; join = new \ old, leave = old \ new,
    -- each once; kinds = kinds advertised by the stored members (first advertisement of a member that stays)
    let specStep (acc : List Member × List String) (snap : List Member) : List Member × List String :=
      let (old, out) := acc
      if isAct snap then
        (old, out ++ ["view=" ++ String.intercalate "+" (sortStrs (ids old)) ++ " kinds=" ++
          String.intercalate "+" (kuniv.filter fun k => old.any fun m => k ∈ m.kinds) ++ " ev="]) else
      let snapIds := (ids snap).eraseDups
      let joined := snapIds.filter (fun i => !(ids old).contains i)
      let left := (ids old).filter (fun i => !snapIds.contains i)
      -- stored object: the old one if it stays, else the LAST entry of the snapshot with that id
      let stored := (old.filter fun m => snapIds.contains m.id) ++
        joined.filterMap fun i => (snap.filter (·.id = i)).getLast?
      let ks := kuniv.filter fun k => stored.any fun m => k ∈ m.kinds
      let evs := sortStrs (joined.map ("join:" ++ ·) ++ left.map ("leave:" ++ ·))
      (stored, out ++ ["view=" ++ String.intercalate "+" (sortStrs snapIds) ++ " kinds=" ++ String.intercalate "+" ks ++
        " ev=" ++ String.intercalate "," evs])
    let (_, want) := snaps.foldl specStep ([], [])
    let implL := impl.splitOn ";"
    let firstBad := (List.range (max want.length implL.length)).find? fun i => want[i]? ≠ implL[i]?
    let spec := match firstBad with
      | none => "ok"
      | some i => s!"FAIL:C18 after snapshot #{i}: implementation [{implL.getD i "?"}] but the snapshots demand [{want.getD i "?"}]"
    { model := model, spec := spec, tags := tags.eraseDups, nontrivial := snaps.length ≥ 2 }

def providerCase (inp impl : String) : CaseOut :=
  let ws := words inp
  match (kv ws "ops").map commaList with
  | none => bad "ops"
  | some ops =>
    let mk (id : String) : Member := { id := id, host := "h" ++ id ++ ":1", kinds := ["k1"] }
    let showOut (o : ProvOut) (replyTo : String) : String :=
      match o with
      | .agent idsL => "agent:" ++ String.intercalate "+" (sortStrs idsL)
      | .reply idsL => "reply:provider/" ++ replyTo ++ ":" ++ String.intercalate "+" (sortStrs idsL)
    let stepOp (acc : ProvSt × List String × List String) (op : String) : ProvSt × List String × List String :=
      let (st, out, tags) := acc
      let kind := (op.take 2).toString
      let arg := rest op 2
      let (st', o, tag) :=
        if kind = "hs" then let r := provHandshake st (mk arg); (r.1, r.2, if hasId st.members arg then "handshake.known" else "handshake.new")
        else if kind = "ms" then let r := provMembers st ((plusList arg).map mk); (r.1, r.2, "members")
        -- ur: the same report arriving the way the remote publishes it (event stream -> the provider's event child)
        -- hu: a handshake and then the unreachable report for the same peer, the handshake still queued when the report is
        -- published: handled in that order (join, then leave)
        else if kind = "hu" then
          let r1 := provHandshake st (mk arg)
          let r2 := provLeave r1.1 ("h" ++ arg ++ ":1")
          -- (the harness lists what the agent was told before what was sent to peers)
          let outs := r1.2 ++ r2.2
          let isAgent (o : ProvOut) : Bool := match o with | .agent _ => true | _ => false
          (r2.1, outs.filter isAgent ++ outs.filter (fun o => !isAgent o), "handshake-then-unreachable-while-busy")
        else if kind = "ur" then let r := provLeave st ("h" ++ arg ++ ":1"); (r.1, r.2, if r.2.isEmpty then "unreachable-event.nonmember" else "unreachable-event.member")
        else if kind = "lv" then let r := provLeave st ("h" ++ arg ++ ":1"); (r.1, r.2, if r.2.isEmpty then "leave.nonmember" else "leave.member")
        else (st, [], "bad")
      let obs := o.map (showOut · arg) ++ ["members:" ++ String.intercalate "+" (sortStrs (ids st'.members)), "inc:1"]
      (st', out ++ [String.intercalate "," obs], tags ++ [tag])
    let (_, out, tags) := ops.foldl stepOp ({ members := [mk "A"] }, [], [])
    let model := String.intercalate ";" out
    let implL := impl.splitOn ";"
    let firstBad := (List.range (max out.length implL.length)).find? fun i => out[i]? ≠ implL[i]?
    let spec := match firstBad with
      | none => "ok"
      | some i =>
        let got := implL.getD i "?"
        if (got.splitOn "inc:1").length < 2 then s!"FAIL:C20 the provider crashed and restarted (member list lost) at op#{i} {ops.getD i "?"}: [{got}]"
        else s!"FAIL:C20 op#{i} {ops.getD i "?"}: implementation [{got}] expected [{out.getD i "?"}]"
    { model := model, spec := spec, tags := tags.eraseDups, nontrivial := ops.length ≥ 2 }

end Driver
