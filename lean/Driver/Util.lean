/- Small helpers for the line protocol. Core Lean only (the driver must link as a lean_exe). -/
namespace Driver

def words (s : String) : List String :=
  (s.trimAscii.toString.splitOn " ").filter (· ≠ "")

def rest (s : String) (n : Nat) : String := (s.drop n).toString

def commaList (s : String) : List String :=
  if s = "" then [] else s.splitOn ","

def natList? (s : String) : Option (List Nat) :=
  (commaList s).mapM String.toNat?

def joinNat (xs : List Nat) : String := String.intercalate "," (xs.map toString)

/-- result of one case handled by a stream: model output line, spec verdict ("ok" or "FAIL:..."),
    coverage tags hit in the model. -/
structure CaseOut where
  model : String
  spec  : String
  tags  : List String := []
  /-- non-trivial by the stream's stated rule (reported in the evidence file). -/
  nontrivial : Bool := true
  /-- canonical view of the implementation's line to compare the model with (when the raw line holds
      legitimately nondeterministic detail such as Go map iteration order); "" = compare the raw line. -/
  implView : String := ""

def bad (why : String) : CaseOut := { model := "bad-input:" ++ why, spec := "ok" }

/-- key=value lookup in a token list. -/
def kv (ws : List String) (key : String) : Option String :=
  ws.findSome? fun w => if w.startsWith (key ++ "=") then some (rest w (key.length + 1)) else none

def kvNat (ws : List String) (key : String) : Option Nat := (kv ws key).bind String.toNat?

end Driver
