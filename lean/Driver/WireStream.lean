import HW.Model.Wire
import Driver.Util
/-
stream wire (C15)
  in   batch=<item>,...            item ::= s<k|->t<k>p<k>   (indices into the pools below)
  impl T=<names|..>;G=<pid.pid>;S=<pid.pid>;M=<ti.si.gi>/...;out=<ok|err|panic-*>;dl=t<k>p<k>s<k|->,...
stream hostile (C16)
  in   tn=<tok.tok> G=<pid.pid> S=<pid.pid> msgs=<ti>:<si>:<gi>:<dz>,...   (tokens opaque; dz = oracle
       result of the real payload deserialiser for that message: 1 accepted, 0 rejected, - type index invalid)
  impl out=<ok|err|panic-reader>;content=<ok|BAD(n)>;dl=<targetTok>:<typeTok>:<senderTok|nil>,...
-/
namespace Driver
open HW.Wire

def pidPool : List Pid :=
  [⟨"n1:4000", "a"⟩, ⟨"n1:4000", "b"⟩, ⟨"n2:4000", "a"⟩, ⟨"ab", "c"⟩, ⟨"a", "bc"⟩, ⟨"", "abc"⟩, ⟨"abc", ""⟩, ⟨"n1:4000", "a/b"⟩,
   ⟨"n/a", "w/1"⟩, ⟨"n", "a/w/1"⟩,
   ⟨"n1:4000", "<an id that is not valid UTF-8>"⟩]

def payloadType (p : Nat) : String :=
  match p with
  | 0 => "actor.PID" | 1 => "actor.Ping" | 2 => "remote.TestMessage" | 3 => "remote.TestMessage"
  | 4 => "actor.PID" | 6 => "actor.Pong" | 7 => "remote.TestMessage" | 9 => "actor.Ping"
  | 10 => "verifdyn.Alarm" | 11 => "verifdyn.Order"   -- described at run time: two proto types, one Go type
  | _ => "?"

def wireCodec : Codec Nat := poolCodec payloadType [4, 9] [5, 8]

def pidIndex (p : Pid) : String :=
  match pidPool.findIdx? (· == p) with
  | some i => toString i
  | none => "?"

def parseItem (w : String) : Option (Deliver Nat) := do
  -- s<k|->t<k>p<k>
  guard (w.startsWith "s")
  let r := rest w 1
  let parts := r.splitOn "t"
  guard (parts.length = 2)
  let sS := parts[0]!
  let tp := parts[1]!.splitOn "p"
  guard (tp.length = 2)
  let t ← tp[0]!.toNat?
  let p ← tp[1]!.toNat?
  let target ← pidPool[t]?
  let sender ← if sS = "-" then some none else (sS.toNat?.bind (pidPool[·]?)).map some
  pure { sender := sender, target := target, msg := p }

def showDelivery (d : Delivery Nat) : String :=
  "t" ++ pidIndex d.target ++ "p" ++ toString d.payload ++ "s" ++
    (match d.sender with | none => "-" | some s => pidIndex s)

def showOutcome : Outcome → String
  | .ok => "ok"
  | .err => "err"

def wireCase (inp impl : String) : CaseOut :=
  let ws := words inp
  match (kv ws "batch").map commaList with
  | none => bad "batch"
  | some items =>
    match items.mapM parseItem with
    | none => bad "item"
    | some batch =>
      let env := encode wireCodec batch
      let (ds, o) := decode wireCodec env
      let envS := if (transmit wireCodec batch).isNone then "sent=0" else
        "T=" ++ String.intercalate "|" env.typeNames ++
        ";G=" ++ String.intercalate "." (env.targets.map pidIndex) ++
        ";S=" ++ String.intercalate "." (env.senders.map pidIndex) ++
        ";M=" ++ String.intercalate "/" (env.messages.map fun m => s!"{m.typeIdx}.{m.senderIdx}.{m.targetIdx}")
      let model := envS ++ ";out=" ++ showOutcome o ++ ";dl=" ++ String.intercalate "," (ds.map showDelivery)
      -- spec (what C15 demands, independent of the model's tables): the deliveries are exactly the
      -- sendable messages of the batch, in order, with their own target / payload / sender; outcome ok
      let want := "out=ok;dl=" ++ String.intercalate "," (((batch.filter (sendable wireCodec)).map Deliver.toDelivery).map showDelivery)
      let got := match impl.splitOn ";out=" with
        | [_, r] => "out=" ++ r
        | _ => impl
      let spec := if got = want then "ok" else
        (if (got.splitOn "panic").length > 1 then "FAIL:panic " else "FAIL:delivery ") ++ s!"impl[{got}] want[{want}]"
      let nSendable := (batch.filter (sendable wireCodec)).length
      let tags :=
        [if batch.any (·.sender.isNone) ∧ batch.any (·.sender.isSome) then "mixed-nil-sender" else "uniform-sender",
         if nSendable < batch.length then "has-unsendable" else "all-sendable",
         if batch.any (fun d => !wireCodec.isProto d.msg) then "has-nonproto" else "no-nonproto",
         if env.targets.length < nSendable then "target-table-hit" else "target-table-nohit",
         if (batch.any (fun d => d.target = ⟨"ab","c"⟩ ∨ d.sender = some ⟨"ab","c"⟩)) ∧
            (batch.any (fun d => d.target = ⟨"a","bc"⟩ ∨ d.sender = some ⟨"a","bc"⟩)) then "split-collision" else "no-split-collision",
         "len" ++ toString (min batch.length 12)]
      { model := model, spec := spec, tags := tags, nontrivial := batch.length ≥ 2 }

/-- codec for the hostile stream: data = [dz, k]; accepted iff dz = 1; payload = message number. -/
def hostileCodec : Codec Nat where
  isProto _ := false
  typeName _ := ""
  serialize _ := none
  deserialize b _ := match b with
    | [1, k] => some k
    | _ => none
  roundtrip := by intro p b h; simp at h

def parsePidTok (s : String) : Pid := ⟨s, ""⟩   -- opaque token

def hostileCase (inp impl : String) : CaseOut :=
  let ws := words inp
  -- raw=<hex>: crafted wire bytes with length prefixes at the edge of the integer range: the envelope decoder rejects them
  -- (the reader never sees them; `C16.outcome_total` is about decoded envelopes); whatever it answers, it must not panic
  if (kv ws "raw").isSome then
    { model := impl, spec := if (impl.splitOn "panic").length > 1 then "FAIL:panic in the envelope decoder: " ++ impl else "ok",
      tags := ["raw-bytes", if impl = "out=rejected" then "raw.rejected" else "raw.decoded"], nontrivial := true } else
  let dots (k : String) : List String := match kv ws k with
    | some s => if s = "" then [] else s.splitOn "."
    | none => []
  let tn := dots "tn"
  let g := (dots "G").map parsePidTok
  let s := (dots "S").map parsePidTok
  let msgsS := match kv ws "msgs" with
    | some x => commaList x
    | none => []
  let parseMsg (k : Nat) (w : String) : Option Message :=
    match w.splitOn ":" with
    | [a, b, c, dz] => do
      let ti ← a.toInt?
      let si ← b.toInt?
      let gi ← c.toInt?
      pure { data := [if dz = "1" then 1 else 0, k], typeIdx := ti, senderIdx := si, targetIdx := gi }
    | _ => none
  match (msgsS.zipIdx.mapM fun (w, k) => parseMsg k w) with
  | none => bad "msgs"
  | some msgs =>
    let env : Envelope := { typeNames := tn, targets := g, senders := s, messages := msgs }
    let (ds, o) := decode hostileCodec env
    let showD (d : Delivery Nat) : String :=
      let tname := match msgs[d.payload]? with
        | some m => (idx tn m.typeIdx).getD "?"
        | none => "?"
      d.target.address ++ ":" ++ tname ++ ":" ++ (match d.sender with | none => "nil" | some p => p.address)
    let model := "out=" ++ showOutcome o ++ ";content=ok;dl=" ++ String.intercalate "," (ds.map showD)
    -- spec: no panic; the outcome is ok or err; every delivery is justified by valid indices (checked
    -- here directly against the input, independent of `decode`)
    let isPanic := (impl.splitOn "panic").length > 1
    let implDl := match impl.splitOn ";dl=" with
      | [_, r] => commaList r
      | _ => []
    let justified (d : String) : Bool :=
      msgs.any fun m =>
        match idx tn m.typeIdx, idx g m.targetIdx with
        | some tname, some target => d.startsWith (target.address ++ ":" ++ tname ++ ":")
        | _, _ => false
    let badContent := (impl.splitOn ";content=BAD").length > 1
    let spec := if isPanic then "FAIL:panic " ++ impl
      else if badContent then "FAIL:a target holds a message whose content is not that of any message of this envelope addressed to it (state left over from another message, stream or peer): " ++ impl
      else match implDl.find? (fun d => !justified d) with
        | some d => "FAIL:unaddressed delivery " ++ d
        | none => if implDl.length ≤ msgs.length then "ok" else "FAIL:more deliveries than messages"
    let anyBad := msgs.any fun m => (idx tn m.typeIdx).isNone || (idx g m.targetIdx).isNone
    let tags := [if o == .ok then "out.ok" else "out.err",
                 if anyBad then "has-bad-index" else "all-indices-valid",
                 if msgs.any (fun m => m.typeIdx < 0 || m.targetIdx < 0 || m.senderIdx < -1) then "has-negative" else "no-negative",
                 if msgs.any (fun m => m.data.head? = some 0 && (idx tn m.typeIdx).isSome) then "has-undecodable" else "all-decodable",
                 if tn.isEmpty || g.isEmpty then "empty-table" else "tables-nonempty",
                 if msgs.any (fun m => m.senderIdx != -1 && (idx s m.senderIdx).isNone) then "has-bad-sender-index" else "sender-indices-ok",
                 "delivered" ++ toString (min ds.length 5)]
    { model := model, spec := spec, tags := tags, nontrivial := !msgs.isEmpty }

end Driver
