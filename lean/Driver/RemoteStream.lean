import HW.Model.Router
import Driver.Util
import Driver.ClusterStream
/-
stream remote (C17, H-sys over loopback TCP)
  in   kind=order senders=<k> msgs=<m> targets=<t> seed=<n> | kind=reqresp n=<k> | kind=unreach msgs=<n> | kind=state ops=<start|stop|dial>,...
  impl order:   complete|INCOMPLETE self=<addr> plan=<digits per sender>/... t0=<entry.entry...> t1=...   entry = s<s>m<j><<sender|->
       reqresp: ok=<n> bad=<n>      unreach: unreachable=<n> dead=<n> deadtags=<...> later=<n>      state: started|already|stopped|accepted|refused,...
-/
namespace Driver
open HW.Router

def remoteCase (inp impl : String) : CaseOut :=
  let ws := words inp
  let kind := (kv ws "kind").getD ""
  if kind = "order" then
    let iw := words impl
    let self := (kv iw "self").getD "?"
    let plan : List (List Nat) := ((kv iw "plan").getD "").splitOn "/" |>.map fun p => p.toList.map fun c => c.toNat - '0'.toNat
    let nt := (kvNat ws "targets").getD 1
    let entryOf (s j : Nat) : String :=
      s!"s{s}m{j}<" ++ (if s % 2 = 1 then (if s > 1 then s!"n{s}:1" else self) ++ "/snd/same" else "-")
    let targets := List.range nt
    let expected (t : Nat) : List String :=
      (List.range plan.length).flatMap fun s =>
        ((plan.getD s []).zipIdx.filter (fun p => p.1 = t)).map fun p => entryOf s p.2
    let got (t : Nat) : List String := match kv iw s!"t{t}" with
      | some "" => [] | some l => l.splitOn "|" | none => []
    -- per sender order inside one target log: the message numbers of each sender increase
    let seqOf (e : String) : Nat × Nat :=
      match ((e.splitOn "<").headD "").splitOn "m" with
      | [a, b] => ((rest a 1).toNat?.getD 0, b.toNat?.getD 0)
      | _ => (0, 0)
    let ordered (l : List String) : Bool :=
      (List.range plan.length).all fun s =>
        let js := (l.map seqOf).filter (·.1 = s) |>.map (·.2)
        js == (js.toArray.qsort (· < ·)).toList
    let okSet := targets.all fun t => sortStrs (got t) = sortStrs (expected t)
    let okOrd := targets.all fun t => ordered (got t)
    let complete := impl.startsWith "complete"
    let canon (f : Nat → List String) : String :=
      String.intercalate " " (targets.map fun t => s!"t{t}=" ++ String.intercalate "|" (sortStrs (f t)))
    let spec :=
      if !okSet then "FAIL:C17 not exactly once / wrong sender: " ++ canon got ++ " expected " ++ canon expected
      else if !okOrd then "FAIL:C17 messages of one sender to one target arrived out of order"
      else if !complete then "FAIL:C17 delivery incomplete"
      else "ok"
    let total := (plan.map List.length).sum
    { model := "complete " ++ canon expected, spec := spec, implView := (if complete then "complete " else "INCOMPLETE ") ++ canon got,
      tags := ["order", s!"senders{min plan.length 6}", if total > 1024 then "over-one-writer-batch" else "within-one-writer-batch"],
      nontrivial := total ≥ 2 }
  else if kind = "multi" then
    -- two peers: what peer p receives is exactly the messages whose plan digit is p, in send order (the route table is
    -- keyed by address: `Router.route_invariant`; per-target order: `C17.per_target_order`)
    let iw := words impl
    let plan : List Nat := ((kv iw "plan").getD "").toList.map fun c => c.toNat - '0'.toNat
    let want (p : Nat) : String := String.intercalate "|" ((plan.zipIdx.filter (·.1 = p)).map fun x => s!"m{x.2}")
    let model := s!"complete plan={(kv iw "plan").getD ""} a={want 0} b={want 1}"
    { model := model, spec := if impl = model then "ok" else s!"FAIL:C17 messages for two peers: not each delivered once, in order, to the peer it was addressed to: [{impl}] expected [{model}]",
      tags := ["multi-peer"], nontrivial := plan.length ≥ 4 }
  else if kind = "reqresp" then
    let n := (kvNat ws "n").getD 0
    let want := s!"ok={n} bad=0"
    { model := want, spec := if impl = want then "ok" else s!"FAIL:C17 replies did not all reach their requesters: {impl}", tags := ["reqresp"], nontrivial := n ≥ 2 }
  else if kind = "unreach" then
    let n := (kvNat ws "msgs").getD 0
    -- model: n sends to an address that refuses, the router drains, then the peer accepts and n more are sent
    let s0 : St := (List.range n).foldl (fun s i => send s "peer" i) {}
    let (s1, o1) := drainRouter (fun _ => false) (n + 5) s0
    let s2 : St := (List.range n).foldl (fun s i => send s "peer" (100 + i)) s1
    let (_, o2) := drainRouter (fun _ => true) (n + 5) s2
    let dead := (o1.filter fun o => match o with | .deadLetter .. => true | _ => false).length
    let unr := (o1.filter fun o => match o with | .unreachableEvent .. => true | _ => false).length
    let later := (o2.filter fun o => match o with | .sent .. => true | _ => false).length
    let tags := sortStrs ((List.range n).map fun i => s!"d{i}")
    let want := s!"unreachable={unr} dead={dead} deadtags={String.intercalate "." tags} later={later}"
    { model := want, spec := if impl = want then "ok" else s!"FAIL:C17 unreachable peer: implementation [{impl}] expected [{want}]",
      tags := ["unreach", if (kvNat ws "tls") = some 1 then "unreach-tls" else "unreach-plain"], nontrivial := true }
  else if kind = "abort" then
    -- the writer's connection is gone from its point of view (connLost), the router catches up, the peer accepts again
    let s0 : St := { routes := ["peer"], registered := ["peer"] }
    let (s1, o1) := connLost s0 "peer"
    let (_, o2) := drainRouter (fun _ => true) 5 (send s1 "peer" 1)
    let reported := if o1.any (fun o => match o with | .unreachableEvent .. => true | _ => false) then 1 else 0
    let resumed := if o2.any (fun o => match o with | .sent .. => true | _ => false) then 1 else 0
    let want := s!"reported={reported} resumed={resumed}"
    { model := want, spec := if impl = want then "ok" else s!"FAIL:C17 the stream was ended by the peer but the writer neither reported it nor made a fresh attempt: [{impl}] expected [{want}]",
      tags := ["abort"], nontrivial := true }
  else if kind = "reconnect" then
    -- n sends over a working connection, the connection is lost (connLost), the router catches up, the peer
    -- accepts again and n more are sent. The spelling of the address (host name or IP) plays no part in the model.
    let n := (kvNat ws "msgs").getD 0
    let s0 : St := { routes := ["peer"], registered := ["peer"] }
    let (s1, o1) := connLost s0 "peer"
    let s2 : St := (List.range n).foldl (fun s i => send s "peer" i) s1
    let (_, o2) := drainRouter (fun _ => true) (n + 5) s2
    let reported := if o1.any (fun o => match o with | .unreachableEvent .. => true | _ => false) then 1 else 0
    let later := (o2.filter fun o => match o with | .sent .. => true | _ => false).length
    let want := s!"first={n} reported={reported} later={later}"
    { model := want, spec := if impl = want then "ok" else s!"FAIL:C17 a lost connection was not reported / later sends to the same address did not reach the peer that is up again: [{impl}] expected [{want}]",
      tags := ["reconnect", "reconnect-" ++ (kv ws "host").getD "?"], nontrivial := true }
  else if kind = "state" then
    let ops := commaList ((kv ws "ops").getD "")
    let stepOp (acc : RState × List String) (op : String) : RState × List String :=
      let (st, out) := acc
      if op = "start" then
        let (st', o) := remoteStart st
        (st', out ++ [if o = .started then "started" else "already"])
      else if op = "stop" then ((remoteStop st).1, out ++ ["stopped"])
      else if op = "dial" then (st, out ++ [if accepting st then "accepted" else "refused"])
      else if op = "start2" then
        -- Start with another engine: skipped before the first start; afterwards refused and without effect
        if st = .initialized then (st, out ++ ["skip"]) else ((remoteStart st).1, out ++ ["already"])
      -- out: a send from this node to a peer works once the remote has been started, also after it was stopped
      -- ("Sending will work even if the remote is stopped. Receiving however, will not work.")
      else if op = "out" then
        if st = .initialized then (st, out ++ ["skip"]) else (st, out ++ ["sent-arrived"])
      else if op = "probe" then
        if st = .initialized then (st, out ++ ["skip"]) else (st, out ++ [if accepting st then "reached" else "lost"])
      else (st, out ++ ["?"])
    let (_, out) := ops.foldl stepOp (.initialized, [])
    let want := String.intercalate "," out
    { model := want, spec := if impl = want then "ok" else s!"FAIL:C17 Remote start/stop: implementation [{impl}] expected [{want}]",
      tags := ["state"], nontrivial := ops.length ≥ 3 }
  else bad "kind"

/-- stream remotelost (C17): connection lost, a send inside the window in which the old writer is being
    shut down, then `msgs` sends to the peer that is up again. Model: the router state machine with the
    Shutdown order "unregister, then notify" — every later send goes out on a fresh connection. -/
def remoteLostCase (inp impl : String) : CaseOut :=
  let ws := words inp
  let n := (kvNat ws "msgs").getD 0
  -- connection up (route + registered), lost, one send in the window, router catches up, n sends
  let s0 : St := { routes := ["peer"], registered := ["peer"] }
  let (s1, _) := connLost s0 "peer"
  let (s2, _) := drainRouter (fun _ => true) 5 (send s1 "peer" 0)
  let s3 : St := (List.range n).foldl (fun s i => send s "peer" (100 + i)) s2
  let (_, o3) := drainRouter (fun _ => true) (n + 5) s3
  let later := (o3.filter fun o => match o with | .sent _ m => m ≥ 100 | _ => false).length
  let deadLater := (o3.filter fun o => match o with | .deadLetter _ m => m ≥ 100 | _ => false).length
  let want := s!"trapped later={later} deadlater={deadLater}"
  { model := want,
    spec := if impl = want then "ok" else s!"FAIL:C17 after a lost connection later sends to the peer (which is up again) do not get through: [{impl}] expected [{want}]",
    tags := ["conn-lost"], nontrivial := true }

end Driver
