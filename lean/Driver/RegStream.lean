import HW.Model.Registry
import Driver.Util
/-
stream reg (C10, sequential, through the real Engine)
  in   ops=<op>,...     op ::= sp<id> | st<id> | po<id> | gp<id> | sd<id> | pw<id> (open drain window) | sw<id> (Stop requested, actor busy) | rl<id> (release)
  impl <r>;<r>;...      r  ::= won<inst>[events] | dup[events] | done[events] | some | none | inst<n> | [events]
stream regsched (C10, concurrent, real registry.go under the deterministic scheduler)
  in   progs=<op.op|op.op|...> sched=<tid>,...     op ::= a<id> | r<id> | g<id>
  impl t<tid>:<lock|rlock>[+start<inst>|+dup:<id>|+rm:<id>];...;end:<results per thread>:<final registry>
-/
namespace Driver
open HW.Registry

def regSeqCase (inp impl : String) : CaseOut :=
  let ws := words inp
  match (kv ws "ops").map commaList with
  | none => bad "ops"
  | some ops =>
    -- `win` = ids whose actor is inside its graceful drain (pill seen, blocked on a message behind it):
    -- such an actor is still registered until its cleanup runs
    let stepOp (st : Reg × Nat × List String × List String) (op : String) : Reg × Nat × List String × List String :=
      let (r, next, out, win) := st
      let kind := (op.take 2).toString
      let id := rest op 2
      let key := "k/" ++ id
      if kind = "sp" then
        match r.add key (next + 1) with
        | (r', .won) => (r', next + 1, out ++ [s!"won{next + 1}[]"], win)
        | (r', .dup) => (r', next, out ++ [s!"dup[dup:{key}]"], win)
      else if kind = "st" || kind = "po" then
        match r.get key with
        | some _ => (r.remove key, next, out ++ ["done[]"], win)
        | none => (r, next, out ++ [s!"done[deadpill:{key}]"], win)
      -- pg: concurrent lookups of the registered ids: every answer is the registered actor (a lookup is one read-locked section)
      else if kind = "pg" then
        (r, next, out ++ [if r.entries.length ≥ 2 then "pg=ok" else "skip"], win)
      else if kind = "gp" then
        (r, next, out ++ [if (r.get key).isSome then "some" else "none"], win)
      else if kind = "sd" then
        match r.get key with
        | some i => (r, next, out ++ [s!"inst{i}"], win)
        | none => (r, next, out ++ [s!"[dead:{key}]"], win)
      else if kind = "pw" || kind = "sw" then
        if (r.get key).isSome && !win.contains key then (r, next, out ++ ["window[]"], key :: win)
        else (r, next, out ++ ["skip"], win)
      else if kind = "rl" then
        if win.contains key then (r.remove key, next, out ++ ["released[]"], win.erase key)
        else (r, next, out ++ ["skip"], win)
      else (r, next, out ++ ["bad-op"], win)
    let (_, _, out, _) := ops.foldl stepOp ({}, 0, [], [])
    let model := String.intercalate ";" out
    let implL := if impl = "" then [] else impl.splitOn ";"
    let firstBad := (List.range (max out.length implL.length)).find? fun i => out[i]? ≠ implL[i]?
    let spec := match firstBad with
      | none => "ok"
      | some i => s!"FAIL:C10 op#{i} {ops.getD i "?"}: implementation {implL.getD i "?"} but the id->actor map demands {out.getD i "?"}"
    let tags := (out.map fun o => if o.startsWith "won" then "spawn.won" else if o.startsWith "dup" then "spawn.dup"
      else if o = "done[]" then "stop.live" else if o.startsWith "done[" then "stop.unknown"
      else if o = "some" then "getpid.some" else if o = "none" then "getpid.none"
      else if o.startsWith "inst" then "send.delivered" else if o.startsWith "window" then "drain-window"
      else if o.startsWith "released" then "drain-released" else if o = "skip" then "skip" else "send.dead").eraseDups
    { model := model, spec := spec, tags := tags, nontrivial := out.any (·.startsWith "dup") || out.any (· = "done[]") }

/-- concurrent registry: thread state = remaining ops, index of next op, pending dup broadcast. -/
structure RThread where
  ops : List String
  idx : Nat := 0
  pendingDup : Option String := none
  results : List String := []

def regSchedCase (inp impl : String) : CaseOut :=
  let ws := words inp
  match kv ws "progs" with
  | none => bad "progs"
  | some ps =>
    let progs : List (List String) := (ps.splitOn "|").map fun p => if p = "" then [] else p.splitOn "."
    let sched : List Nat := match kv ws "sched" with
      | some s => (commaList s).filterMap String.toNat?
      | none => []
    let threads0 : List RThread := progs.map fun p => { ops := p }
    let stepT (st : Reg × List RThread × List String) (tid : Nat) : Reg × List RThread × List String :=
      let (r, ths, log) := st
      match ths[tid]? with
      | none => (r, ths, log ++ [s!"t{tid}:none"])
      | some th =>
        match th.pendingDup with
        | some id =>
          (r, ths.set tid { th with pendingDup := none, results := th.results ++ ["a"] }, log ++ [s!"t{tid}:rlock+dup:{id}"])
        | none =>
          match th.ops with
          | [] => (r, ths, log ++ [s!"t{tid}:none"])
          | op :: ops' =>
            let id := rest op 1
            let k := (op.take 1).toString
            let th1 := { th with ops := ops', idx := th.idx + 1 }
            if k = "a" then
              let inst := (tid + 1) * 10 + th.idx
              match r.add id inst with
              | (r', .won) => (r', ths.set tid { th1 with results := th.results ++ ["a"] }, log ++ [s!"t{tid}:lock+start{inst}"])
              | (r', .dup) => (r', ths.set tid { th1 with pendingDup := some id }, log ++ [s!"t{tid}:lock"])
            else if k = "r" then
              (r.remove id, ths.set tid { th1 with results := th.results ++ ["r"] }, log ++ [s!"t{tid}:lock+rm:{id}"])
            else
              let res := match r.get id with | some i => s!"g{i}" | none => "g-"
              (r, ths.set tid { th1 with results := th.results ++ [res] }, log ++ [s!"t{tid}:rlock"])
    let (r, ths, log) := sched.foldl stepT ({}, threads0, [])
    let results := String.intercalate "|" (ths.map fun t => String.intercalate "." t.results)
    let final := r.entries.map (fun e => s!"{e.1}={e.2}")
    let finalSorted := (final.toArray.qsort (· < ·)).toList
    let model := String.intercalate ";" (log ++ [s!"end:{results}:{String.intercalate "," finalSorted}"])
    -- spec on the implementation's log, independent of the model: scanning the events in order, an
    -- actor is started for an id only if no started, not yet removed actor holds that id. (The
    -- duplicate-id event is published after the critical section, so the id may legitimately have
    -- been freed by then; whether it was held at decision time is the model's business.)
    let toks := (impl.splitOn ";").flatMap fun st => (st.splitOn "+").drop 1
    let instId (inst : Nat) : String :=
      -- instance (tid+1)*10+idx belongs to op idx of thread tid
      match progs[inst / 10 - 1]? with
      | some p => match p[inst % 10]? with | some op => rest op 1 | none => "?"
      | none => "?"
    let scan (st : List String × Option String) (tok : String) : List String × Option String :=
      let (live, err) := st
      if err.isSome then st
      else if tok.startsWith "start" then
        let id := instId ((rest tok 5).toNat?.getD 0)
        if live.contains id then (live, some s!"a second actor was started for id {id} while one is registered ({tok})")
        else (id :: live, none)
      else if tok.startsWith "rm:" then (live.erase (rest tok 3), none)
      else st
    let (_, err) := toks.foldl scan ([], none)
    let spec := match err with
      | some e => "FAIL:C10 " ++ e
      | none => "ok"
    let nAdds := (progs.flatten.filter (·.startsWith "a")).length
    { model := model, spec := spec, tags := [s!"threads{progs.length}", s!"adds{min nAdds 5}"], nontrivial := nAdds ≥ 2 }

end Driver
