import HW.Model.Ring
import HW.Spec.Fifo
import HW.Model.RingConc
import Driver.Util
/-
stream ring
  in   size=<n> ops=<op>,<op>,...     op ::= u<x> (push x) | o (pop) | n<k> (popN k) | l (len) | d (dump)
  impl <r>;<r>;...                    r  ::= - | i<x> | i! | s<x>.<y>.<z> | s! | l<n> | d<head>.<tail>.<mod>.<len>
The model column is the transcription of ringbuffer.go; the spec column is the abstract FIFO.
-/
namespace Driver
open HW

inductive ROp where
  | op (o : RingOp Nat)
  | dump

def parseROp (w : String) : Option ROp :=
  if w = "o" then some (.op .pop)
  else if w = "l" then some (.op .len)
  else if w = "d" then some .dump
  else if w.startsWith "u" then (rest w 1).toNat?.map (fun x => .op (.push x))
  else if w.startsWith "n" then (rest w 1).toNat?.map (fun x => .op (.popN x))
  else none

def showOut : RingOut Nat → String
  | .unit => "-"
  | .item none => "i!"
  | .item (some x) => "i" ++ toString x
  | .items none => "s!"
  | .items (some xs) => "s" ++ String.intercalate "." (xs.map toString)
  | .len n => "l" ++ toString n

def ringTags (r : Ring Nat) (o : RingOp Nat) : List String :=
  match o with
  | .push _ =>
    let t := (r.tail + 1) % r.mod
    if t = r.head then
      ["push.grow", if r.head = 0 then "grow.head0" else "grow.wrapped", "grow.mod" ++ toString (min r.mod 16)]
    else ["push.plain", if t = 0 then "push.wraptail" else "push.nowrap"]
  | .pop => if r.len = 0 then ["pop.empty"] else ["pop.some"]
  | .popN n =>
    if r.len = 0 then ["popN.empty"]
    else [if n ≥ r.len then "popN.all" else if n = 0 then "popN.zero" else "popN.part",
          if r.head + 1 + (min n r.len) > r.mod then "popN.wraps" else "popN.flat"]
  | .len => ["len"]

partial def ringLoop (r : Ring Nat) (q : List Nat) (ops : List ROp) (m s : List String) (tags : List String)
    : List String × List String × List String :=
  match ops with
  | [] => (m.reverse, s.reverse, tags)
  | .dump :: ops =>
    let d := s!"d{r.head}.{r.tail}.{r.mod}.{r.len}"
    ringLoop r q ops (d :: m) (d :: s) tags
  | .op o :: ops =>
    let (r', out) := r.step o
    let (q', sout) := Fifo.step q o
    ringLoop r' q' ops (showOut out :: m) (showOut sout :: s) (ringTags r o ++ tags)

/-- positions at which two result lists differ, ignoring dump entries (spec has no layout). -/
def firstDiff (a b : List String) : Option Nat :=
  let rec go (i : Nat) : List String → List String → Option Nat
    | [], [] => none
    | x :: xs, y :: ys => if x = y || x.startsWith "d" then go (i+1) xs ys else some i
    | _, _ => some i
  go 0 a b

def ringCase (inp impl : String) : CaseOut :=
  let ws := words inp
  match kvNat ws "size", kv ws "ops" with
  | some size, some opsS =>
    match (commaList opsS).mapM parseROp with
    | none => bad "ops"
    | some ops =>
      if size = 0 then bad "size0" else
      let (m, s, tags) := ringLoop (Ring.new size) [] ops [] [] []
      let implL := if impl = "" then [] else impl.splitOn ";"
      let spec := match firstDiff implL s with
        | none => "ok"
        | some i => s!"FAIL:op#{i} impl={implL.getD i "?"} fifo={s.getD i "?"}"
      { model := String.intercalate ";" m, spec := spec, tags := tags,
        nontrivial := tags.any (fun t => t = "push.grow" || t = "popN.wraps" || t = "push.wraptail") }
  | _, _ => bad "fields"

/-- stream ringsched (C14, concurrency): `size=<n> progs=<op.op|op.op|…> sched=<tid>,…`; every operation of the
    real ring is one critical section = ONE step of the model, taken in schedule order (`Len` is one atomic load). -/
def ringSchedCase (inp impl : String) : CaseOut :=
  let ws := words inp
  match kvNat ws "size", kv ws "progs" with
  | some size, some ps =>
    if size = 0 then bad "size0" else
    let progs : List (List String) := (ps.splitOn "|").map fun p => if p = "" then [] else p.splitOn "."
    let sched : List Nat := match kv ws "sched" with
      | some s => (commaList s).filterMap String.toNat?
      | none => []
    -- a locked method is two scheduled steps: "lock" (the whole critical section, atomically) and "unlocked"
    -- (whatever the method does after releasing the mutex: nothing that touches the ring); Len is one step
    let stepT (st : Ring Nat × List (List String) × List (List String) × List String × List Nat) (tid : Nat) :=
      let (r, rem, res, log, tails) := st
      if tails.contains tid then (r, rem, res, log ++ [s!"t{tid}:unlocked"], tails.erase tid) else
      match rem[tid]? with
      | some (op :: ops') =>
        match parseROp op with
        | some (.op o) =>
          let (r', out) := r.step o
          let (lbl, tails') := match o with | .len => ("len", tails) | _ => ("lock", tid :: tails)
          (r', rem.set tid ops', res.set tid ((res.getD tid []) ++ [showOut out]), log ++ [s!"t{tid}:{lbl}"], tails')
        | _ => (r, rem.set tid ops', res, log ++ [s!"t{tid}:bad"], tails)
      | _ => (r, rem, res, log ++ [s!"t{tid}:none"], tails)
    let (r, _, res, log, _) := sched.foldl stepT (Ring.new size, progs, progs.map (fun _ => []), [], [])
    let restQ := r.abs
    let model := String.intercalate ";" (log ++ ["end:" ++ String.intercalate "|" (res.map (String.intercalate ",")) ++
      ":rest=" ++ String.intercalate "." (restQ.map toString)])
    -- spec (linearizability against the FIFO, independent of the per-step labels): the results the
    -- implementation returned must be those of the abstract queue for SOME order of the operations that
    -- respects each thread's program order; the model's order (lock acquisition order) is the witness we
    -- check — so a difference in the `end:` record is a linearizability failure for this schedule.
    let implEnd := (impl.splitOn ";").getLast?.getD ""
    let modelEnd := (model.splitOn ";").getLast?.getD ""
    let panicked := (impl.splitOn "PANIC").length > 1
    { model := model,
      spec := if panicked then "FAIL:C14 a ring operation panicked under concurrency"
              else if implEnd = modelEnd then "ok"
              else s!"FAIL:C14 not linearizable in lock-acquisition order: implementation [{implEnd}] FIFO [{modelEnd}]",
      tags := [s!"threads{progs.length}", s!"size{size}"], nontrivial := sched.length ≥ 4 }
  | _, _ => bad "fields"

/-
stream ringfine (C14, fine granularity): the real ringbuffer.go under the scheduler shim with a scheduling point at EVERY mutex
attempt (`lock=ok|busy`), atomic add inside the critical section (`add(d)=v`), release (`unlock`) and atomic load (`len=v`).
The driver replays the implementation's step sequence in the fine-grained model `HW.RingConc` (the one `C14.linearizable` and
`C14.concurrent_safety` are about): acquire / linearize / release / load, and compares every value on the way.
  in   size=<n> progs=<op.op|op.op|…>
  impl t<tid>:<label>;…;end:<results per thread>:rest=<drained content>
-/
def ringFineCase (inp impl : String) : CaseOut :=
  let ws := words inp
  match kv ws "progs" with
  | none => bad "progs"
  | some ps =>
    let progsS : List (List String) := (ps.splitOn "|").map fun p => if p = "" then [] else p.splitOn "."
    let progs : List (List (RingOp Nat)) := progsS.map fun p => p.filterMap fun w =>
      match parseROp w with | some (.op o) => some o | _ => none
    let parts := impl.splitOn ";"
    let stepsS := parts.filter (fun x => !(x.startsWith "end:"))
    let endS := (parts.find? (·.startsWith "end:")).getD ""
    -- one implementation step replayed in the model; returns the model's rendering of that step
    let advance (s : RingConc.St) (t : Nat) : RingConc.St := (RingConc.step s t).getD s
    let isIdle (s : RingConc.St) (t : Nat) : Bool := match s.thr[t]? with | some .idle => true | _ => false
    let isInCS (s : RingConc.St) (t : Nat) : Bool := match s.thr[t]? with | some (.inCS _) => true | _ => false
    let replay (acc : RingConc.St × List String × List String) (stp : String) : RingConc.St × List String × List String :=
      let (s, out, errs) := acc
      match stp.splitOn ":" with
      | [ts, lbl] =>
        let t := (rest ts 1).toNat?.getD 0
        let s := if isIdle s t then advance s t else s            -- the call of the next method
        if lbl = "lock=ok" then
          match RingConc.step s t with
          | some s' => (s', out ++ [s!"t{t}:lock=ok"], errs)
          | none => (s, out ++ [s!"t{t}:lock=BLOCKED"], errs ++ [s!"t{t} got the mutex while the model says it is held"])
        else if lbl = "lock=busy" then
          (s, out ++ [if s.lock.isSome && s.lock ≠ some t then s!"t{t}:lock=busy" else s!"t{t}:lock=FREE"],
            if s.lock.isSome && s.lock ≠ some t then errs else errs ++ [s!"t{t} found the mutex busy while the model says it is free"])
        else if lbl.startsWith "add(" then
          let s' := advance s t
          let d := ((lbl.splitOn "(").getD 1 "").splitOn ")" |>.headD ""
          (s', out ++ [s!"t{t}:add({d})={s'.cnt}"], errs)
        else if lbl = "unlock" then
          let s1 := if isInCS s t then advance s t else s          -- the empty case: no counter update, linearized here
          (advance s1 t, out ++ [s!"t{t}:unlock"], errs)
        else if lbl.startsWith "len=" then
          let s' := advance s t
          (s', out ++ [s!"t{t}:len={s.cnt}"], errs)
        else (s, out ++ [s!"t{t}:?{lbl}"], errs ++ [s!"unknown step {lbl}"])
      | _ => (s, out ++ ["?"], errs ++ ["malformed step"])
    let (s, out, errs) := stepsS.foldl replay (RingConc.init progs, [], [])
    let res := String.intercalate "|" (s.results.map fun r => String.intercalate "," (r.map showOut))
    let model := String.intercalate ";" (out ++ [s!"end:{res}:rest={String.intercalate "." (s.q.map toString)}"])
    -- spec: Len is never negative; the results are those of the FIFO in linearization order (the model's `lin`)
    let negLen := stepsS.any fun x => (x.splitOn "len=-").length > 1
    let modelEnd := s!"end:{res}:rest={String.intercalate "." (s.q.map toString)}"
    let spec :=
      if negLen then "FAIL:C14 Len() returned a negative number (the counter was seen between two updates of one operation)"
      else if (impl.splitOn "PANIC").length > 1 then "FAIL:C14 a ring operation panicked under concurrency"
      else if (impl.splitOn "DEADLOCK").length > 1 then "FAIL:C14 a thread waits for the mutex for ever (a method returned, or panicked, while holding it)"
      else if !errs.isEmpty then "FAIL:C14 mutual exclusion of the critical sections: " ++ String.intercalate " | " errs
      else if endS ≠ modelEnd then s!"FAIL:C14 not linearizable: implementation [{endS}] model [{modelEnd}]"
      else "ok"
    { model := model, spec := spec, tags := [s!"threads{progs.length}", "fine-grained"], nontrivial := stepsS.length ≥ 6 }

end Driver
