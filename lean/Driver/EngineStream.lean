import HW.Model.Engine
import Driver.Util
/-
stream engine (C09, C12)
  in   remote=<0|1> ops=<op>,...
       op ::= sub<p> | uns<p> | ev<n> | snd<t>s<s|-> | reg<p> | unr<p> | poi<p>      (p,t,s: pool indices; 4 = nil)
  impl per op: comma separated observations (forwards of one eventStream.Receive sorted):
       d<p>:<token><<sender>   delivery to recorder p        remote<p>:<token><<sender>   handed to the remote
       tokens: e<n> | m<k> | DL(<t>,<tok>,<s>) | RM(<t>,<tok>,<s>) | pill          ctxdone | ctxpending | OVERFLOW | PANIC
-/
namespace Driver
open HW.Engine

def engPool (addr : String) (i : Nat) : Option Key :=
  match i with
  | 0 => some ⟨addr, "s/a"⟩ | 1 => some ⟨addr, "s/b"⟩ | 2 => some ⟨addr, "s/c"⟩ | 3 => some ⟨"other:1", "s/x"⟩
  | 5 => some ⟨"other:1", "s/a"⟩      -- foreign address, id of a live local actor
  | 6 => some ⟨addr ++ "/s", "a"⟩     -- address ++ "/" ++ id equals that of pid 0
  | 7 => some ⟨(addr.take (addr.length - 1)).toString, (addr.drop (addr.length - 1)).toString ++ "s/a"⟩   -- address ++ id equals that of pid 0
  | _ => none

def engIdx (addr : String) (k : Option Key) : String :=
  match k with
  | none => "-"
  | some k => match (List.range 8).find? (fun i => engPool addr i = some k) with
    | some i => toString i
    | none => "?"

structure EngSt where
  subs : List Key := []
  regd : List String := ["s/a", "s/b"]
  nsend : Nat := 0

/-- events carried through the stream in this driver: token + a number for the model's `EMsg.event`. -/
def engineCase (inp impl : String) : CaseOut :=
  let ws := words inp
  let remote := kv ws "remote" = some "1"
  let addr := if remote then "n1:9000" else "local"
  match (kv ws "ops").map commaList with
  | none => bad "ops"
  | some ops =>
    let mkEng (st : EngSt) : Eng := { address := addr, hasRemote := remote, registered := fun id => st.regd.contains id }
    -- deliver a message `tok` (from `sender`) to `target`; returns observations and the events it causes
    let deliver (st : EngSt) (target : Option Key) (tok : String) (sender : Option Key) : List String × List String :=
      match send (mkEng st) target 0 sender with
      | .nothing => ([], [])
      | .enqueue _ => ([s!"d{engIdx addr target}:{tok}<{engIdx addr sender}"], [])
      | .remoteSend _ => ([s!"remote{engIdx addr target}:{tok}<{engIdx addr sender}"], [])
      | .deadLetter t _ s => ([], [s!"DL({engIdx addr (some t)},{tok},{engIdx addr s})"])
      | .remoteMissing t _ s => ([], [s!"RM({engIdx addr (some t)},{tok},{engIdx addr s})"])
    -- feed one event token to the event stream: forwards (sorted) — by `forwards_deliverable` no new events
    let esEvent (st : EngSt) (tok : String) : EngSt × List String :=
      let (subs', fw) := esReceive (mkEng st) st.subs (.event 0)
      let obs := fw.map fun f => s!"d{engIdx addr (some f.1)}:{tok}<-"
      let obsR := fw.filterMap fun f =>
        if f.1.address = addr then none else some s!"remote{engIdx addr (some f.1)}:{tok}<es"
      let obsL := (fw.filter fun f => f.1.address = addr).map fun f => s!"d{engIdx addr (some f.1)}:{tok}<es"
      let _ := obs
      ({ st with subs := subs' }, ((obsL ++ obsR).toArray.qsort (· < ·)).toList)
    let stepOp (acc : EngSt × List String × List String) (op : String) : EngSt × List String × List String :=
      let (st, out, tags) := acc
      let num (n : Nat) : Nat := (rest op n).toNat?.getD 9
      if op.startsWith "sub" then
        match engPool addr (num 3) with
        | some k => ({ st with subs := (esReceive (mkEng st) st.subs (.sub k)).1 }, out ++ [""], tags ++ ["sub"])
        | none => (st, out ++ [""], tags)
      else if op.startsWith "uns" then
        match engPool addr (num 3) with
        | some k => ({ st with subs := (esReceive (mkEng st) st.subs (.unsub k)).1 }, out ++ [""], tags ++ ["unsub"])
        | none => (st, out ++ [""], tags)
      else if op.startsWith "ev" then
        let dropped := st.subs.any fun k => !deliverable (mkEng st) k
        let (st', obs) := esEvent st s!"e{num 2}"
        (st', out ++ [String.intercalate "," obs], tags ++ ["event", if dropped then "event.drops-unreachable-sub" else "event.all-reachable", s!"subs{min st.subs.length 4}"])
      else if op.startsWith "reg" then
        match engPool addr (num 3) with
        | some k => ({ st with regd := if st.regd.contains k.id then st.regd else k.id :: st.regd }, out ++ [""], tags)
        | none => (st, out ++ [""], tags)
      else if op.startsWith "unr" then
        match engPool addr (num 3) with
        | some k => ({ st with regd := st.regd.erase k.id }, out ++ [""], tags ++ ["unregister"])
        | none => (st, out ++ [""], tags)
      else if op.startsWith "snd" then
        match (rest op 3).splitOn "s" with
        | [t, s] =>
          let target := engPool addr (t.toNat?.getD 9)
          let sender := if s = "-" then none else engPool addr (s.toNat?.getD 9)
          let st := { st with nsend := st.nsend + 1 }
          -- every fifth message is a nil message value
          let (obs, evs) := deliver st target (if st.nsend % 5 = 0 then "nil" else s!"m{st.nsend}") sender
          let (st', obs2) := evs.foldl (fun (a : EngSt × List String) ev => let (s', o) := esEvent a.1 ev; (s', a.2 ++ o)) (st, [])
          let tag := match send (mkEng st) target 0 sender with
            | .nothing => "send.nil" | .enqueue _ => "send.local" | .remoteSend _ => "send.remote"
            | .deadLetter .. => "send.deadletter" | .remoteMissing .. => "send.remote-missing"
          (st', out ++ [String.intercalate "," (obs ++ obs2)], tags ++ [tag])
        | _ => (st, out ++ ["bad-op"], tags)
      else if op.startsWith "poi" then
        -- the decision is the model's `HW.Engine.poison` (C07.unknown_pid_done_at_once / known_pid_queued)
        let target := engPool addr (num 3)
        match poison (mkEng st) target with
        | .queued id =>
          (st, out ++ [s!"d{engIdx addr (some ⟨addr, id⟩)}:pill<-,ctxpending"], tags ++ ["poison.registered"])
        | .deadLetterDone (some k) =>
          let (st', obs2) := esEvent st s!"DL({engIdx addr (some k)},pill,-)"
          (st', out ++ [String.intercalate "," (["ctxdone"] ++ obs2)], tags ++ ["poison.unknown"])
        | .deadLetterDone none =>
          -- Poison(nil): no process can be found for a nil PID: dead letter with a nil target, context done at once
          let (st', obs2) := esEvent st "DL(-,pill,-)"
          (st', out ++ [String.intercalate "," (["ctxdone"] ++ obs2)], tags ++ ["poison.nil"])
      else (st, out ++ ["bad-op"], tags)
    let (_, out, tags) := ops.foldl stepOp ({}, [], [])
    let model := String.intercalate ";" out
    let implL := impl.splitOn ";"
    let bads := (List.range (max out.length implL.length)).filter fun i => out[i]? ≠ implL[i]?
    -- every differing operation is judged (one root cause can break several properties: an event stream that
    -- crashed on a send has also lost its subscribers, which the next `ev` shows); the first one is spelled out
    let propOf (i : Nat) : String × String :=
      let op := ops.getD i "?"
      let got := implL.getD i "?"
      if (got.splitOn "OVERFLOW").length > 1 then ("C09", "unbounded event feedback (a finite number of sends must produce a finite number of events)")
      else if (got.splitOn "PANIC").length > 1 then ("C09", "sending panicked")
      else if op.startsWith "poi" then ("C07+C09", "Stop/Poison of an unknown (or foreign) PID: one dead letter and a context that is done at once")
      else if op.startsWith "snd" then ("C09", "undeliverable message not surfaced exactly once to every reachable subscriber")
      else ("C12", "event not delivered exactly once to exactly the current subscribers")
    let spec := match bads with
      | [] => "ok"
      | i :: _ =>
        let labels := (bads.flatMap fun j => (propOf j).1.splitOn "+").eraseDups
        s!"FAIL:{String.intercalate "+" labels} {(propOf i).2}: op#{i} {ops.getD i "?"}: implementation [{implL.getD i "?"}] expected [{out.getD i "?"}]"
    { model := model, spec := spec, tags := tags.eraseDups, nontrivial := tags.contains "event" || tags.contains "send.deadletter" }

end Driver
