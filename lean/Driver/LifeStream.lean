import HW.Model.Proc
import HW.Spec.Lifecycle
import Driver.Util
import Driver.ClusterStream
/-
stream life (C04, C05, C01, C07 — H-sys, real goroutines)
  in   plan=<o|b string per sender>/... spare=<n> inbox=<n> end=<poison|stop>
  impl done|HANG|… sbr=<0|1> succ=<ok|OVERLAP|LOST(n-of-80)|DISORDER|none> ovl=<0|1> log=R<inc>:<I|S|X|m<s>.<j><<sender>>,...
The interleaving of the senders is up to the Go scheduler: the model column is the canonical content
(sorted multiset of deliveries, number of incarnations); the ACTUAL log is judged by the acceptors
`lifecycleOK` (C04), per-sender order / exactly once / sender fidelity (C01, C05), drain before done (C07).
-/
namespace Driver
open HW.Proc

def lifeCase (inp impl : String) : CaseOut :=
  let ws := words inp
  match kv ws "plan" with
  | none => bad "plan"
  | some ps =>
    let plan : List String := ps.splitOn "/"
    let iw := words impl
    let res := iw.headD ""
    let sbr := (kv iw "sbr").getD "?"
    let logS := (kv iw "log").getD ""
    let entries := commaList logS
    -- parse the log into life-cycle events
    let parseEntry (e : String) : Option Ev :=
      match e.splitOn ":" with
      | [r, m] =>
        let inc := (rest r 1).toNat?.getD 0
        if m = "I" then some (.recv inc .initialized 0 true)
        else if m = "S" then some (.recv inc .started 0 true)
        else if m = "X" then some (.recv inc .stopped 0 true)
        else if m.startsWith "m" then
          match ((rest m 1).splitOn "<").headD "" |>.splitOn "." with
          | [s, j] => some (.recv inc (.user ((s.toNat?.getD 0) * 100000 + (j.toNat?.getD 0)) none) 0 true)
          | _ => none
        else none
      | _ => none
    let evs := entries.filterMap parseEntry
    -- insert the producer events the automaton expects (a new incarnation number = a new receiver)
    let withProducers : List Ev := (evs.foldl (fun (acc : List Ev × Nat) e =>
      match e with
      | .recv inc .initialized _ _ => (acc.1 ++ [Ev.producer inc, e], inc)
      | _ => (acc.1 ++ [e], acc.2)) ([], 0)).1
    let users : List (Nat × Nat × String) := entries.filterMap fun e =>
      match e.splitOn ":" with
      | [_, m] =>
        if m.startsWith "m" then
          match (rest m 1).splitOn "<" with
          | [sj, snd] => match sj.splitOn "." with
            | [s, j] => some (s.toNat?.getD 0, j.toNat?.getD 0, snd)
            | _ => none
          | _ => none
        else none
      | _ => none
    let expected : List (Nat × Nat × String) := (List.range plan.length).flatMap fun s =>
      (List.range (plan.getD s "").length).map fun j => (s, j, if s % 2 = 1 then s!"snd{s}" else "-")
    let key (u : Nat × Nat × String) : String := s!"{u.1}.{u.2.1}<{u.2.2}"
    let gotSorted := sortStrs (users.map key)
    let wantSorted := sortStrs (expected.map key)
    let perSenderOrdered := (List.range plan.length).all fun s =>
      let js := (users.filter (·.1 = s)).map (·.2.1)
      js == (js.toArray.qsort (· < ·)).toList
    let booms := (plan.map fun p => (p.toList.filter (· = 'b')).length).sum
    let incs := (evs.filterMap fun e => match e with | .recv inc .initialized _ _ => some inc | _ => none).length
    let lastIsX := match evs.getLast? with | some (.recv _ .stopped _ _) => true | _ => false
    -- the successor spawned (with default options) by the final Stopped handler: 80 messages, one at a time, in order
    let succ := (kv iw "succ").getD "none"
    let fails : List String :=
      (if (kv iw "ovl") = some "1" then ["C02 two Receive calls of the actor (any incarnations) overlapped in time"] else []) ++
      (if res = "done" && succ = "OVERLAP" then ["C02 two Receive calls of the actor spawned by the final Stopped handler overlapped in time"] else []) ++
      (if res = "done" && succ ≠ "ok" && succ ≠ "OVERLAP" then [s!"C01+C03 the actor spawned by the final Stopped handler did not handle its 80 messages once each, in order: {succ}"] else []) ++
      (if res ≠ "done" then [s!"C07 stop/poison context: {res}"] else []) ++
      (if sbr ≠ "1" then ["C04 Spawn returned before Started had been handled"] else []) ++
      (if !lifecycleOK withProducers then ["C04 life-cycle shape violated in the actor's own log"] else []) ++
      (if !lastIsX then ["C04+C07 the context became done but Stopped is not the last thing the actor handled"] else []) ++
      (if gotSorted ≠ wantSorted then [s!"C01+C05 deliveries are not exactly the messages sent, once each, with their senders: got {gotSorted.length} want {wantSorted.length}"] else []) ++
      (if (kv ws "end") = some "poison" && res = "done" && wantSorted.any (fun k => !gotSorted.contains k) then
         ["C07 the Poison context became done although a message sent before the Poison call was never handled"] else []) ++
      (if !perSenderOrdered then ["C01+C05 messages of one sender were handled out of order (across restarts)"] else []) ++
      (if incs ≠ booms + 1 then [s!"C05+C06 {incs} incarnations for {booms} crashes"] else [])
    -- the verdict starts with all property labels concerned: FAIL:C04+C07+… <messages>
    let labels := (fails.flatMap fun f => ((f.splitOn " ").headD "").splitOn "+").eraseDups
    let spec := if fails.isEmpty then "ok" else
      "FAIL:" ++ String.intercalate "+" labels ++ " " ++ String.intercalate " | " fails
    let canon := s!"done sbr=1 incarnations={booms + 1} deliveries={wantSorted.length}"
    let view := s!"{res} sbr={sbr} incarnations={incs} deliveries={gotSorted.length}"
    { model := canon, spec := spec, implView := view,
      tags := [s!"senders{min plan.length 4}", if booms = 0 then "no-crash" else s!"crashes{min booms 4}", (kv ws "end").getD "?"],
      nontrivial := wantSorted.length ≥ 2 }

/-- stream ctxapi (C01): `n=<k> mode=<r|s|f|m> inbox=<size>`: one actor makes k successive Respond / Send /
    Forward calls to one target inside one Receive; the target must see them exactly once, in order, with
    the documented sender (Respond: none; Send and Forward: the calling actor "server/s"). One sender, one
    target: the expected log is fully determined (C01.exactly_once_in_order + sender_program_order). -/
def ctxApiCase (inp impl : String) : CaseOut :=
  let ws := words inp
  match kvNat ws "n", kv ws "mode" with
  | some n, some "b" =>
    -- n actors (two engines of one process) are inside Receive; a message to an idle actor of a third engine is delivered:
    -- inboxes share nothing (the inbox model has no state outside one inbox; C03.no_idle_backlog needs no other actor to move)
    { model := "delivered",
      spec := if impl = "delivered" then "ok" else s!"FAIL:C01+C03 {impl}",
      tags := ["many-busy-actors"], nontrivial := n ≥ 2 }
  | some n, some mode =>
    let item (i : Nat) : String :=
      let m := if mode = "m" then ["r", "s", "f"].getD (i % 3) "r" else mode
      if m = "r" then s!"v{i}<-" else if m = "s" then s!"v{i}<server/s" else "burst<server/s"
    let want := String.intercalate "," ((List.range n).map fun i => item (i + 1))
    { model := want,
      spec := if impl = want then "ok" else
        s!"FAIL:C01 successive sends of one actor to one target did not arrive exactly once, in order, with their senders (n={n} mode={mode})",
      tags := [s!"mode-{mode}", if n > 1024 then "over-default-inbox" else "small"], nontrivial := n ≥ 2 }
  | _, _ => bad "fields"

end Driver
