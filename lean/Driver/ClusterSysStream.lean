import HW.Model.ClusterSys
import Driver.Util
import Driver.ClusterStream
/-
stream clustersys (C19)
  in   nodes=<id>:<k+k>,... perm=<seed> ops=<op>,...
       op ::= join<id> | leave<id> | act<node>.<kind>.<id>.<sel|n> | dea<node>.<kind>.<id> | spw<node>.<kind>.<id>
  impl per op: <res> <node>{<GetActiveByID hits>|p=<by kind> q=<by kind>} ... log=<spawn/stop records sorted>
The pool of held notifications is kept in canonical (sorted) order on both sides and the next one to
deliver is chosen with the same splitmix64 stream, so the arrival order is replayed exactly.
-/
namespace Driver
open HW.Cluster HW.ClusterSys

def smNext (s : UInt64) : UInt64 × UInt64 :=
  let s := s + 0x9e3779b97f4a7c15
  let z := s
  let z := (z ^^^ (z >>> 30)) * 0xbf58476d1ce4e5b9
  let z := (z ^^^ (z >>> 27)) * 0x94d049bb133111eb
  (s, z ^^^ (z >>> 31))

def pidStr (p : Pid) : String := p.1 ++ "~" ++ p.2

def noteKey (e : String × Note) : String :=
  match e.2 with
  | .activation p => e.1 ++ "|A|" ++ pidStr p
  | .deactivation p => e.1 ++ "|D|" ++ pidStr p
  | .topology ps => e.1 ++ "|T|" ++ String.intercalate "+" (sortStrs (ps.map pidStr))

def sortPool (pool : List (String × Note)) : List (String × Note) :=
  let arr := pool.toArray.qsort (fun a b => noteKey a < noteKey b)
  arr.toList

partial def drainAll (s : Sys) (rng : UInt64) : Sys × UInt64 :=
  if s.pool.isEmpty then (s, rng) else
  let s := { s with pool := sortPool s.pool }
  let (rng, r) := smNext rng
  let i := (r % (UInt64.ofNat s.pool.length)).toNat
  drainAll (deliver s i) rng

def sysKinds : List String := ["p", "q", "pp"]   -- one kind name is a prefix of another
def sysIds : List String := ["1", "2", "e/7"]   -- an id may contain "/" (only kind names may not)

def observeSys (s : Sys) (order live : List String) : String :=
  let parts := order.filterMap fun id =>
    if !live.contains id then none else
    match getNode s id with
    | none => none
    | some n =>
      let byId := (sysKinds.flatMap fun k => sysIds.filterMap fun i => (getActiveByID n (key k i)).map pidStr)
      let byKind := sysKinds.map fun k => k ++ "=" ++ String.intercalate "+" (sortStrs ((getActiveByKind n k).map pidStr))
      some (id ++ "{" ++ String.intercalate "+" byId ++ "|" ++ String.intercalate " " byKind ++ "}")
  String.intercalate " " parts ++ " log=" ++ String.intercalate "," (sortStrs s.log)

def clusterSysCase (inp impl : String) : CaseOut :=
  let ws := words inp
  match kv ws "nodes", kv ws "ops" with
  | some cfg, some opsS =>
    let seed := (kvNat ws "perm").getD 0
    let nodes : List Node := (cfg.splitOn ",").map fun tok =>
      match tok.splitOn ":" with
      | [id, ks] => { id := id, host := "h" ++ id ++ ":1", localKinds := plusList ks, agent := { kinds := plusList ks } }
      | _ => { id := tok, host := "h" ++ tok ++ ":1", localKinds := [] }
    let order := nodes.map (·.id)
    let memberOf (id : String) : Member :=
      match nodes.find? (·.id = id) with
      | some n => { id := id, host := n.host, kinds := n.localKinds }
      | none => { id := id, host := "?", kinds := [] }
    let ops := commaList opsS
    let stepOp (acc : Sys × UInt64 × List String × List String × List String × List String) (op : String) :=
      let (s, rng, live, gone, out, tags) := acc
      let s := { s with log := [] }
      let pushSnaps (s : Sys) (live : List String) : Sys :=
        let liveOrdered := order.filter live.contains
        liveOrdered.foldl (fun s id => snapshot s id (liveOrdered.map memberOf)) s
      let finish (s : Sys) (res : String) (live gone : List String) (tag : String) :=
        let (s', rng') := drainAll s rng
        (s', rng', live, gone, out ++ [res ++ " " ++ observeSys s' order live], tags ++ [tag])
      if op.startsWith "join" then
        let id := rest op 4
        if order.contains id && !live.contains id && !gone.contains id then
          let live' := live ++ [id]
          finish (pushSnaps s live') "ok" live' gone "join"
        else finish s "skip" live gone "skip"
      else if op.startsWith "leave" then
        let id := rest op 5
        if live.contains id then
          let live' := live.erase id
          finish (pushSnaps (removeNode s id) live') "ok" live' (id :: gone) "leave"
        else finish s "skip" live gone "skip"
      else
        let f := (rest op 3).splitOn "."
        let kind3 := (op.take 3).toString
        match f with
        | nid :: kind :: id :: more =>
          if !live.contains nid then finish s "skip" live gone "skip" else
          if kind3 = "act" then
            let sel : Option Nat := match more with | [x] => x.toNat? | _ => none
            let (s', r) := activate s nid kind id sel
            finish s' ("ret=" ++ (match r with | some p => pidStr p | none => "nil")) live gone (if r.isSome then "activate.ok" else "activate.nil")
          else if kind3 = "dea" then
            match (getNode s nid).bind (fun n => getActiveByID n (key kind id)) with
            | some p => finish (deactivate s nid p) ("deact=" ++ pidStr p) live gone "deactivate"
            | none => finish s "deact=nil" live gone "deactivate.unknown"
          else if kind3 = "spw" then
            let (s', r) := clusterSpawn s nid kind id
            finish s' ("ret=" ++ (match r with | some p => pidStr p | none => "nil")) live gone "cluster-spawn"
          else finish s "bad-op" live gone "bad"
        | _ => finish s "bad-op" live gone "bad"
    let (_, _, _, _, out, tags) := ops.foldl stepOp ({ nodes := nodes }, UInt64.ofNat seed, [], [], [], [])
    let model := String.intercalate ";" out
    let implL := impl.splitOn ";"
    let firstBad := (List.range (max out.length implL.length)).find? fun i => out[i]? ≠ implL[i]?
    let spec := match firstBad with
      | none => "ok"
      | some i => s!"FAIL:C19 after op#{i} {ops.getD i "?"}: implementation [{implL.getD i "?"}] expected [{out.getD i "?"}]"
    { model := model, spec := spec, tags := tags.eraseDups ++ [s!"nodes{nodes.length}"], nontrivial := tags.contains "activate.ok" }
  | _, _ => bad "fields"

end Driver
