import HW.Model.Proc
import HW.Spec.Lifecycle
import Driver.Util
/-
stream proc (C04, C05, C06, C07, C13)
  in   max=<n> mw=<k> script=<o|p|i>,... hist=<item>,...   item ::= u<k>s<j|-> | pg<id> | pn<id> | "|" (batch boundary)
  impl P<inc>;R<inc>:<I|S|X|u<k>>:<sender|->:<mw ids>:<reg>;E:<kind>:<reg>;C<id>:<reg>;is:<reg>;iS+;iS-;esc;end:open=<b>:reg=<b>
-/
namespace Driver
open HW.Proc

def parseOutcome : String → Option Outcome
  | "o" => some .ok | "p" => some .panic | "i" => some .ierr | _ => none

def parseHist (items : List String) : Option (List (List Msg)) :=
  let rec go (its : List String) (cur : List Msg) (acc : List (List Msg)) : Option (List (List Msg)) :=
    match its with
    | [] => some (acc ++ [cur])
    | it :: rest =>
      if it = "|" then go rest [] (acc ++ [cur])
      else if it.startsWith "pg" then (Driver.rest it 2).toNat?.bind fun id => go rest (cur ++ [.pill id true]) acc
      else if it.startsWith "pn" then (Driver.rest it 2).toNat?.bind fun id => go rest (cur ++ [.pill id false]) acc
      else if it.startsWith "u" then
        match (Driver.rest it 1).splitOn "s" with
        | [k, s] => k.toNat?.bind fun kk =>
            if s = "-" then go rest (cur ++ [.user kk none]) acc
            else s.toNat?.bind fun ss => go rest (cur ++ [.user kk (some ss)]) acc
        | _ => none
      else none
  go items [] []

def mwIds (n : Nat) : String := String.join ((List.range n).map toString)

def b01 (b : Bool) : String := if b then "1" else "0"

def showLMsg : LMsg → String
  | .initialized => "I" | .started => "S" | .stopped => "X"
  | .user k _ => s!"u{k}"

def showSender : LMsg → String
  | .user _ (some s) => toString s
  | _ => "-"

def showKind : EvKind → String
  | .initialized => "init" | .started => "started" | .stopped => "stopped"
  | .restarted n => s!"restarted{n}" | .maxRestarts => "max"

/-- render the model trace in the harness' token syntax (`unregister` is not directly observable:
    it shows as the registered flag of the following tokens). -/
def renderTrace (tr : List Ev) : List String :=
  let rec go (tr : List Ev) (reg : Bool) (acc : List String) : List String :=
    match tr with
    | [] => acc.reverse
    | e :: rest =>
      match e with
      | .producer n => go rest reg (s!"P{n}" :: acc)
      | .recv inc m mw r => go rest reg (s!"R{inc}:{showLMsg m}:{showSender m}:{mwIds mw}:{b01 r}" :: acc)
      | .ev k => go rest reg (s!"E:{showKind k}:{b01 reg}" :: acc)
      | .cancel id => go rest reg (s!"C{id}:{b01 reg}" :: acc)
      | .inboxStop => go rest reg (s!"is:{b01 reg}" :: acc)
      | .inboxStart ok => go rest reg ((if ok then "iS+" else "iS-") :: acc)
      | .unregister => go rest false acc
  go tr true []

/-- parse the implementation's tokens back into events (inserting `unregister` where the registered
    flag drops); returns events, whether a panic escaped, whether a token was malformed / carried a
    harness flag, and the end state. -/
structure ImplTrace where
  evs : List Ev := []
  escaped : Bool := false
  flags : List String := []
  open_ : Bool := false
  reg : Bool := true
  ended : Bool := false

def parseImpl (mwLen : Nat) (impl : String) : ImplTrace :=
  let toks := if impl = "" then [] else impl.splitOn ";"
  let step (st : ImplTrace × Bool) (tok : String) : ImplTrace × Bool :=
    let (t, reg) := st
    let flagged := (tok.splitOn "!").length > 1
    let tok0 := (tok.splitOn "!").headD ""
    let t := if flagged then { t with flags := t.flags ++ [tok] } else t
    let withReg (t : ImplTrace) (r : String) : ImplTrace × Bool :=
      if reg && r = "0" then ({ t with evs := t.evs ++ [.unregister] }, false) else (t, reg && r ≠ "0" || (!reg && r = "1"))
    let fs := tok0.splitOn ":"
    match fs with
    | ["esc"] => ({ t with escaped := true }, reg)
    | ["iS+"] => ({ t with evs := t.evs ++ [.inboxStart true] }, reg)
    | ["iS-"] => ({ t with evs := t.evs ++ [.inboxStart false] }, reg)
    | ["is", r] => let (t, reg) := withReg t r; ({ t with evs := t.evs ++ [.inboxStop] }, reg)
    | ["end", o, r] => ({ t with open_ := o = "open=1", reg := r = "reg=1", ended := true }, reg)
    | ["E", k, r] =>
      let (t, reg) := withReg t r
      let kind : Option EvKind :=
        if k = "init" then some .initialized else if k = "started" then some .started
        else if k = "stopped" then some .stopped else if k = "max" then some .maxRestarts
        else if k.startsWith "restarted" then (Driver.rest k 9).toNat?.map .restarted else none
      match kind with
      | some kd => ({ t with evs := t.evs ++ [.ev kd] }, reg)
      | none => ({ t with flags := t.flags ++ [tok] }, reg)
    | [r0, m, snd, mw, r] =>
      if r0.startsWith "R" then
        let (t, reg) := withReg t r
        let inc := (Driver.rest r0 1).toNat?.getD 0
        let sender := snd.toNat?
        let lm : Option LMsg :=
          if m = "I" then some .initialized else if m = "S" then some .started else if m = "X" then some .stopped
          else if m.startsWith "u" then (Driver.rest m 1).toNat?.map (fun k => .user k sender) else none
        -- the chain must have been entered completely and in the configured order
        let mwN := if mw = mwIds mw.length then mw.length else 1000 + mwLen
        match lm with
        | some l => ({ t with evs := t.evs ++ [.recv inc l mwN (r = "1")] }, reg)
        | none => ({ t with flags := t.flags ++ [tok] }, reg)   -- e.g. a poison pill reached Receive
      else ({ t with flags := t.flags ++ [tok] }, reg)
    | [c, r] =>
      if c.startsWith "C" then
        let (t, reg) := withReg t r
        match (Driver.rest c 1).toNat? with
        | some id => ({ t with evs := t.evs ++ [.cancel id] }, reg)
        | none => ({ t with flags := t.flags ++ [tok] }, reg)
      else ({ t with flags := t.flags ++ [tok] }, reg)
    | [p] =>
      if p.startsWith "P" then
        match (Driver.rest p 1).toNat? with
        | some n => ({ t with evs := t.evs ++ [.producer n] }, reg)
        | none => ({ t with flags := t.flags ++ [tok] }, reg)
      else ({ t with flags := t.flags ++ [tok] }, reg)
    | _ => ({ t with flags := t.flags ++ [tok] }, reg)
  (toks.foldl step ({}, true)).1

def procCase (inp impl : String) : CaseOut :=
  let ws := words inp
  match kvNat ws "max", kvNat ws "mw" with
  | some max, some mw =>
    let scriptS := match kv ws "script" with | some s => commaList s | none => []
    let histS := match kv ws "hist" with | some s => commaList s | none => []
    match scriptS.mapM parseOutcome, parseHist histS with
    | some script, some batches0 =>
      let batches := batches0.filter (· ≠ [])
      let (s, esc) := runHistory max mw script batches
      let toks := renderTrace s.trace ++ (if esc.isSome then ["esc"] else []) ++
        [s!"end:open={b01 s.inboxOpen}:reg={b01 s.registered}"]
      let model := String.intercalate ";" toks ++ (if s.fuelOut then ";FUEL-OUT" else "")
      -- ---- property monitors on the implementation's trace ----
      let it := parseImpl mw impl
      let tr := it.evs
      let alive := it.open_ && it.reg
      let nPills := (pillsOf batches.flatten).length
      -- every acceptor is evaluated on its own; the verdict names all properties that fail
      let checks : List (String × Bool × String) := [
        ("harness", it.ended, "no end record"),
        ("C05", !it.escaped, "a panic escaped the actor"),
        ("C06", !(it.escaped && tr.contains (.ev .maxRestarts)), "a panic escaped after the restart budget was exhausted"),
        ("C07", it.flags.isEmpty, s!"malformed or flagged token {it.flags.headD ""} (a poison pill visible to Receive?)"),
        ("C03", !(it.reg && !it.open_), "the actor is still registered (what senders send is accepted) but its inbox is not open: accepted messages are never handled"),
        ("C02", noReopen tr, "the inbox was re-opened after it had been stopped (a second worker can run: mutual exclusion is lost)"),
        ("C04", noReopen tr && lifecycleOK tr, "life-cycle shape violated (Initialized, Started, messages, one final Stopped per incarnation; nothing afterwards)"),
        ("C05", lifecycleOK tr || (restartNumbers tr).isEmpty,
           "after a restart the fresh incarnation was not the one that received what followed (life-cycle shape violated across a restart)"),
        ("C13", allWrapped mw tr, "a delivery bypassed (part of) the middleware chain or ran it out of order"),
        ("C13", chainTargetOK 0 tr, "the middleware chain ended at a receiver that is not the current incarnation (chain composed around an earlier receiver)"),
        ("C05", replayPrefixOK batches tr, s!"user deliveries {repr (userRecvs tr)} are not a prefix of the history (lost, duplicated, reordered or wrong sender)"),
        ("C05", replayCompleteOK batches tr alive, "actor alive at the end but not every message was delivered"),
        ("C05+C06", restartsOK max tr, "restart events not numbered 1..n (C05: each ActorRestartedEvent carries the incremented count) or more than MaxRestarts (C06)"),
        ("C06", afterMaxOK tr && (!tr.contains (.ev .maxRestarts) || (!it.open_ && !it.reg)),
           "budget exhausted but the actor was not stopped cleanly (inbox stop, unregister, one Stopped, stopped event, nothing afterwards)"),
        ("C07", cancelOK batches tr, "a stop context became done before Stopped+unregistration (or before the drain)")]
      let failed := checks.filter fun c => !c.2.1
      let pillFail : List (String × Bool × String) :=
        if !failed.isEmpty || allPillsCancelled batches tr then []
        else if tr.contains (.ev .maxRestarts) || !(cancelsOf tr).isEmpty then
          [("C07", false, s!"pill left behind: never cancelled because the actor was stopped by another pill or by the restart budget first (pills={nPills})")]
        else [("C07", false, s!"pill lost: never cancelled although nothing else stopped the actor (pills={nPills})")]
      let allFailed := failed ++ pillFail
      let spec := if allFailed.isEmpty then "ok" else
        "FAIL:" ++ String.intercalate "+" (allFailed.map (·.1)).eraseDups ++ " " ++ String.intercalate " | " (allFailed.map (·.2.2))
      let nPanics := (script.filter (· ≠ .ok)).length
      let rs := restartNumbers s.trace
      let tags :=
        [s!"max{max}", s!"mw{mw}", s!"pills{min nPills 3}", s!"restarts{min rs.length 4}",
         if s.trace.contains (.ev .maxRestarts) then "budget-exhausted" else "budget-left",
         if s.stopped then "ended-stopped" else "ended-alive",
         if s.trace.contains (.inboxStart false) then "inboxStart-noop" else "no-inboxStart-noop",
         if script.contains .ierr then "has-internal-error" else "no-internal-error",
         s!"batches{min batches.length 3}"]
      { model := model, spec := spec, tags := tags, nontrivial := nPanics ≥ 1 || nPills ≥ 1 }
    | _, _ => bad "script/hist"
  | _, _ => bad "fields"

/-- stream mwopts (C13): `WithMiddleware(common...)` + `WithMiddleware(own)` for several actors built from
    one shared slice: each actor runs common ++ [its own], in that order (HW.Mw.run_apply). -/
def mwOptsCase (inp impl : String) : CaseOut :=
  let ws := words inp
  match kvNat ws "common", kvNat ws "actors" with
  | some nc, some na =>
    let chain (a : Nat) : String :=
      String.intercalate "." ((List.range nc).map (fun i => s!"c{i}") ++ [s!"own{a}"])
    let want := String.intercalate ";" ((List.range na).map chain)
    { model := want,
      spec := if impl = want then "ok" else s!"FAIL:C13 an actor does not run the middleware chain given at its spawn: [{impl}] expected [{want}]",
      tags := [s!"common{nc}", s!"actors{na}", if (kvNat ws "child") = some 1 then "spawned-as-child" else "spawned-by-engine"], nontrivial := na ≥ 2 }
  | _, _ => bad "fields"

end Driver
