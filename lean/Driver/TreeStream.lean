import HW.Model.Tree
import Driver.Util
import Driver.ClusterStream
/-
stream tree (C08)
  in   ops=<op>,...   op ::= rt<name> | rx<name> | ry<name> | sc<path>:<name> | ch<path> | st<path> | po<path> | ss<path> | cr<path> | hp<path> | rh<path> | tp<path> | zs<path>
       (a path is dot separated: r.a.b)
  impl ok | spawned=<id> | children=<ids> parent=<id|-> | done order=X:<path>:<registered>,... | HANG order=... | held | released | skip
The order in which siblings are shut down is Go map order: the model column is compared with a
canonical view (sorted set of stopped nodes); the ACTUAL order is judged by `HW.Tree.postorderOK`.
stream childsched (C08)
  in   progs=<op.op|op.op> sched=<tid>,...    op ::= c (Children()) | s<k> (Set) | d<k> (Delete)
  impl t<tid>:<rlock|lock>;...;end:<results per thread>
-/
namespace Driver
open HW.Tree

def parsePath (s : String) : Path := s.splitOn "."
def showPath (p : Path) : String := String.intercalate "." p

def treeId (p : Path) : String :=
  match p with
  | [] => ""
  | r :: rest => rest.foldl (fun acc n => acc ++ "/" ++ n ++ "/n") (r ++ "/n")

structure TreeSt where
  live : List Path := []
  pilled : List Path := []     -- nodes held inside Receive with a poison pill queued behind
  budget : Nat := 0            -- MaxRestarts of every actor of the history (ry roots: 1)
  crashed : List Path := []    -- actors that have used up their one restart

def treeCase (inp impl : String) : CaseOut :=
  let ws := words inp
  match (kv ws "ops").map commaList with
  | none => bad "ops"
  | some ops =>
    let implL := impl.splitOn ";"
    let stepOp (acc : TreeSt × List String × List String × List String × List String × Nat) (op : String) :=
      let (st, out, view, fails, tags, i) := acc
      let got := implL.getD i ""
      let kind := (op.take 2).toString
      let arg := rest op 2
      let plain (st : TreeSt) (o : String) (tag : String) := (st, out ++ [o], view ++ [got], fails, tags ++ [tag], i + 1)
      if kind = "rt" then plain { st with live := st.live ++ [[arg]] } "ok" "root"
      -- rx: as rt; the user context given WithContext is already cancelled, which has no bearing on the tree
      else if kind = "rx" then plain { st with live := st.live ++ [[arg]] } "ok" "root-with-cancelled-user-context"
      -- ry: as rt; every actor of the history has a restart budget of 1
      else if kind = "ry" then plain { st with live := st.live ++ [[arg]], budget := 1 } "ok" "root-with-restart-budget"
      -- the first crash of an actor within its budget: restarted, still registered, its children still its children
      else if kind = "cr" && st.budget = 1 && st.live.contains (parsePath arg) && !st.crashed.contains (parsePath arg) then
        let p := parsePath arg
        let cs := sortStrs ((childrenOf st.live p).map treeId)
        let par := if p.length ≤ 1 then "-" else treeId p.dropLast
        plain { st with crashed := p :: st.crashed } ("restarted children=" ++ String.intercalate "+" cs ++ " parent=" ++ par) "crash-within-budget"
      else if kind = "sc" then
        match arg.splitOn ":" with
        | [ps, name] =>
          let p := parsePath ps
          let c := p ++ [name]
          if st.live.contains p && !st.live.contains c then plain { st with live := st.live ++ [c] } ("spawned=" ++ treeId c) "spawn-child"
          else plain st "skip" "skip"
        | _ => plain st "bad-op" "bad"
      else if kind = "sd" then
        match arg.splitOn ":" with
        | [ps, name] =>
          let p := parsePath ps
          if st.live.contains p && st.live.contains (p ++ [name]) then plain st ("dup=" ++ treeId (p ++ [name]) ++ " dupev=1") "spawn-child-duplicate"
          else plain st "skip" "skip"
        | _ => plain st "bad-op" "bad"
      else if kind = "sx" then
        match arg.splitOn ":" with
        | [ps, name] =>
          let p := parsePath ps
          if st.live.contains p && !st.live.contains (p ++ [name]) then plain st ("spawned-dead=" ++ treeId (p ++ [name])) "spawn-child-dies-in-start"
          else plain st "skip" "skip"
        | _ => plain st "bad-op" "bad"
      else if kind = "ch" then
        let p := parsePath arg
        if !st.live.contains p then plain st "skip" "skip" else
        let cs := sortStrs ((childrenOf st.live p).map treeId)
        let par := if p.length ≤ 1 then "-" else treeId p.dropLast
        plain st ("children=" ++ String.intercalate "+" cs ++ " parent=" ++ par) (if cs.isEmpty then "children.none" else "children.some")
      -- zs: the node's Stopped handler becomes slow (1.3 s): no effect on what must happen, only on how long it takes
      else if kind = "zs" then
        if st.live.contains (parsePath arg) then plain st "slow" "slow-stopped-handler" else plain st "skip" "skip"
      else if kind = "hp" then
        let p := parsePath arg
        if st.live.contains p then plain { st with pilled := p :: st.pilled } "held" "hold-with-pill" else plain st "skip" "skip"
      else if kind = "rh" then
        let p := parsePath arg
        if st.pilled.contains p then
          -- the held node handles its own pill now and goes, with its subtree
          plain { st with live := stopAt st.live p, pilled := st.pilled.erase p, crashed := st.crashed.filter (fun q => !(q = p || below q p)) } "released" "release"
        else plain st "skip" "skip"
      else if kind = "st" || kind = "po" || kind = "ss" || kind = "cr" || kind = "tp" || kind = "tq" then
        let p := parsePath arg
        if !st.live.contains p then plain st "skip" "skip" else
        -- tp: the parent shuts down and, while it waits for a slow child, a third party stops a sibling: needs
        -- two children and nothing held below; the outcome is that of any other shutdown of the subtree
        if (kind = "tp" || kind = "tq") && ((childrenOf st.live p).length < 2 || st.pilled.any fun h => h = p || below h p) then plain st "skip" "skip" else
        let sub := subtreeOf st.live p
        let blocked := st.pilled.any fun h => below h p
        -- what the implementation printed
        let (res, orderS) := match got.splitOn " order=" with
          | [r, o] => (r, o)
          | _ => (got, "")
        let entries := (commaList orderS).filterMap fun e =>
          match e.splitOn ":" with
          | ["X", ps, reg] => some (parsePath ps, reg)
          | _ => none
        let trace : List Ev := entries.flatMap fun e => (if e.2 = "0" then [Ev.unregister e.1] else []) ++ [Ev.stopped e.1]
        let overlap := (commaList orderS).filter (·.startsWith "O:")
        let stoppedSorted := sortStrs (entries.map (showPath ·.1))
        let canon := res ++ " stopped=" ++ String.intercalate "+" stoppedSorted
        if blocked then
          -- the code as it is: the parent sends a second pill to a child that already has one; that
          -- pill is never cancelled and the parent waits forever (known finding KF-D12)
          let model := "HANG stopped="
          let fail := if res = "HANG" then ["C08 parent shutdown hangs: a descendant already had a poison pill queued (third-party poison), op#" ++ toString i]
                      else []
          (st, out ++ [model], view ++ [canon], fails ++ fail, tags ++ ["stop.blocked-by-pilled-child"], i + 1)
        else
          let model := "done stopped=" ++ String.intercalate "+" (sortStrs (sub.map showPath))
          let post := postorderOK sub [] trace
          let fail :=
            (if !overlap.isEmpty then [s!"C02 op#{i} {op}: two Receive calls of one actor overlapped in time ({String.intercalate "," overlap}): Stopped was delivered while the actor was still inside Receive"] else []) ++
            (if res ≠ "done" then [s!"C08 op#{i} {op}: {res}"] else []) ++
            (if !post then [s!"C08 op#{i} {op}: not a post-order (a parent handled Stopped before a descendant had stopped and been unregistered): {orderS}"] else []) ++
            (if stoppedSorted ≠ sortStrs (sub.map showPath) then [s!"C08 op#{i} {op}: stopped {stoppedSorted} but the subtree is {sortStrs (sub.map showPath)}"] else [])
          ({ st with live := stopAt st.live p, crashed := st.crashed.filter (fun q => !(q = p || below q p)) }, out ++ [model], view ++ [canon], fails ++ fail,
            tags ++ [s!"stop.{kind}", s!"subtree{min sub.length 6}", s!"depth{min ((sub.map List.length).foldl max 0 - p.length) 3}"], i + 1)
      else plain st "bad-op" "bad"
    let (_, out, view, fails, tags, _) := ops.foldl stepOp ({}, [], [], [], [], 0)
    let model := String.intercalate ";" out
    let implView := String.intercalate ";" view
    -- per-op answers that are not shutdowns are judged by equality with the model (children / parent)
    let firstBad := (List.range (max out.length view.length)).find? fun i => out[i]? ≠ view[i]?
    let fails2 := match firstBad with
      | some i =>
        -- after a duplicate SpawnChild the difference is also C10's ("a duplicate spawn changes nothing")
        -- (and C12's when it is the duplicate-id event that is missing or doubled)
        let lbl := if ((view.getD i "").splitOn "bystander").length > 1 then "C06+C08+C10"
                   else if (ops.getD i "").startsWith "sd" then "C08+C10+C12"
                   else if (ops.take (i + 1)).any (·.startsWith "sd") then "C08+C10" else "C08"
        if fails.isEmpty then [s!"{lbl} op#{i} {ops.getD i "?"}: implementation [{view.getD i "?"}] expected [{out.getD i "?"}]"] else []
      | none => []
    let allFails := fails ++ fails2
    -- the properties concerned lead the verdict: C08 / C10 / C02 as labelled per failure; in a history with a restart
    -- budget every failure is also C06's ("the actor and its children are stopped and unregistered" once the budget is spent)
    let labels := ((allFails.flatMap fun f => ((f.splitOn " ").headD "").splitOn "+") ++
      (if ops.any (·.startsWith "ry") then ["C06"] else [])).eraseDups
    let spec := if allFails.isEmpty then "ok" else "FAIL:" ++ String.intercalate "+" labels ++ " " ++ String.intercalate " | " allFails
    { model := model, spec := spec, tags := tags.eraseDups, implView := implView,
      nontrivial := tags.any (·.startsWith "subtree") }

def childSchedCase (inp impl : String) : CaseOut :=
  let ws := words inp
  match kv ws "progs" with
  | none => bad "progs"
  | some ps =>
    let progs : List (List String) := (ps.splitOn "|").map fun p => if p = "" then [] else p.splitOn "."
    let sched : List Nat := match kv ws "sched" with
      | some s => (commaList s).filterMap String.toNat?
      | none => []
    let stepT (st : List String × List (List String) × List (List String) × List String) (tid : Nat) :=
      let (kids, rem, res, log) := st
      match rem[tid]? with
      | some (op :: ops') =>
        let rem' := rem.set tid ops'
        let addRes (r : String) := res.set tid ((res.getD tid []) ++ [r])
        if op = "c" then (kids, rem', addRes ("c[" ++ String.intercalate "+" (sortStrs kids) ++ "]"), log ++ [s!"t{tid}:rlock"])
        else if op.startsWith "s" then ((if kids.contains (rest op 1) then kids else kids ++ [rest op 1]), rem', addRes "s", log ++ [s!"t{tid}:lock"])
        else if op.startsWith "d" then (kids.erase (rest op 1), rem', addRes "d", log ++ [s!"t{tid}:lock"])
        else (kids, rem', res, log ++ [s!"t{tid}:bad"])
      | _ => (kids, rem, res, log ++ [s!"t{tid}:none"])
    let (_, _, res, log) := sched.foldl stepT (["k0"], progs, progs.map (fun _ => []), [])
    let model := String.intercalate ";" (log ++ ["end:" ++ String.intercalate "|" (res.map (String.intercalate "."))])
    let bad := (impl.splitOn "NIL").length > 1 || (impl.splitOn "PANIC").length > 1
    { model := model,
      spec := if bad then "FAIL:C08 Children() returned a nil entry or panicked while a child was added/removed concurrently" else "ok",
      tags := [s!"threads{progs.length}"], nontrivial := sched.length ≥ 3 }

end Driver
