#!/usr/bin/env python3
"""
bin/check <Cxx> quick|thorough [--replay <file>]

Pipeline (DESIGN.md section 2.5):
  1. regenerate HW/Generated/Facts.lean from the repository source, build the property's Lean
     modules, audit `#print axioms` and grep for forbidden constructs          -> proof status
  2. build the Go harness against the repository's current working tree (overlay injection)
  3. run the harness (real code) -> *.cases; run hwdriver (Lean model + spec) on them
  4. verdict: correspondence (impl == model), spec monitor (impl satisfies the property's spec)
  5. known findings are printed as KNOWN-FINDING lines; anything else is a VIOLATION with a replay
  6. write evidence/<Cxx>.json
"""
import fcntl
import hashlib
import json
import os
import re
import shutil
import subprocess
import sys
import time

VERIF = os.path.dirname(os.path.dirname(os.path.abspath(__file__)))
REPO = os.environ.get("HW_REPO", "/repo")
LEAN = os.path.join(VERIF, "lean")
OVERLAY = os.path.join(VERIF, "harness", "overlay")
WORK = os.path.join(VERIF, "work")
MODULE = "github.com/anthdm/hollywood"

GOENV = dict(os.environ)
GOENV.update({
    "GOFLAGS": "-mod=mod", "GOPROXY": "off", "GOSUMDB": "off", "GOTOOLCHAIN": "local",
    "CGO_ENABLED": os.environ.get("CGO_ENABLED", "0"),
})

ALLOWED_AXIOMS = {"propext", "Classical.choice", "Quot.sound"}
FORBIDDEN = re.compile(r"\b(sorry|admit|native_decide|bv_decide|implemented_by|unsafe)\b|^\s*axiom\s|maxHeartbeats\s+0\b")

TRUSTED_BASE = [
    "Lean 4.33.0 kernel (type checker); thorough tier re-checks the .olean files with leanchecker",
    "axioms allowed in property theorems: propext, Classical.choice, Quot.sound (audited with #print axioms on every run); no native_decide, no bv_decide, no sorry",
    "the hand-written Lean model is tied to the Go code only by the correspondence run of this check (differential, finite) and by the regenerated facts in HW/Generated/Facts.lean (go/ast extractor)",
    "Go runtime semantics assumed: sync.Mutex mutual exclusion, sync/atomic sequential consistency, defer/recover order, channels, context cancellation",
]


def sh(cmd, cwd=None, env=None, timeout=None, inp=None):
    p = subprocess.run(cmd, cwd=cwd, env=env, timeout=timeout, input=inp,
                       stdout=subprocess.PIPE, stderr=subprocess.STDOUT, text=True, errors="replace")
    return p.returncode, p.stdout


class Lock:
    def __init__(self, name):
        os.makedirs(WORK, exist_ok=True)
        self.path = os.path.join(WORK, name + ".lock")

    def __enter__(self):
        self.f = open(self.path, "w")
        fcntl.flock(self.f, fcntl.LOCK_EX)

    def __exit__(self, *a):
        fcntl.flock(self.f, fcntl.LOCK_UN)
        self.f.close()


# ----------------------------------------------------------------------------------------------
# Lean side
# ----------------------------------------------------------------------------------------------

def lean_imports(module, seen=None):
    """transitive closure of HW.* / Driver.* imports of a module (source files)."""
    seen = seen if seen is not None else {}
    if module in seen:
        return seen
    path = os.path.join(LEAN, module.replace(".", "/") + ".lean")
    if not os.path.exists(path):
        return seen
    seen[module] = path
    for line in open(path):
        m = re.match(r"\s*import\s+((HW|Driver)\.[\w.]+)", line)
        if m:
            lean_imports(m.group(1), seen)
    return seen


def strip_comments(src):
    src = re.sub(r"/-.*?-/", lambda m: "\n" * m.group(0).count("\n"), src, flags=re.S)
    src = re.sub(r"--.*", "", src)
    return src


def theorem_names(module):
    """fully qualified names of the theorems declared in a Props module."""
    path = os.path.join(LEAN, module.replace(".", "/") + ".lean")
    src = strip_comments(open(path).read())
    ns, names = [], []
    for line in src.split("\n"):
        m = re.match(r"\s*namespace\s+(\S+)", line)
        if m:
            ns.append(m.group(1))
            continue
        m = re.match(r"\s*end\s+(\S+)", line)
        if m and ns and ns[-1] == m.group(1):
            ns.pop()
            continue
        m = re.match(r"\s*(?:@\[[^\]]*\]\s*)?(?:private\s+|protected\s+)?theorem\s+(\S+)", line)
        if m:
            names.append(".".join(ns + [m.group(1)]))
    return names


def count_theorems(paths):
    n = 0
    for p in paths:
        src = strip_comments(open(p).read())
        n += len(re.findall(r"^\s*(?:@\[[^\]]*\]\s*)?(?:private\s+|protected\s+)?(?:theorem|lemma)\s", src, flags=re.M))
        n += len(re.findall(r"^\s*example\s*:", src, flags=re.M))
    return n


def lean_stage(prop, cfg, tier, log):
    """returns dict(ok, reason, obligations, discharged, theorems, axioms, checker_cmd)"""
    res = dict(ok=True, reason="", obligations=0, discharged=0, theorems=[], axioms={}, leanchecker=None)
    modules = cfg["lean_modules"]
    targets = modules + ["hwdriver"]
    with Lock("lake"):
        if cfg.get("facts"):
            ok, why = regenerate_facts(log)
            if not ok:
                res.update(ok=False, reason="fact extraction failed: " + why)
        if tier == "thorough" and os.environ.get("HW_CLEAN_BUILD", "1") == "1" and cfg.get("clean_build", False):
            shutil.rmtree(os.path.join(LEAN, ".lake"), ignore_errors=True)
        rc, out = sh(["lake", "build"] + targets, cwd=LEAN, timeout=3000)
        log.write("== lake build " + " ".join(targets) + "\n" + out + "\n")
        files = {}
        for m in modules:
            files.update(lean_imports(m))
        res["files"] = sorted(files.values())
        res["obligations"] = count_theorems([p for m, p in files.items() if ".Props." in m or ".Proofs." in m])
        if rc != 0:
            errs = [l for l in out.split("\n") if "error" in l][:5]
            res.update(ok=False, reason="lake build failed: " + " | ".join(errs), build_log=out[-3000:])
            return res
        if "declaration uses `sorry`" in out or "declaration uses 'sorry'" in out:
            res.update(ok=False, reason="a declaration uses sorry")
            return res
        # forbidden constructs in the sources this property depends on (comments stripped)
        for m, p in files.items():
            src = strip_comments(open(p).read())
            for i, line in enumerate(src.split("\n"), 1):
                if FORBIDDEN.search(line):
                    res.update(ok=False, reason=f"forbidden construct in {p}:{i}: {line.strip()[:80]}")
                    return res
        # axiom audit
        thms = []
        for m in modules:
            thms += theorem_names(m)
        res["theorems"] = thms
        audit = os.path.join(WORK, prop, "Audit.lean")
        os.makedirs(os.path.dirname(audit), exist_ok=True)
        with open(audit, "w") as f:
            for m in modules:
                f.write(f"import {m}\n")
            for t in thms:
                f.write(f"#print axioms {t}\n")
        rc, out = sh(["lake", "env", "lean", audit], cwd=LEAN, timeout=1200)
        log.write("== axiom audit\n" + out + "\n")
        if rc != 0:
            res.update(ok=False, reason="axiom audit failed to run: " + out[-300:])
            return res
        cur = None
        text = out.replace("\n  ", " ")
        for m in re.finditer(r"'([^']+)' (depends on axioms: \[([^\]]*)\]|does not depend on any axioms)", text):
            name = m.group(1)
            axs = [a.strip() for a in (m.group(3) or "").split(",") if a.strip()]
            res["axioms"][name] = axs
            bad = [a for a in axs if a not in ALLOWED_AXIOMS]
            if bad:
                res.update(ok=False, reason=f"theorem {name} depends on non-allowed axioms {bad}")
                return res
        missing = [t for t in thms if t not in res["axioms"]]
        if missing:
            res.update(ok=False, reason=f"axiom audit produced no result for {missing[:3]}")
            return res
        if tier == "thorough":
            for m in modules:
                rc, out = sh(["lake", "env", "leanchecker", m], cwd=LEAN, timeout=3000)
                log.write(f"== leanchecker {m}\n" + out[-2000:] + "\n")
                res["leanchecker"] = (rc == 0)
                if rc != 0:
                    res.update(ok=False, reason=f"leanchecker rejected {m}: " + out[-300:])
                    return res
    if res["ok"]:
        res["discharged"] = res["obligations"]
    return res


def regenerate_facts(log):
    """go/ast extractor -> lean/HW/Generated/Facts.lean (always from the current source)."""
    gen_dir = os.path.join(LEAN, "HW", "Generated")
    os.makedirs(gen_dir, exist_ok=True)
    out_path = os.path.join(gen_dir, "Facts.lean")
    tool = os.path.join(VERIF, "harness", "extract")
    rc, out = sh(["go", "run", ".", "-repo", REPO, "-o", out_path + ".new"], cwd=tool, env=GOENV, timeout=600)
    log.write("== extract facts\n" + out + "\n")
    if rc != 0:
        return False, out[-400:]
    new = open(out_path + ".new").read()
    old = open(out_path).read() if os.path.exists(out_path) else None
    if new != old:
        os.replace(out_path + ".new", out_path)
    else:
        os.remove(out_path + ".new")
    return True, ""


# ----------------------------------------------------------------------------------------------
# Go side
# ----------------------------------------------------------------------------------------------

def overlay_json(workdir, extra=None):
    repl = {}
    for root, _, files in os.walk(OVERLAY):
        for fn in files:
            src = os.path.join(root, fn)
            rel = os.path.relpath(src, OVERLAY)
            if fn.endswith(".go") or fn.endswith(".s"):
                repl[os.path.join(REPO, rel)] = src
    if extra:
        repl.update(extra)
    p = os.path.join(workdir, "overlay.json")
    with open(p, "w") as f:
        json.dump({"Replace": repl}, f, indent=1)
    return p


def build_harness(prop, pkg, log, race=False, extra_overlay=None, tag=""):
    workdir = os.path.join(WORK, prop)
    os.makedirs(workdir, exist_ok=True)
    ov = overlay_json(workdir, extra_overlay)
    binp = os.path.join(workdir, pkg.replace("/", "_") + tag + (".race" if race else "") + ".test")
    if os.path.exists(binp):
        os.remove(binp)
    cmd = ["go", "test", "-c", "-vet=off", "-overlay", ov, "-o", binp]
    env = dict(GOENV)
    if race:
        cmd.append("-race")
        env["CGO_ENABLED"] = "1"
    cmd.append("./" + pkg)
    rc, out = sh(cmd, cwd=REPO, env=env, timeout=1200)
    log.write("== " + " ".join(cmd) + "\n" + out + "\n")
    if rc != 0 or not os.path.exists(binp):
        return None, out
    return binp, out


def run_harness(binp, test, outdir, seed, tier, log, extra_env=None, timeout=1500):
    env = dict(os.environ)
    env.update({"VERIF_SEED": str(seed), "VERIF_TIER": tier, "VERIF_OUT": outdir})
    env.setdefault("GOMEMLIMIT", "6GiB")
    if extra_env:
        env.update(extra_env)
    os.makedirs(outdir, exist_ok=True)
    cmd = [binp, "-test.run", "^" + test + "$", "-test.count=1", "-test.timeout", str(timeout) + "s"]
    t0 = time.time()
    try:
        rc, out = sh(cmd, cwd=outdir, env=env, timeout=timeout + 30)
    except subprocess.TimeoutExpired:
        rc, out = 124, "harness timed out"
    log.write(f"== {' '.join(cmd)} (rc={rc}, {time.time()-t0:.1f}s)\n" + out[-6000:] + "\n")
    return rc, out


def run_driver(cases_path, log):
    """returns dict(cases=[...], cov={tag:count}, summary={...})"""
    drv = os.path.join(LEAN, ".lake", "build", "bin", "hwdriver")
    with open(cases_path) as f:
        p = subprocess.run([drv], stdin=f, stdout=subprocess.PIPE, stderr=subprocess.STDOUT, text=True, errors="replace")
    res = dict(cases=[], cov={}, summary=None, rc=p.returncode, raw_tail=p.stdout[-2000:])
    last = None
    for line in p.stdout.split("\n"):
        if line.startswith("case "):
            m = re.match(r"case (\S+) corr=(\S+) nt=(\d) h=(\d+) spec=(.*)$", line)
            if m:
                last = dict(id=m.group(1), corr=m.group(2), nt=int(m.group(3)), h=m.group(4), spec=m.group(5), model=None)
                res["cases"].append(last)
        elif line.startswith("model ") and last is not None:
            last["model"] = line[6:]
        elif line.startswith("cov "):
            _, k, n = line.split(" ", 2)
            res["cov"][k] = int(n)
        elif line.startswith("summary "):
            res["summary"] = dict(kv.split("=") for kv in line.split()[1:])
    return res


def read_cases(cases_path):
    """id -> (in, impl)"""
    out = {}
    with open(cases_path) as f:
        lines = f.read().split("\n")
    i = 1
    while i + 2 < len(lines) + 1 and i < len(lines):
        if lines[i].startswith("case "):
            cid = lines[i][5:].strip()
            inp = lines[i + 1][3:] if lines[i + 1].startswith("in ") else ""
            impl = lines[i + 2][5:] if lines[i + 2].startswith("impl ") else ""
            out[cid] = (inp, impl)
            i += 3
        else:
            i += 1
    return out


# ----------------------------------------------------------------------------------------------
# known findings
# ----------------------------------------------------------------------------------------------

def load_known(prop):
    p = os.path.join(VERIF, "known_findings.json")
    if not os.path.exists(p):
        return []
    data = json.load(open(p))
    return [e for e in data.get("findings", []) if e.get("property") == prop]


def match_known(known, stream, case, inp):
    """a failing case is covered by a known finding iff the finding names this stream and its
    signature regex matches the spec verdict and its input regex matches the input line."""
    for e in known:
        if e.get("status") != "known":
            continue
        if e.get("stream") and e["stream"] != stream:
            continue
        if e.get("spec_regex") and not re.search(e["spec_regex"], case["spec"]):
            continue
        if e.get("input_regex") and not re.search(e["input_regex"], inp):
            continue
        return e
    return None


# ----------------------------------------------------------------------------------------------
# shrinking (delta debugging over one comma separated field of the input line)
# ----------------------------------------------------------------------------------------------

def replay_one(binp, test, stream, inp, workdir, log, extra_env=None):
    outdir = os.path.join(workdir, "replay")
    shutil.rmtree(outdir, ignore_errors=True)
    env = {"VERIF_REPLAY_IN": inp}
    if extra_env:
        env.update(extra_env)
    rc, out = run_harness(binp, test, outdir, 0, "quick", log, extra_env=env, timeout=120)
    cp = os.path.join(outdir, stream + ".cases")
    if not os.path.exists(cp):
        return None, None
    d = run_driver(cp, log)
    cs = read_cases(cp)
    if not d["cases"]:
        return None, None
    c = d["cases"][0]
    return c, cs.get(c["id"], ("", ""))


def shrink(binp, test, stream, inp, key, want, workdir, log, extra_env=None, budget=150):
    """ddmin on the list under `key=`; `want(case)` says whether the failure persists."""
    m = re.search(r"(?:^| )" + re.escape(key) + r"=(\S*)", inp)
    if not m:
        return inp
    items = m.group(1).split(",")

    def rebuild(xs):
        return inp[:m.start(1)] + ",".join(xs) + inp[m.end(1):]

    n = 2
    runs = 0
    while len(items) >= 2 and runs < budget:
        chunk = max(1, len(items) // n)
        reduced = False
        for i in range(0, len(items), chunk):
            cand = items[:i] + items[i + chunk:]
            if not cand:
                continue
            runs += 1
            c, _ = replay_one(binp, test, stream, rebuild(cand), workdir, log, extra_env)
            if c is not None and want(c):
                items = cand
                n = max(n - 1, 2)
                reduced = True
                break
            if runs >= budget:
                break
        if not reduced:
            if chunk == 1:
                break
            n = min(len(items), n * 2)
    return rebuild(items)


# ----------------------------------------------------------------------------------------------
# main
# ----------------------------------------------------------------------------------------------

def write_replay(prop, name, body):
    d = os.path.join(WORK, prop)
    os.makedirs(d, exist_ok=True)
    p = os.path.join(d, name)
    with open(p, "w") as f:
        json.dump(body, f, indent=1)
    return p


def main(argv, PROPS):
    if len(argv) < 2 or argv[1] not in PROPS:
        print("usage: check <property> quick|thorough [--replay file]")
        return 2
    prop = argv[1]
    tier = argv[2] if len(argv) > 2 and argv[2] in ("quick", "thorough") else os.environ.get("VERIF_TIER", "quick")
    os.environ["VERIF_TIER"] = tier
    try:
        seed = int(os.environ.get("VERIF_SEED", "1"))
    except ValueError:
        seed = 1
    replay_file = None
    if "--replay" in argv:
        replay_file = argv[argv.index("--replay") + 1]
    cfg = PROPS[prop]
    t0 = time.time()
    workdir = os.path.join(WORK, prop)
    os.makedirs(workdir, exist_ok=True)
    for fn in os.listdir(workdir):
        if fn.startswith("replay-") and not replay_file:
            os.remove(os.path.join(workdir, fn))
    log = open(os.path.join(workdir, "check.log"), "w")
    known = load_known(prop)
    violations = []   # (replay_path, suffix)
    known_hits = {}
    notes = []

    # 1. proofs
    lean = lean_stage(prop, cfg, tier, log)
    if not lean["ok"]:
        notes.append("PROOF BREAK: " + lean["reason"])

    # 2-4. correspondence + spec monitor
    cov_total, samples = {}, []
    evaluations = 0
    distinct = set()
    corr_diffs, spec_fails = [], []
    stream_stats = {}
    harness_broken = None
    with Lock("go-" + prop):
        for st in cfg["streams"]:
            binp, out = build_harness(prop, st["pkg"], log, race=(tier == "thorough" and st.get("race", False)),
                                      extra_overlay=(st["extra_overlay"](workdir) if st.get("extra_overlay") else None),
                                      tag="_" + st["name"])
            if binp is None:
                harness_broken = f"harness for stream {st['name']} does not build against the current tree: " + out[-600:]
                corr_diffs.append(dict(stream=st["name"], id="<build>", inp="", impl="", model=out[-600:], spec="ok", st=st))
                continue
            outdir = os.path.join(workdir, "out_" + st["name"])
            shutil.rmtree(outdir, ignore_errors=True)
            env = {}
            corpus = os.path.join(VERIF, "corpus", prop, st["name"] + ".in")
            if os.path.exists(corpus):
                env["VERIF_CORPUS"] = corpus
            if replay_file:
                body = json.load(open(replay_file))
                if body.get("stream") != st["name"]:
                    continue
                env["VERIF_REPLAY_IN"] = body.get("input", "")
            env.update(st.get("env", {}))
            rc, out = run_harness(binp, st["test"], outdir, seed, tier, log, extra_env=env,
                                  timeout=st.get("timeout_thorough", 3000) if tier == "thorough" else st.get("timeout", 900))
            cp = os.path.join(outdir, st["name"] + ".cases")
            if rc != 0 or not os.path.exists(cp):
                # the harness itself died (process-level crash of the code under test, or a harness bug)
                tail = out[-1500:]
                corr_diffs.append(dict(stream=st["name"], id="<harness-exit-%d>" % rc, inp="", impl="",
                                       model="harness process ended abnormally: " + tail, spec="ok", st=st, crashed=True))
                if not os.path.exists(cp):
                    continue
            d = run_driver(cp, log)
            cs = read_cases(cp)
            evaluations += len(d["cases"])
            stream_stats[st["name"]] = dict(cases=len(d["cases"]), summary=d["summary"])
            if d["summary"] is None:
                harness_broken = f"hwdriver did not complete on stream {st['name']}: {d['raw_tail'][-300:]}"
            for k, v in d["cov"].items():
                cov_total[st["name"] + ":" + k] = cov_total.get(st["name"] + ":" + k, 0) + v
            for c in d["cases"]:
                if c["nt"]:
                    distinct.add(st["name"] + c["h"])
                inp, impl = cs.get(c["id"], ("", ""))
                if c["spec"] != "ok":
                    spec_fails.append(dict(stream=st["name"], id=c["id"], inp=inp, impl=impl, model=c["model"], spec=c["spec"], st=st, binp=binp))
                elif c["corr"] != "ok":
                    corr_diffs.append(dict(stream=st["name"], id=c["id"], inp=inp, impl=impl, model=c["model"], spec=c["spec"], st=st, binp=binp))
            # samples: a few real cases of this run
            ids = [c["id"] for c in d["cases"] if c["nt"]][:400:200] + [c["id"] for c in d["cases"]][-1:]
            for cid in ids[:3]:
                inp, impl = cs.get(cid, ("", ""))
                samples.append(dict(stream=st["name"], case=cid, input=inp[:600], impl_output=impl[:600]))

    # 5. verdict
    new_spec_fails = []
    relevant = re.compile(cfg.get("spec_relevant", "."))
    foreign = [f for f in spec_fails if not relevant.search(f["spec"])]
    if foreign:
        notes.append(f"{len(foreign)} case(s) fail the spec of a sibling property sharing this stream (e.g. {foreign[0]['spec'][:80]}); reported by that property's check")
    spec_fails = [f for f in spec_fails if relevant.search(f["spec"])]
    for f in spec_fails:
        e = match_known(known, f["stream"], f, f["inp"])
        if e is not None:
            known_hits.setdefault(e["id"], (e, f))
        else:
            new_spec_fails.append(f)

    def shrunk(f, want):
        st = f["st"]
        if f.get("binp") and st.get("shrink_key") and f["inp"]:
            try:
                return shrink(f["binp"], st["test"], f["stream"], f["inp"], st["shrink_key"], want, workdir, log,
                              extra_env=st.get("env"))
            except Exception as ex:  # shrinking is best effort
                log.write(f"shrink failed: {ex}\n")
        return f["inp"]

    if new_spec_fails:
        # group by verdict class, report the first of each class (at most 3)
        seen = set()
        for f in new_spec_fails:
            cls = re.sub(r"[0-9]+", "#", f["spec"])[:60]
            if cls in seen or len(seen) >= 3:
                continue
            seen.add(cls)
            cls_re = re.escape(f["spec"].split(":")[1] if ":" in f["spec"] else f["spec"])
            small = shrunk(f, lambda c: c["spec"] != "ok" and re.search(cls_re, c["spec"]) is not None
                           and match_known(known, f["stream"], c, "") is None) if not f.get("crashed") else f["inp"]
            c2, io2 = (None, None)
            if small != f["inp"] and f.get("binp"):
                c2, io2 = replay_one(f["binp"], f["st"]["test"], f["stream"], small, workdir, log, f["st"].get("env"))
            body = dict(property=prop, kind="impl-violation", stream=f["stream"], seed=seed, case=f["id"],
                        input=small, original_input=f["inp"],
                        impl_out=(io2[1] if io2 else f["impl"]), model_out=(c2["model"] if c2 else f["model"]),
                        spec_verdict=(c2["spec"] if c2 else f["spec"]),
                        proof_status=("ok" if lean["ok"] else lean["reason"]),
                        how_to_replay=f"bin/check {prop} quick --replay <this file>")
            violations.append((write_replay(prop, f"replay-{len(violations)}.json", body), ""))
    elif corr_diffs or not lean["ok"] or harness_broken:
        # proof or correspondence no longer checks, and the search found no input on which the
        # implementation violates the property's spec
        first = corr_diffs[0] if corr_diffs else None
        body = dict(property=prop, kind=("correspondence" if first else "proof"), seed=seed,
                    proof_status=("ok" if lean["ok"] else lean["reason"]),
                    theorem_or_stream=(first["stream"] if first else ",".join(cfg["lean_modules"])),
                    first_diff=(dict(case=first["id"], input=first["inp"], impl_out=first["impl"], model_out=first["model"]) if first else None),
                    corr_diffs=len(corr_diffs), harness=harness_broken,
                    searched=dict(cases=evaluations, streams=list(stream_stats)),
                    build_log=lean.get("build_log"))
        if first and first.get("binp") and first["inp"]:
            body["first_diff"]["input_shrunk"] = shrunk(first, lambda c: c["corr"] != "ok")
        violations.append((write_replay(prop, "replay-0.json", body), " no-failing-input-found"))

    for kid, (e, f) in sorted(known_hits.items()):
        print(f"KNOWN-FINDING: property={prop} {kid} {e.get('summary','')}")
    # a known finding whose witness no longer fails is reported in the log only
    for e in known:
        if e.get("status") == "known" and e["id"] not in known_hits:
            notes.append(f"known finding {e['id']} was not reproduced by this run")

    # 6. evidence
    wall = time.time() - t0
    ev = dict(
        property_id=prop, tier=tier, seed=seed, level="proof",
        coverage=dict(
            obligations=max(lean["obligations"], 1), discharged=lean["discharged"],
            checker_cmd=f"cd {LEAN} && lake build {' '.join(cfg['lean_modules'])} && lake env lean work/{prop}/Audit.lean (#print axioms)" + (" && lake env leanchecker" if tier == "thorough" else ""),
            trusted_base=TRUSTED_BASE + cfg.get("trusted", []),
            property_theorems=lean.get("theorems", []),
            axioms_used=sorted({a for axs in lean.get("axioms", {}).values() for a in axs}),
            lean_files=[os.path.relpath(p, VERIF) for p in lean.get("files", [])],
            evaluations=evaluations,
            distinct_nontrivial=len(distinct),
            rule=cfg.get("rule", ""),
            traces_validated_against_impl=evaluations - len(corr_diffs),
            correspondence_diffs=len(corr_diffs),
            spec_failures=len(spec_fails),
            known_findings_reproduced=sorted(known_hits),
            model_branch_coverage=cov_total,
            streams=stream_stats,
            samples=samples[:8] if samples else [dict(note="no cases ran")],
            notes=notes,
        ),
        assumptions=cfg.get("assumptions", []),
        wall_s=round(wall, 2),
        violations=len(violations),
    )
    os.makedirs(os.path.join(VERIF, "evidence"), exist_ok=True)
    tmp = os.path.join(VERIF, "evidence", prop + ".json.tmp")
    with open(tmp, "w") as f:
        json.dump(ev, f, indent=1)
    os.replace(tmp, os.path.join(VERIF, "evidence", prop + ".json"))
    log.close()

    for n in notes:
        print("note:", n)
    print(f"{prop} {tier}: proofs={'ok' if lean['ok'] else 'BROKEN'} theorems={len(lean.get('theorems', []))} "
          f"cases={evaluations} distinct_nontrivial={len(distinct)} corr_diff={len(corr_diffs)} spec_fail={len(spec_fails)} "
          f"known={len(known_hits)} wall={wall:.1f}s")
    for path, suffix in violations:
        print(f"VIOLATION property={prop} replay={path}{suffix}")
    return 1 if violations else 0
