#!/bin/bash
# try_patch.sh <patch.diff> <Cxx> [tier]: apply a seeded change to /repo, run the check, undo it straight afterwards.
# The evidence file of the property is saved and restored (evidence must come from the unchanged tree).
P=$1; ID=$2; TIER=${3:-quick}
cd /repo || exit 2
git diff --quiet || { echo "/repo not clean"; exit 2; }
git apply "$P" || { echo "patch does not apply"; exit 3; }
[ -f /verif/evidence/$ID.json ] && cp /verif/evidence/$ID.json /tmp/evidence-$ID.bak
(cd /verif && bin/check $ID $TIER)
rc=$?
git -C /repo checkout -- .
[ -f /tmp/evidence-$ID.bak ] && mv /tmp/evidence-$ID.bak /verif/evidence/$ID.json
# the generated facts may have been produced from the patched source: regenerate from the clean tree
(cd /verif/harness/extract && GOFLAGS=-mod=mod GOPROXY=off GOSUMDB=off GOTOOLCHAIN=local go run . -repo /repo -o /verif/lean/HW/Generated/Facts.lean)
echo "check rc=$rc"
