#!/bin/bash
# try_patch.sh <patch.diff> <Cxx> [tier]: apply a seeded change to /repo, run the check, undo it straight afterwards.
P=$1; ID=$2; TIER=${3:-quick}
cd /repo || exit 2
git diff --quiet || { echo "/repo not clean"; exit 2; }
git apply "$P" || { echo "patch does not apply"; exit 3; }
(cd /verif && bin/check $ID $TIER)
rc=$?
git -C /repo checkout -- .
echo "check rc=$rc"
