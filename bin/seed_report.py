#!/usr/bin/env python3
"""seed_report.py [ids...]: runs every seeded change under /verif/seeded against the check of its property
(bin/try_patch.sh: apply to /repo, run the quick check, undo) and writes seeded/<id>/meta.json."""
import json, os, re, subprocess, sys
V = "/verif"
NEEDS = {}
def first_para(path, key):
    try:
        t = open(path).read()
    except OSError:
        return ""
    m = re.search(r"(?is)(needs?[^\n]*manifest[^\n]*\n)(.*?)(\n\s*\n|\n#|\Z)", t)
    return (m.group(2).strip()[:600] if m else "")
ids = sys.argv[1:] or sorted(os.listdir(os.path.join(V, "seeded")))
rows = []
for sid in ids:
    d = os.path.join(V, "seeded", sid)
    patch = os.path.join(d, "patch.diff")
    if not os.path.exists(patch):
        continue
    prop = sid.split("-")[0]
    # seeded/<id>/detect_with (optional): further properties whose checks are tried when the seed's own check
    # passes (a change seeded for one property may break a sibling property, whose check then reports it)
    tryprops = [prop]
    dw = os.path.join(d, "detect_with")
    if os.path.exists(dw):
        tryprops += open(dw).read().split()
    for cp in tryprops:
        p = subprocess.run([os.path.join(V, "bin/try_patch.sh"), patch, cp], stdout=subprocess.PIPE, stderr=subprocess.STDOUT, text=True)
        out = p.stdout
        viol = [l for l in out.split("\n") if l.startswith("VIOLATION")]
        if viol:
            break
    checked_prop = cp
    summary = [l for l in out.split("\n") if re.match(r"C\d\d quick:", l)]
    replay = None
    if viol:
        m = re.search(r"replay=(\S+)", viol[0])
        if m and os.path.exists(m.group(1)):
            try:
                r = json.load(open(m.group(1)))
                replay = {k: r.get(k) for k in ("kind", "stream", "input", "spec_verdict", "theorem_or_stream", "proof_status") if r.get(k)}
                if replay.get("spec_verdict"):
                    replay["spec_verdict"] = replay["spec_verdict"][:300]
            except Exception:
                pass
    files = sorted(set(re.findall(r"^\+\+\+ b/(\S+)", open(patch).read(), flags=re.M)))
    meta = dict(
        seed=sid, breaks_property=prop, files_touched=files,
        needs_to_manifest=first_para(os.path.join(d, "notes.md"), "needs") or "see notes.md",
        produced_by="independent sub-agent given only the property text and a scratch worktree (nothing from /verif)",
        confirmed_by=["bin/confirm_seed.sh: demo_test.go fails with patch.diff applied, passes on the clean tree; existing suite passes with the patch (cluster tests run in a private network namespace, flaky ones retried)"],
        check_run=f"bin/try_patch.sh seeded/{sid}/patch.diff {checked_prop}   (git apply, bin/check {checked_prop} quick, git checkout)",
        detected_by_check_of=checked_prop if viol else None,
        detected=bool(viol),
        detected_with_concrete_input=bool(viol) and not any("no-failing-input-found" in v for v in viol),
        violation_lines=viol[:3], check_summary=summary[-1] if summary else "", replay=replay,
    )
    json.dump(meta, open(os.path.join(d, "meta.json"), "w"), indent=1)
    rows.append((sid, meta["detected"], meta["detected_with_concrete_input"], (replay or {}).get("stream"), (replay or {}).get("input", "")[:70]))
    print(sid, "DETECTED" if viol else "MISSED", "(concrete)" if meta["detected_with_concrete_input"] else "", flush=True)
# the summary is rebuilt from every meta.json (also those written by earlier runs)
allrows = []
for sid in sorted(os.listdir(os.path.join(V, "seeded"))):
    mp = os.path.join(V, "seeded", sid, "meta.json")
    if os.path.exists(mp):
        m = json.load(open(mp))
        r = m.get("replay") or {}
        allrows.append(dict(seed=sid, property=m["breaks_property"], detected=m["detected"], concrete_input=m["detected_with_concrete_input"],
                            stream=r.get("stream"), input=(r.get("input") or "")[:120]))
json.dump(allrows, open(os.path.join(V, "seeded", "SUMMARY.json"), "w"), indent=1)
