#!/usr/bin/env python3
"""writes MANIFEST.json from bin/hwprops.py (kept in sync with what is actually implemented)."""
import json, os, sys
sys.path.insert(0, os.path.dirname(os.path.abspath(__file__)))
from hwprops import PROPS, NOT_APPLICABLE, MANIFEST_TEXT, NOT_READY

checks = []
for pid in sorted(PROPS):
    if pid in NOT_READY:
        continue
    t = MANIFEST_TEXT[pid]
    checks.append(dict(
        property_id=pid,
        quick_cmd=f"bin/check {pid} quick",
        thorough_cmd=f"bin/check {pid} thorough",
        evidence_file=f"/verif/evidence/{pid}.json",
        replay_cmd_template=f"bin/check {pid} quick --replay {{path}}",
        engine="lean4-model+go-correspondence",
        level_claimed=dict(category="proof", text=t["text"], design_ref=t["design_ref"]),
        level_note=t["note"],
        technique=t["technique"],
    ))
m = dict(
    version=1,
    setup_cmd="bin/setup",
    hooks=dict(
        guard="verif",
        enable="no source hooks: harness files are injected at build time with `go test -c -vet=off -overlay work/<id>/overlay.json` (adds *_test.go files and internal/vgen, internal/vshim packages; rewrites only import lines of copies for the scheduler shim); any file ever added to /repo for verification carries //go:build verif",
        baseline_off_cmd="cd /repo && GOFLAGS=-mod=mod go test -json -vet=off -count=1 -timeout 25m ./...",
        source_commits=[],
        add_only=True,
    ),
    engines=[dict(name="lean4-model+go-correspondence", path="/verif/lean", serves_properties=sorted(p for p in PROPS if p not in NOT_READY),
                  kind_free_text="Lean 4 models + theorems (lake project HW, driver hwdriver); Go correspondence harnesses injected by overlay; bin/check orchestrates")],
    checks=checks,
    notes="See DESIGN.md. Every check: (1) regenerates facts from source and rebuilds + audits the Lean theorems, (2) builds the harness against /repo's working tree, (3) runs real code and Lean model on the same inputs, (4) evaluates the property's spec on the implementation's output.",
    not_applicable=[dict(property_id=k, reason=v) for k, v in sorted(NOT_APPLICABLE.items())],
)
json.dump(m, open(os.path.join(os.path.dirname(os.path.abspath(__file__)), "..", "MANIFEST.json"), "w"), indent=1)
print("MANIFEST.json written:", len(checks), "checks,", len(m["not_applicable"]), "not applicable")
