#!/bin/bash
# harmless_report.sh: applies every behaviour-preserving rewrite under /verif/harmless/*.diff to /repo (one at a
# time, undone straight afterwards) and runs the quick checks named in the first line of the diff's sidecar
# (<name>.props) — every one of them must PASS: these are the false-alarm regression cases.
# harmless/unsound/*.diff are rewrites that break a regenerated fact (lock shape): the check must report them.
cd /verif
rc=0
for d in /verif/harmless/*.diff; do
  props=$(cat "${d%.diff}.props" 2>/dev/null || echo C14)
  for p in $props; do
    out=$(bin/try_patch.sh "$d" "$p" 2>&1 | grep "^VIOLATION")
    if [ -n "$out" ]; then echo "FALSE-ALARM $d $p: $out"; rc=1; else echo "ok (no alarm) $d $p"; fi
  done
done
for d in /verif/harmless/unsound/*.diff; do
  props=$(cat "${d%.diff}.props" 2>/dev/null || echo C14)
  for p in $props; do
    out=$(bin/try_patch.sh "$d" "$p" 2>&1 | grep "^VIOLATION")
    if [ -z "$out" ]; then echo "MISSED $d $p"; rc=1; else echo "ok (reported) $d $p"; fi
  done
done
exit $rc
