"""Per-property configuration of bin/check: Lean modules holding the property theorems, and the
correspondence streams (Go package to inject into, test function, stream name of the hwdriver)."""

PROPS = {
    "C14": dict(
        lean_modules=["HW.Props.C14"],
        facts=True,
        streams=[dict(name="ring", pkg="ringbuffer", test="TestVerifRing", shrink_key="ops")],
        rule="ring: every op sequence of length <= L over {push,pop,popN1,popN2} for capacities 1..3 (exhaustive) plus "
             "seeded random sequences (capacities 1..9,16,1024; phases biased to grow at every head position); "
             "a case is non-trivial iff the model grows or wraps in it; distinct = distinct input lines",
        assumptions=["each RingBuffer method is one critical section of one mutex (regenerated fact ringLockShape), "
                     "so concurrent histories are linearizable with the sequential semantics proved here",
                     "capacity >= 1 and PopN argument >= 0 (the only caller passes 4096)"],
    ),
    "C15": dict(
        lean_modules=["HW.Props.C15"],
        streams=[dict(name="wire", pkg="remote", test="TestVerifWire", shrink_key="batch")],
        rule="wire: every batch of length <= 2 over {nil,split-colliding senders} x {split-colliding targets} x {good, unserialisable, non-proto payloads} "
             "(exhaustive) plus seeded random batches (length 1..12, pools of 8 PIDs incl. address/id split collisions, 10 payloads of 4 registered types, "
             "2 unserialisable, 2 non-proto); non-trivial = batch length >= 2; distinct = distinct input lines",
        assumptions=["protobuf/vtproto/drpc byte encoding of Envelope and payloads is not modelled (Codec parameter with the round-trip law as an explicit field)"],
    ),
    "C16": dict(
        lean_modules=["HW.Props.C16"],
        streams=[dict(name="hostile", pkg="remote", test="TestVerifHostile", shrink_key="msgs")],
        rule="hostile: generated Envelope values (each index independently valid / -1 / len / len+k / int32 extremes, empty tables, unknown and empty type names, "
             "undecodable payload bytes) marshalled with the real encoder, one third additionally byte-mutated, unmarshalled with the real decoder and fed to the "
             "real streamReader; non-trivial = at least one message; distinct = distinct decoded envelopes",
        assumptions=["payload deserialisation success is an oracle measured by calling the real deserialiser (input to the model)",
                     "byte strings rejected by the Envelope decoder never reach the reader (drpc closes the stream)"],
    ),
}

# Properties without a check yet are listed here (kept current; see DESIGN.md section 7).
_PENDING = "machinery for this property is not built yet in this revision (planned: Lean model + theorem + correspondence, see DESIGN.md section 4); not claimed until its check exists"
NOT_APPLICABLE = {pid: _PENDING for pid in ["C%02d" % i for i in range(1, 21)] if pid not in PROPS}

MANIFEST_TEXT = {
    "C14": dict(
        text="Machine-checked refinement: for every capacity >= 1 and every operation sequence the Lean transcription of ringbuffer.go "
             "returns exactly what an abstract FIFO list returns (HW.C14.refines_fifo, by a representation invariant covering every head/tail "
             "position at growth). The model is tied to the code on every run by exact differential replay of exhaustive small-scope and "
             "seeded random op sequences on the real RingBuffer, and by regenerated lock-shape facts (each method one critical section; Len one atomic load).",
        design_ref="DESIGN.md section 4, C14",
        note="Trusted: Lean kernel; axioms propext/Quot.sound only; sync.Mutex mutual exclusion and sync/atomic semantics (linearizability argument rests on the lock-shape fact, "
             "not on a fine-grained concurrent model); the correspondence harness and generators; int64 overflow and capacity 0 / negative PopN are outside the claim.",
        technique="Lean 4 refinement proof (invariant + induction over op sequences) + differential correspondence against the Go code",
    ),
    "C15": dict(
        text="Machine-checked round trip: for every codec satisfying the payload law and every batch, decode(encode batch) is exactly the sendable "
             "messages in order, each with its own target, payload and sender, none staying none (HW.C15.roundtrip; bad_message_isolated). Tied to the code by "
             "running the real streamWriter.Invoke -> real drpc encoding -> real streamReader.Receive on exhaustive small and seeded random batches and comparing "
             "envelope tables and deliveries with the model, plus the spec monitor on the implementation's deliveries.",
        design_ref="DESIGN.md section 4, C15",
        note="Trusted: Lean kernel, propext/Quot.sound/Classical.choice; protobuf/drpc byte encoding and TCP are not modelled; harness pools bound what the correspondence sees.",
        technique="Lean 4 proof of encode/decode round-trip (lookup-table invariant, induction over the batch) + differential correspondence",
    ),
    "C16": dict(
        text="The reader is modelled as a total function decode : Envelope -> deliveries x {ok, err}; theorems: every delivery is justified by a message whose own "
             "valid indices name its target, type and sender (only_addressed), out-of-range/negative indices never resolve, at most one delivery per message. "
             "'Never panics' is carried by the correspondence: the real reader must agree with the total model on structure-aware hostile envelopes and byte-mutated wire forms.",
        design_ref="DESIGN.md section 4, C16",
        note="Trusted: Lean kernel; the Envelope byte decoder (vtproto) is exercised, not modelled; deserialisation success is an oracle input.",
        technique="Lean 4 total-function model + justification theorem + differential correspondence on hostile envelopes",
    ),
}
