"""Per-property configuration of bin/check: Lean modules holding the property theorems, and the
correspondence streams (Go package to inject into, test function, stream name of the hwdriver)."""

import os, re


def shim_overlay(workdir):
    """H-sched: overlay inbox.go / ringbuffer.go by copies generated NOW from the repository's current
    files, in which only (a) the sync / sync/atomic import lines point at the yielding shims and (b) the
    batch-size argument of PopN goes through vBatchSize() (defined by the injected harness)."""
    repo = os.environ.get("HW_REPO", "/repo")
    out = {}
    mod = "github.com/anthdm/hollywood/internal/vshim"
    for rel in ("actor/inbox.go", "ringbuffer/ringbuffer.go"):
        src = open(os.path.join(repo, rel)).read()
        new = re.sub(r'^(\s*)"sync/atomic"\s*$', r'\1atomic "%s/shimatomic"' % mod, src, flags=re.M)
        new = re.sub(r'^(\s*)"sync"\s*$', r'\1sync "%s/shimsync"' % mod, new, flags=re.M)
        if rel == "actor/inbox.go":
            new = new.replace("PopN(messageBatchSize)", "PopN(vBatchSize())")
        dst = os.path.join(workdir, "shim_" + rel.replace("/", "_"))
        with open(dst, "w") as f:
            f.write(new)
        out[os.path.join(repo, rel)] = dst
    return out


def reg_shim_overlay(workdir):
    """registry.go built with the yielding sync shim (import line only)."""
    repo = os.environ.get("HW_REPO", "/repo")
    mod = "github.com/anthdm/hollywood/internal/vshim"
    src = open(os.path.join(repo, "actor/registry.go")).read()
    new = re.sub(r'^(\s*)"sync"\s*$', r'\1sync "%s/shimsync"' % mod, src, flags=re.M)
    dst = os.path.join(workdir, "shim_actor_registry.go")
    with open(dst, "w") as f:
        f.write(new)
    return {os.path.join(repo, "actor/registry.go"): dst}


def safemap_shim_overlay(workdir):
    """safemap.go built with the yielding sync shim (import line only)."""
    repo = os.environ.get("HW_REPO", "/repo")
    mod = "github.com/anthdm/hollywood/internal/vshim"
    src = open(os.path.join(repo, "safemap/safemap.go")).read()
    new = re.sub(r'^import "sync"\s*$', 'import sync "%s/shimsync"' % mod, src, flags=re.M)
    new = re.sub(r'^(\s*)"sync"\s*$', r'\1sync "%s/shimsync"' % mod, new, flags=re.M)
    dst = os.path.join(workdir, "shim_safemap.go")
    with open(dst, "w") as f:
        f.write(new)
    return {os.path.join(repo, "safemap/safemap.go"): dst}


def ring_shim_overlay(workdir):
    """ringbuffer.go built with the yielding shims (import lines only)."""
    ov = shim_overlay(workdir)
    return {k: v for k, v in ov.items() if k.endswith("ringbuffer/ringbuffer.go")}


_SCHED_RULE = ("sched: real inbox.go+ringbuffer.go under the deterministic scheduler; systematic enumeration by iterative preemption "
               "bounding over 6 small configurations (1-2 senders x 1-2 messages, capacity 1-2, batch 1/2/4096, with and without a Stop) plus seeded "
               "random schedules over 1-3 senders x 1-4 messages, capacity 1..8, batch 1/2/3/4096; every execution is replayed step by step in the "
               "Lean model (exact diff of per-step op, result, status, queue length, #goroutines inside Receive); non-trivial = schedule of >= 8 steps; "
               "distinct = distinct (configuration, schedule)")
_SCHED_STREAM = dict(name="sched", pkg="actor", test="TestVerifSched", shrink_key="sched", extra_overlay=shim_overlay,
                     timeout=1200, timeout_thorough=3400)
_SCHED_ASSUME = ["ring operations are atomic steps (C14 + regenerated lock-shape fact); Go atomics are sequentially consistent",
                 "every interleaving of the modelled atomic steps is possible and no other (Go memory model, runtime scheduler)",
                 "scheduling points of the real code are exactly its atomic operations and mutex acquisitions (shimmed at build time)"]

_PROC_RULE = ("proc: real process.Start/Invoke/tryRestart/cleanup on one goroutine with scripted receiver, recording middlewares, recording Inboxer and synchronous "
              "event stream; model-directed enumeration of every (budget 0..2) x (batch length 1..4) x (pill graceful/non-graceful at every position or none) x "
              "(one or two panics at every delivery position incl. Initialized/Started of later incarnations), plus seeded random histories (1-3 batches of 1-6 items, "
              "0-3 pills, scripts with panics and InternalErrors, budgets 0..3, chains 0..3); non-trivial = at least one panic or pill; distinct = distinct input lines")
_PROC_STREAM = dict(name="proc", pkg="actor", test="TestVerifProc", shrink_key="hist")
_LIFE_STREAM = dict(name="life", pkg="actor", test="TestVerifLife", timeout=1800, timeout_thorough=3400)
_LIFE_RULE = (" || life: a real actor on a real engine (H-sys): 1-4 sender goroutines that start as soon as the PID is registered (Started is still being handled), 1-30 (sometimes 200-500) messages each, "
              "crashing messages within the restart budget, restart delay 2 ms, inbox sizes 1/2/4/1024, final Poison or Stop; the actor's own log is judged by the life-cycle acceptor and by exactly-once / per-sender order / sender fidelity")
_PROC_ASSUME = ["the receiver never panics while handling Stopped (outside every property's quantifier)",
                "MaxRestarts >= 0; RestartDelay is not modelled (0 in the harness)",
                "children are not part of this stream (C08)",
                "batches are offered to Invoke one after the other while the inbox is open, as the worker loop does (interleaving with senders is C01-C03)"]

_ENGINE_RULE = ("engine: real Engine.send/SendLocal/BroadcastEvent/Subscribe/Unsubscribe/Poison and the real eventStream.Receive driven synchronously with a feedback queue (cap 200); "
                "seeded random histories of 2-13 ops over a pool of 2 live locals, 1 local that is (un)registered during the history, 1 foreign address and nil, on an engine with and without a (fake) remote; "
                "forwards of one Receive are sorted (map order); non-trivial = contains a broadcast or a dead letter; distinct = distinct inputs")
_ENGINE_STREAM = dict(name="engine", pkg="actor", test="TestVerifEngine", shrink_key="ops")
_ENGINE_ASSUME = ["the event stream's inbox order is the broadcast order (C01); the asynchronous hop through the real event-stream actor is not part of this stream",
                  "a subscriber stopping between the reachability test and the forward is a race outside the sequential model (it costs one dead letter, then the subscriber is dropped)"]

PROPS = {
    "C17": dict(lean_modules=["HW.Props.C17"],
                streams=[dict(name="remote", pkg="remote", test="TestVerifRemote", timeout=2400, timeout_thorough=3400),
                         dict(name="remotelost", pkg="remote", test="TestVerifRemoteLost", extra_overlay=reg_shim_overlay, timeout=1200)],
                rule="remote: real engines with real remotes over loopback TCP: order cases (1-6 concurrent sender goroutines x 1-60 messages, some with > 1024 messages to cross the writer batch size, to 1-4 targets on the peer, "
                     "odd senders attach a sender PID) judged for exactly-once, per sender/target order and sender fidelity; concurrent request/response; peer down (RemoteUnreachableEvent + one dead letter per message) then up on the "
                     "same address; reconnect (a working connection to a peer addressed by host name or by IP is lost, the peer returns, later sends must arrive); namesake actors with the targets' ids on the sending engine; abort;  Start/Stop/dial sequences; remotelost: an established connection is lost and the writer's own watcher goroutine is adopted by the scheduler shim at the registry write lock, "
                     "pinning the order of 'notify the router' and 'unregister'; non-trivial = >= 2 messages / ops; distinct = distinct inputs",
                assumptions=["TCP, drpc framing and the dial timers are runtime behaviour the model assumes (ordered reliable stream while the connection is up)",
                             "batch formation by timing is covered by the for-all-splits theorem, not enumerated"]),
    "C08": dict(lean_modules=["HW.Props.C08"], facts=True,
                streams=[dict(name="tree", pkg="actor", test="TestVerifTree", shrink_key="ops", timeout=2400, timeout_thorough=3400),
                         dict(name="childsched", pkg="actor", test="TestVerifChildSched", shrink_key="sched", extra_overlay=safemap_shim_overlay)],
                rule="tree: real engine and actors; seeded random supervision trees (depth <= 4, fan-out <= 4, built with SpawnChild) and sequential stop / poison / self-stop / crash(budget 0) of arbitrary nodes "
                     "with Children()/Parent() queries in between; roots spawned WithContext(an already cancelled context) (rx); duplicate SpawnChild (sd); a third party stopping a sibling while the parent waits for a slow child (tp, synchronised on the slow child's inbox length);  a global log records the order in which Stopped is handled and whether the actor was already unregistered; the actual order is judged by the "
                     "post-order acceptor, the stopped set / children lists are compared with the model; childsched: Context.Children() against concurrent Set/Delete on the real safemap.go under the deterministic "
                     "scheduler, all interleavings of 5 small programs; non-trivial = a shutdown of a node (tree) / >= 3 steps (childsched)",
                assumptions=["no third party stops a descendant while its ancestor is shutting down (known finding KF-D12 otherwise)",
                             "sibling names are distinct (a second SpawnChild of a taken name is a duplicate id, C10)"]),
    "C19": dict(lean_modules=["HW.Props.C19"],
                streams=[dict(name="clustersys", pkg="cluster", test="TestVerifClusterSys", shrink_key="ops", timeout=2400, timeout_thorough=3400)],
                rule="clustersys: 1-3 real Cluster/Agent instances on real engines wired by an in-memory bus (request/response immediate, Activation/Deactivation/ActorTopology for other nodes held and released "
                     "after each operation in a seeded permutation replayed exactly by the model); seeded random quiescent histories of 3-10 ops: join, leave, Activate (select function = index into the candidates or nil), "
                     "Deactivate, Cluster.Spawn over 2 kinds x 2 ids with arbitrary kind sets per node; after every op GetActiveByID/GetActiveByKind on every member and the spawn/stop log are compared; "
                     "non-trivial = at least one successful activation; distinct = distinct inputs",
                assumptions=["kind names contain no '/'", "member hosts are pairwise distinct", "a member advertises exactly the kinds registered on it", "a node that left does not rejoin in one history",
                             "quiescent histories: every notification of an operation is delivered before the next operation"]),
    "C11": dict(lean_modules=["HW.Props.C11"],
                streams=[dict(name="resp", pkg="actor", test="TestVerifResp", shrink_key="ops", timeout=1500)],
                rule="resp: seeded random histories (2-10 ops) of Request / reply to any outstanding or finished request (zero, one, several replies) / Result with a short timeout on the real Engine, Registry and Response; "
                     "each reply is sent from its own goroutine with a watchdog (a blocked sender is an observation); plus a draw of 300k (thorough: 1.5M) fresh response ids checked for collisions; "
                     "non-trivial = >= 3 ops; distinct = distinct inputs",
                assumptions=["the wall-clock side of the timeout is an input of the model (context.WithTimeout is trusted)",
                             "replies race with Result only through the registry and the 1-slot channel; both are atomic steps"]),
    "C18": dict(lean_modules=["HW.Props.C18"],
                streams=[dict(name="members", pkg="cluster", test="TestVerifMembers", shrink_key="snaps", timeout=1500)],
                rule="members: a real Cluster/Agent actor on a real engine (fake Remoter, stub provider); seeded random histories of 1-5 snapshots over a universe of 5 members x 3 kinds "
                     "(growing, shrinking, repeated, shuffled, duplicate entries, kind lists starting with an already known kind); Members()/HasKind through the public API, events through the real event stream "
                     "with a sentinel barrier; everything sorted; non-trivial = >= 2 snapshots; distinct = distinct inputs",
                assumptions=["every snapshot contains the observing node itself (the providers guarantee it)", "a member that stays keeps the Member object (and kinds) it joined with"]),
    "C20": dict(lean_modules=["HW.Props.C20"],
                streams=[dict(name="provider", pkg="cluster", test="TestVerifProvider", shrink_key="ops", timeout=1500)],
                rule="provider: the real SelfManaged.Receive invoked (with the real Context and sender) from a wrapper actor for every message except Started (zeroconf is never started); seeded random histories of 1-8 "
                     "handshakes / member lists / unreachable reports for members, non-members and repeated ones; agent reports captured by a recorder registered as the agent, replies by a fake Remoter; "
                     "incarnation counter detects a crash-restart; non-trivial = >= 2 ops",
                assumptions=["member hosts are pairwise distinct", "zeroconf announcement/discovery and the memberPing timer are not modelled"]),
    "C09": dict(lean_modules=["HW.Props.C09"], facts=True, streams=[_ENGINE_STREAM], rule=_ENGINE_RULE, assumptions=_ENGINE_ASSUME, spec_relevant=r"FAIL:(\S*C09|harness)"),
    "C12": dict(lean_modules=["HW.Props.C12"], streams=[_ENGINE_STREAM, dict(name="tree", pkg="actor", test="TestVerifTree", shrink_key="ops", timeout=2400, timeout_thorough=3400)], rule=_ENGINE_RULE + " || tree: a duplicate SpawnChild (sd) must publish exactly one ActorDuplicateIdEvent (counted by a synchronous subscriber after flushing the event stream)", assumptions=_ENGINE_ASSUME, spec_relevant=r"FAIL:(\S*C12|harness)"),
    "C10": dict(lean_modules=["HW.Props.C10"], facts=True,
                streams=[dict(name="reg", pkg="actor", test="TestVerifReg", shrink_key="ops"),
                         dict(name="regsched", pkg="actor", test="TestVerifRegSched", shrink_key="sched", extra_overlay=reg_shim_overlay),
                         dict(name="tree", pkg="actor", test="TestVerifTree", shrink_key="ops", timeout=2400, timeout_thorough=3400)],
                spec_relevant=r"FAIL:(\S*C10|harness)",
                rule="reg: seeded random histories (2-11 ops over 1-3 ids) of Spawn/Stop/Poison/GetPID/Send through the real Engine with real actors, compared op by op with the id->actor map; "
                     "tree (shared with C08): duplicate SpawnChild of a taken name must leave the existing child listed and supervised; regsched: real registry.go under the deterministic scheduler: ALL interleavings of 6 small programs (2-3 threads, concurrent SpawnProc of one id, spawn/remove/respawn) plus seeded random "
                     "programs and schedules, replayed step by step in the model; non-trivial = a duplicate spawn or a stop of a live actor (reg), >= 2 adds (regsched); distinct = distinct inputs",
                assumptions=["sync.RWMutex mutual exclusion; each Registry method is one critical section (regenerated fact, also exercised: the shim yields at every lock acquisition)"]),
    "C04": dict(lean_modules=["HW.Props.C04"], streams=[_PROC_STREAM, _LIFE_STREAM], rule=_PROC_RULE + _LIFE_RULE, assumptions=_PROC_ASSUME, spec_relevant=r"FAIL:(\S*C04|harness)"),
    "C05": dict(lean_modules=["HW.Props.C05"], streams=[_PROC_STREAM, _LIFE_STREAM], rule=_PROC_RULE + _LIFE_RULE, assumptions=_PROC_ASSUME, spec_relevant=r"FAIL:(\S*C05|harness)"),
    "C06": dict(lean_modules=["HW.Props.C06"], facts=True, streams=[_PROC_STREAM, dict(name="tree", pkg="actor", test="TestVerifTree", shrink_key="ops", timeout=2400, timeout_thorough=3400)],
                rule=_PROC_RULE + " || tree: histories whose actors have a restart budget of 1 (ry): the first crash restarts the actor with its children intact, the second stops the whole subtree", assumptions=_PROC_ASSUME, spec_relevant=r"FAIL:(\S*C06|harness)"),
    "C07": dict(lean_modules=["HW.Props.C07"], streams=[_PROC_STREAM, _LIFE_STREAM, _ENGINE_STREAM], rule=_PROC_RULE + _LIFE_RULE + " || " + _ENGINE_RULE, assumptions=_PROC_ASSUME, spec_relevant=r"FAIL:(\S*C07|harness)"),
    "C13": dict(lean_modules=["HW.Props.C13"], streams=[_PROC_STREAM, dict(name="mwopts", pkg="actor", test="TestVerifMwOpts")],
                rule=_PROC_RULE + " || mwopts: 1-3 real actors spawned with WithMiddleware(common...)+WithMiddleware(own) from one shared slice (0-3 common, 0-2 spare capacity), chain observed on a user message after all spawns (exhaustive over that grid)", assumptions=_PROC_ASSUME, spec_relevant=r"FAIL:(\S*C13|harness)"),
    "C01": dict(lean_modules=["HW.Props.C01"], facts=True, streams=[_SCHED_STREAM, _LIFE_STREAM, dict(name="ctxapi", pkg="actor", test="TestVerifCtxAPI")],
                rule=_SCHED_RULE + _LIFE_RULE + " || ctxapi: one actor makes 1-300 (sometimes 2000-5000) successive Respond / Context.Send / Forward calls to one target inside one Receive (inbox 1/2/3/1024): exact expected log", assumptions=_SCHED_ASSUME,
                spec_relevant=r"FAIL:(\S*C01|\S*C03|harness)"),
    "C02": dict(lean_modules=["HW.Props.C02"], facts=True, streams=[_SCHED_STREAM, _PROC_STREAM, _LIFE_STREAM, dict(name="tree", pkg="actor", test="TestVerifTree", shrink_key="ops", timeout=2400, timeout_thorough=3400)],
                rule=_SCHED_RULE + " || " + _PROC_RULE + " || tree: every tree actor counts the Receive calls in progress; shutdowns of a parent while a child is held inside Receive (tp) must not overlap its Stopped with that call",
                assumptions=_SCHED_ASSUME + ["'no inbox.Start after inbox.Stop' is checked on the process stream (HW.Proc.noReopen)"],
                spec_relevant=r"FAIL:(\S*C02|harness)"),
    "C03": dict(lean_modules=["HW.Props.C03"], facts=True, streams=[_SCHED_STREAM, _PROC_STREAM], rule=_SCHED_RULE + " || " + _PROC_RULE, assumptions=_SCHED_ASSUME +
                ["'a registered actor has an open inbox' is checked on the process stream (HW.C03.registered_actor_has_open_inbox)"],
                spec_relevant=r"FAIL:(\S*C03|harness)"),
    "C14": dict(
        lean_modules=["HW.Props.C14"],
        facts=True,
        streams=[dict(name="ring", pkg="ringbuffer", test="TestVerifRing", shrink_key="ops"),
                 dict(name="ringsched", pkg="ringbuffer", test="TestVerifRingSched", shrink_key="sched", extra_overlay=ring_shim_overlay),
                 dict(name="ringfine", pkg="ringbuffer", test="TestVerifRingFine", extra_overlay=ring_shim_overlay)],
        rule="ring: every op sequence of length <= L over {push,pop,popN1,popN2} for capacities 1..3 (exhaustive) plus "
             "seeded random sequences (capacities 1..9,16,1024; phases biased to grow at every head position); "
             "a case is non-trivial iff the model grows or wraps in it; distinct = distinct input lines; "
             "ringsched: 2-3 goroutines x 1-4 operations on one real RingBuffer under the deterministic scheduler, ALL interleavings of 5 small programs plus seeded random programs and schedules, "
             "each operation replayed as one atomic step of the model (linearizability in lock-acquisition order)",
        assumptions=["each RingBuffer method is one critical section of one mutex (regenerated fact ringLockShape), "
                     "so concurrent histories are linearizable with the sequential semantics proved here",
                     "capacity >= 1 and PopN argument >= 0 (the only caller passes 4096)"],
    ),
    "C15": dict(
        lean_modules=["HW.Props.C15"],
        streams=[dict(name="wire", pkg="remote", test="TestVerifWire", shrink_key="batch")],
        rule="wire: every batch of length <= 2 over {nil,split-colliding senders} x {split-colliding targets} x {good, unserialisable, non-proto payloads} "
             "(exhaustive) plus seeded random batches (length 1..12, pools of 8 PIDs incl. address/id split collisions, 10 payloads of 4 registered types, "
             "2 unserialisable, 2 non-proto); non-trivial = batch length >= 2; distinct = distinct input lines",
        assumptions=["protobuf/vtproto/drpc byte encoding of Envelope and payloads is not modelled (Codec parameter with the round-trip law as an explicit field)"],
    ),
    "C16": dict(
        lean_modules=["HW.Props.C16"],
        streams=[dict(name="hostile", pkg="remote", test="TestVerifHostile", shrink_key="msgs")],
        rule="hostile: generated Envelope values (each index independently valid / -1 / len / len+k / int32 extremes, empty tables, unknown and empty type names, "
             "undecodable payload bytes) marshalled with the real encoder, one third additionally byte-mutated, unmarshalled with the real decoder and fed to the "
             "real streamReader; non-trivial = at least one message; distinct = distinct decoded envelopes",
        assumptions=["payload deserialisation success is an oracle measured by calling the real deserialiser (input to the model)",
                     "byte strings rejected by the Envelope decoder never reach the reader (drpc closes the stream)"],
    ),
}

# Properties without a check yet are listed here (kept current; see DESIGN.md section 7).
_PENDING = "machinery for this property is not built yet in this revision (planned: Lean model + theorem + correspondence, see DESIGN.md section 4); not claimed until its check exists"
# checks that exist but whose proofs are not complete yet are not claimed in MANIFEST.json
NOT_READY = set()
NOT_APPLICABLE = {pid: _PENDING for pid in ["C%02d" % i for i in range(1, 21)] if pid not in PROPS or pid in NOT_READY}

MANIFEST_TEXT = {
    "C14": dict(
        text="Machine-checked refinement: for every capacity >= 1 and every operation sequence the Lean transcription of ringbuffer.go "
             "returns exactly what an abstract FIFO list returns (HW.C14.refines_fifo, by a representation invariant covering every head/tail "
             "position at growth). The model is tied to the code on every run by exact differential replay of exhaustive small-scope and "
             "seeded random op sequences on the real RingBuffer, and by regenerated lock-shape facts (each method one critical section; Len one atomic load). "
             "Linearizability is a theorem too (HW.C14.linearizable over the fine-grained model HW.RingConc: for every set of thread programs and every schedule of lock acquisitions, atomic adds, releases and loads, "
             "each thread's results are those of the sequential FIFO run in linearization order); the stream ringsched runs the real ringbuffer.go under the scheduler shim through all interleavings of small programs, and the stream ringfine drives it at the granularity of the model "
             "(every mutex attempt, every atomic add inside a critical section, every release and load is one scheduled step, replayed one by one as RingConc.step with all counter values compared).",
        design_ref="DESIGN.md section 4, C14",
        note="Trusted: Lean kernel; axioms propext/Quot.sound only; sync.Mutex mutual exclusion and sync/atomic semantics (the fine-grained model RingConc is tied to the code by the regenerated facts 'one critical section, one atomic add inside it, per method', "
             "by ringsched at method granularity and by ringfine step by step with random schedules; the mutex itself is the Go runtime's); the correspondence harness and generators; int64 overflow and capacity 0 / negative PopN are outside the claim.",
        technique="Lean 4 refinement proof (invariant + induction over op sequences) + differential correspondence against the Go code",
    ),
    "C15": dict(
        text="Machine-checked round trip: for every codec satisfying the payload law and every batch, decode(encode batch) is exactly the sendable "
             "messages in order, each with its own target, payload and sender, none staying none (HW.C15.roundtrip; bad_message_isolated). Tied to the code by "
             "running the real streamWriter.Invoke -> real drpc encoding -> real streamReader.Receive on exhaustive small and seeded random batches and comparing "
             "envelope tables and deliveries with the model, plus the spec monitor on the implementation's deliveries.",
        design_ref="DESIGN.md section 4, C15",
        note="Trusted: Lean kernel, propext/Quot.sound/Classical.choice; protobuf/drpc byte encoding and TCP are not modelled; harness pools bound what the correspondence sees.",
        technique="Lean 4 proof of encode/decode round-trip (lookup-table invariant, induction over the batch) + differential correspondence",
    ),
    "C16": dict(
        text="The reader is modelled as a total function decode : Envelope -> deliveries x {ok, err}; theorems: every delivery is justified by a message whose own "
             "valid indices name its target, type and sender (only_addressed), out-of-range/negative indices never resolve, at most one delivery per message. "
             "'Never panics' is carried by the correspondence: the real reader must agree with the total model on structure-aware hostile envelopes and byte-mutated wire forms.",
        design_ref="DESIGN.md section 4, C16",
        note="Trusted: Lean kernel; the Envelope byte decoder (vtproto) is exercised, not modelled; deserialisation success is an oracle input.",
        technique="Lean 4 total-function model + justification theorem + differential correspondence on hostile envelopes",
    ),
    "C01": dict(
        text="Machine-checked invariants of the inbox transition system (one step per atomic action of inbox.go, unbounded thread list, any batch size >= 1): "
             "conservation delivered ++ inflight ++ queue = pushed in every reachable state; at quiescence of a never-stopped inbox delivered = pushed (exactly once, in acceptance order); "
             "per-sender program order; composed with the ring-buffer refinement (C14) and, in HW.C01.end_to_end, with the process model (C05): for any interleaving, any split of the deliveries into batches and any "
             "panics/restarts, what Receive saw over all incarnations of a live actor is exactly the accepted sequence, each message with its own sender. Tied to the code by running the real inbox.go+ringbuffer.go under a deterministic scheduler and "
             "replaying every explored schedule step by step in the model.",
        design_ref="DESIGN.md section 4, C01 and Appendix A",
        note="Trusted: Lean kernel; Go atomics/mutex semantics; ring operations as atomic steps (C14 + lock-shape fact); content fidelity of invokeMsg (message and sender handed to Receive) is covered by the process stream of C04/C13, not by this transition system.",
        technique="Lean 4 inductive invariant over a parametric transition system + schedule-level differential correspondence (deterministic scheduler shim)",
    ),
    "C02": dict(
        text="Machine-checked mutual exclusion: in every reachable state of the inbox transition system (any number of senders/stoppers/workers, every interleaving) at most one goroutine is inside Receive, "
             "as long as the inbox is not re-opened after a Stop. Tied to the code by exhaustive preemption-bounded and random schedule exploration of the real inbox under a deterministic scheduler with exact per-step replay in the model.",
        design_ref="DESIGN.md section 4, C02/C03 and Appendix A",
        note="Trusted: Lean kernel; Go memory model for the happens-before chain CAS(running,idle) < CAS(idle,running) < go; the obligation 'no Start after Stop' is on process.go (C04 model).",
        technique="Lean 4 inductive invariant (counting active workers) + schedule-level differential correspondence",
    ),
    "C03": dict(
        text="Machine-checked no-lost-wake-up: in every reachable state a started, never-stopped inbox with a backlog is running or some thread is at a (re)scheduling instruction; hence every quiescent state has an empty queue and everything delivered; every schedule terminates (HW.C03.terminates) and every maximal run has delivered everything; at process level (HW.C03.registered_actor_has_open_inbox) "
             "an actor that is still registered - whatever panics, restarts and replays happened - has an open inbox, so what senders are allowed to put there is not stranded. "
             "Safety form of the liveness claim ('eventually' assumes a fair Go scheduler). Tied to the code by schedule exploration of the real inbox with exact replay in the model.",
        design_ref="DESIGN.md section 4, C02/C03 and Appendix A",
        note="Trusted: Lean kernel; fairness of the Go scheduler (not modelled); ring operations as atomic steps.",
        technique="Lean 4 inductive invariant (pending-scheduler disjunction) + schedule-level differential correspondence",
    ),
    "C04": dict(
        text="Machine-checked: for every restart budget, chain length, crash script and history of user messages and poison pills, the trace of the transcribed "
             "process.go (Start/Invoke/tryRestart/cleanup, panics as outcomes) is accepted by the life-cycle automaton: per incarnation Initialized, Started, messages, "
             "one final Stopped, a new incarnation only after the previous Stopped, nothing afterwards. Tied to the code by exact trace comparison on model-directed "
             "enumeration of pill x crash positions and seeded random histories run through the real process code.",
        design_ref="DESIGN.md section 4, C04-C07 and Appendix B",
        note="Trusted: Lean kernel; defer/recover semantics as transcribed; the retention of messages sent between registration and inbox start is the L1 starter phase (C01/C03); receivers that panic while handling Stopped are outside the claim.",
        technique="Lean 4 induction over a fuel-indexed big-step semantics with an automaton invariant + trace-level differential correspondence",
    ),
    "C05": dict(
        text="Machine-checked containment (no panic propagates out of Start/Invoke/tryRestart for any script) and replay: over all incarnations the user messages "
             "received are a prefix of the history - each at most once, in order, own sender, the failing message never again - and all of it if the actor is alive at the end; "
             "restart events numbered 1,2,3... Tied to the code by exact trace comparison (same stream as C04).",
        design_ref="DESIGN.md section 4, C04-C07",
        note="Trusted: Lean kernel; concurrent senders during the restart delay are covered by C01 (messages stay in the ring while the worker is inside Invoke); RestartDelay not modelled.",
        technique="Lean 4 induction over the fuel-indexed semantics (pending-message accounting) + trace-level differential correspondence",
    ),
    "C06": dict(
        text="Machine-checked: number of restart events <= MaxRestarts for every script and history; the panic that exhausts the budget yields ActorMaxRestartsExceededEvent, "
             "inbox stop, unregistration, one Stopped, ActorStoppedEvent and nothing else; no panic escapes. Tied to the code by exact trace comparison incl. budgets 0..3 and "
             "budget exhaustion in the first batch, during replay and in Initialized/Started.",
        design_ref="DESIGN.md section 4, C04-C07",
        note="Trusted: Lean kernel; MaxRestarts >= 0 (a negative value never equals the counter: unbounded restarts, outside the property); children are C08; InternalError restarts bypass the budget by design.",
        technique="Lean 4 invariant (counter = number of restart events <= budget) over the fuel-indexed semantics + trace-level differential correspondence",
    ),
    "C07": dict(
        text="Machine-checked: every cancel comes after the final Stopped and the unregistration and, for a graceful pill, after every earlier message was handled (all histories); "
             "a single pill is cancelled exactly once even if the actor crashes while draining (partial). The full claim 'every pill is cancelled' is FALSE for the code: the negation is "
             "proved with a concrete witness and the witness is replayed on the implementation on every run (known finding KF-D4). Tied to the code by exact trace comparison.",
        design_ref="DESIGN.md section 4, C04-C07; section 5 (D4)",
        note="Partial: pills the actor never gets to handle are a known finding; unknown/stopped/nil PID (registry miss => one dead letter + a context done at once) is stated as decision logic (HW.C07.unknown_pid_done_at_once / known_pid_queued over Engine.poison) and tied to Engine.sendPoisonPill by the engine stream's poi operations; parent-initiated shutdown is C08.",
        technique="Lean 4 proof of cancel-ordering acceptor + proved counter-example for the full statement + trace-level differential correspondence",
    ),
    "C13": dict(
        text="Machine-checked: applyMiddleware runs the first middleware outermost and the receiver last, each once, for every chain length (induction on the chain); every delivery "
             "of every history (all life-cycle paths: spawn, stop, poison, crash, restart, max-restarts) goes through the whole chain. Tied to the code by recording middlewares on all paths "
             "(entry order and message/sender coherence recorded at each delivery).",
        design_ref="DESIGN.md section 4, C13",
        note="Trusted: Lean kernel; middleware functions are modelled as enter/exit markers (a middleware that does not call next is user behaviour outside the property).",
        technique="Lean 4 induction on the chain + invariant over the process semantics + trace-level differential correspondence",
    ),
    "C10": dict(
        text="Machine-checked: for every sequence of add/remove/get steps (hence every interleaving of concurrent Spawn/SpawnChild/Stop callers, each Registry method being one critical section) "
             "the registry holds at most one entry per id; a duplicate add changes nothing and never starts the newcomer; of any number of adds of a free id exactly one wins; after remove the id is free again and "
             "GetPID answers exactly while registered. Tied to the code by (a) sequential Engine histories incl. a spawn inside another actor's graceful-drain window, (b) ALL interleavings of small concurrent "
             "SpawnProc/Remove/get programs on the real registry.go under a deterministic scheduler, replayed step by step in the model, (c) regenerated lock-shape facts.",
        design_ref="DESIGN.md section 4, C10",
        note="Trusted: Lean kernel; sync.RWMutex; the identification 'one critical section = one atomic step' (fact + shimmed exploration); SpawnChild goes through the same SpawnProc/add path.",
        technique="Lean 4 invariant + refinement to an id->actor map over all op sequences + schedule-level and history-level differential correspondence",
    ),
    "C09": dict(
        text="Machine-checked decision logic of Engine.send stated outright (nil / local registered / local missing => one DeadLetterEvent with the original target, message, sender / foreign without remote => "
             "one EngineRemoteMissingEvent / foreign with remote), exactly-once delivery of that event to every reachable subscriber, and finiteness: handling an event never produces another event (forwards go only "
             "to deliverable keys; unreachable subscribers are dropped). Tied to the code by synchronous histories through the real Engine and eventStream.Receive with a feedback queue.",
        design_ref="DESIGN.md section 4, C09",
        note="Trusted: Lean kernel; 'never blocks' (inbox push is non-blocking, C14) and the asynchronous hop through the event-stream actor (C01) are by composition; the race 'subscriber stops between reachability test and forward' costs one dead letter.",
        technique="Lean 4 decision-logic theorems + no-feedback lemma + history-level differential correspondence",
    ),
    "C12": dict(
        text="Machine-checked for every sequence of subscribe/unsubscribe/broadcast over any pool of keys (equal PIDs in distinct objects are one key): a reachable key is a subscriber iff its last sub/unsub was a sub, and each "
             "event is forwarded to it exactly once if so and not at all otherwise; the subscriber set never holds a key twice. Order of forwards = order of the stream's inbox (C01). Tied to the code by the same synchronous "
             "engine stream (real eventStream.Receive), with equal-but-distinct PID objects on every call. Life-cycle events (started/stopped/restarted/duplicate/dead letter) are observed in the proc, reg and engine streams.",
        design_ref="DESIGN.md section 4, C12",
        note="Trusted: Lean kernel; concurrent broadcasters reduce to inbox order (C01); Go map iteration order (forwards of one event are compared as sets).",
        technique="Lean 4 induction over the stream (membership iff last-op, count under Nodup) + history-level differential correspondence",
    ),
    "C18": dict(
        text="Machine-checked for every previous view and every snapshot (growing, shrinking, repeated, duplicate entries): after handleMembers the member ids are exactly the snapshot's ids; join events = ids new minus old, "
             "leave events = old minus new, each exactly once, none for stayers; HasKind(k) iff some member of the view advertises k (given the observing node is in every snapshot); lifted to EVERY sequence of snapshots: the view is the last snapshot "
             "(history_view_is_last_snapshot) and for every id joins - leaves published so far = (in the view now) - (in the view at the start) (history_events_balance). Tied to the code by a real Cluster/Agent actor "
             "driven through the public API (Members, HasKind, event stream).",
        design_ref="DESIGN.md section 4, C18",
        note="Trusted: Lean kernel; Go map iteration order (everything compared as sorted sets); request/response barrier (C11) and event-stream order (C12) are used by the harness.",
        technique="Lean 4 set-level theorems over a list model of MemberSet + history-level differential correspondence through the public cluster API",
    ),
    "C20": dict(
        text="Machine-checked: a handshake adds the peer, replies with the complete list and reports it; a member list adds every member in it; an unreachable report for a member's address removes exactly that member and "
             "tells the agent; for a non-member address the handler is the identity (nothing changes, nobody is told); and as a REFINEMENT over every history (history_refines_set_semantics): for all sequences of handshakes, lists and "
             "unreachable reports the member list is, as a duplicate-free set of ids, exactly what the abstract set semantics computes. Tied to the code by invoking the real SelfManaged.Receive for every message (Started replaced so that "
             "zeroconf never starts), with an incarnation counter that detects a crash-restart.",
        design_ref="DESIGN.md section 4, C20",
        note="Trusted: Lean kernel; distinct member hosts; zeroconf discovery and the ping timer are not modelled; the event-stream child that turns RemoteUnreachableEvent into memberLeave is exercised by the harness (op ur) but is the identity in the model.",
        technique="Lean 4 theorems over a list model of the provider's MemberSet + history-level differential correspondence",
    ),
    "C11": dict(
        text="Machine-checked over every history of requests, replies (zero, one or several, to any id, any order) and Result calls: a value returned for a response was sent to that very response id (no cross-talk), "
             "ids handed to new requests are never registered already, a timeout is reported only if the timer fired, and after Result the id is unregistered so a late reply is a dead letter. Tied to the code by histories on "
             "the real Engine/Registry/Response with a blocked-sender watchdog and a collision count over 300k fresh ids.",
        design_ref="DESIGN.md section 4, C11",
        note="Trusted: Lean kernel; context.WithTimeout / the Go timer (the deadline is an input of the model); channel semantics of the 1-slot mailbox.",
        technique="Lean 4 invariant over op sequences (buffered value was sent to that id; ids fresh) + history-level differential correspondence",
    ),
    "C08": dict(
        text="Machine-checked (partial): for every tree shape (any depth, fan-out, sibling order) the shutdown trace of process.cleanup's recursion is a post-order: when a node handles Stopped it is unregistered and every descendant "
             "has handled Stopped and been unregistered; each actor handles Stopped once; the parent's context is done last. The full statement (third parties poisoning descendants concurrently) is false for the code: known finding "
             "KF-D12, replayed on every run. Tied to the code by random supervision trees on the real engine judged by the same post-order acceptor, and by Children() vs concurrent Set/Delete on the real safemap.go under the scheduler shim.",
        design_ref="DESIGN.md section 4, C08; section 5 (D12, D14, D15)",
        note="Partial: no third party stops a descendant during its ancestor's shutdown. Trusted: Lean kernel; context.WithCancel / Done(); the sequentialisation 'parent waits for each child in turn' is read off cleanup().",
        technique="Lean 4 mutual structural induction over rose trees (post-order acceptor) + history-level and schedule-level differential correspondence",
    ),
    "C19": dict(
        text="Machine-checked over a multi-node model with a pool of in-flight notifications delivered in arbitrary order: Activate returns nil and changes nothing if the id is known or no member advertises the kind; otherwise "
             "the PID is kind/id on a member that registered the kind, chosen among those advertising it, with at most one spawn; from a consistent cluster, after delivering the notifications in ANY order every member resolves "
             "the id to that PID and the cluster is consistent again; Deactivate removes the entry everywhere; a leaving member's activations are purged. Tied to the code by real Cluster/Agent instances on an in-memory bus whose "
             "notification arrival order is seeded and replayed exactly by the model.",
        design_ref="DESIGN.md section 4, C19",
        note="Trusted: Lean kernel; well-formedness (kind names without '/', distinct hosts, advertised kinds = registered kinds); the remote transport (C15/C17) and request/response (C11) by composition; 'a member that joins later learns all' is covered by the correspondence stream, not by a theorem.",
        technique="Lean 4 invariant over a broadcast round (order-independent delivery) + history-level differential correspondence with replayed arrival order",
    ),
    "C17": dict(
        text="Partial by nature (TCP, drpc, timers are assumed, not modelled). Machine-checked: for every split of the writer's backlog into batches, encode/decode of the batches yields the backlog in order with own targets and senders "
             "(from C15); per-sender order on the wire implies per-(sender,target) order at each target; the router/writer state machine keeps 'a route without a registered writer has its unreachable notice pending' under all interleavings of "
             "sends, router steps, dial outcomes and lost connections, hence a later send makes a fresh attempt and no message handled by the router is lost silently; Start/Stop state machine is idempotent. Tied to the code by real "
             "engines over loopback TCP (order, request/response, peer down/up, Start/Stop/dial) and by a forced interleaving of connection loss against the real registry.",
        design_ref="DESIGN.md section 4, C17",
        note="Partial: ordered reliable stream while the connection is up, dial back-off timing and goroutine scheduling inside drpc are assumed; messages already inside a connection when it drops are outside the property.",
        technique="Lean 4 composition theorems (C15 + C01) + router state-machine invariant + system-level differential correspondence over loopback TCP",
    ),
}
