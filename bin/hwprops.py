"""Per-property configuration of bin/check: Lean modules holding the property theorems, and the
correspondence streams (Go package to inject into, test function, stream name of the hwdriver)."""

PROPS = {
    "C14": dict(
        lean_modules=["HW.Props.C14"],
        facts=True,
        streams=[dict(name="ring", pkg="ringbuffer", test="TestVerifRing", shrink_key="ops")],
        rule="ring: every op sequence of length <= L over {push,pop,popN1,popN2} for capacities 1..3 (exhaustive) plus "
             "seeded random sequences (capacities 1..9,16,1024; phases biased to grow at every head position); "
             "a case is non-trivial iff the model grows or wraps in it; distinct = distinct input lines",
        assumptions=["each RingBuffer method is one critical section of one mutex (regenerated fact ringLockShape), "
                     "so concurrent histories are linearizable with the sequential semantics proved here",
                     "capacity >= 1 and PopN argument >= 0 (the only caller passes 4096)"],
    ),
}

# Properties without a check yet are listed here (kept current; see DESIGN.md section 7).
_PENDING = "machinery for this property is not built yet in this revision (planned: Lean model + theorem + correspondence, see DESIGN.md section 4); not claimed until its check exists"
NOT_APPLICABLE = {pid: _PENDING for pid in ["C%02d" % i for i in range(1, 21)] if pid not in PROPS}

MANIFEST_TEXT = {
    "C14": dict(
        text="Machine-checked refinement: for every capacity >= 1 and every operation sequence the Lean transcription of ringbuffer.go "
             "returns exactly what an abstract FIFO list returns (HW.C14.refines_fifo, by a representation invariant covering every head/tail "
             "position at growth). The model is tied to the code on every run by exact differential replay of exhaustive small-scope and "
             "seeded random op sequences on the real RingBuffer, and by regenerated lock-shape facts (each method one critical section; Len one atomic load).",
        design_ref="DESIGN.md section 4, C14",
        note="Trusted: Lean kernel; axioms propext/Quot.sound only; sync.Mutex mutual exclusion and sync/atomic semantics (linearizability argument rests on the lock-shape fact, "
             "not on a fine-grained concurrent model); the correspondence harness and generators; int64 overflow and capacity 0 / negative PopN are outside the claim.",
        technique="Lean 4 refinement proof (invariant + induction over op sequences) + differential correspondence against the Go code",
    ),
}
