#!/bin/bash
# confirm_seed.sh <scratch-worktree> <mutant-dir> <pkg-dir> <seed-id> <property> : confirms a seeded change
# (demo fails with it, passes without it, suite passes with it) and stores it under /verif/seeded/<seed-id>/.
set -u
WT=$1; MD=$2; PKG=$3; SID=$4; PROP=$5
export GOFLAGS=-mod=mod GOPROXY=off GOSUMDB=off GOTOOLCHAIN=local
# the cluster tests discover peers over mDNS with fixed node ids: isolate them from other test processes
iso() { unshare -n sh -c 'ip link set lo up; ip link set lo multicast on; ip route add 224.0.0.0/4 dev lo; exec "$@"' sh "$@"; }
cd "$WT" || exit 2
git checkout -q -- . ; git clean -fdq -e _out
DEMO=$(ls "$MD"/*_test.go | head -1)
cp "$DEMO" "$PKG/zz_seed_demo_test.go"
RUNPAT=$(grep -ho 'func Test[A-Za-z0-9_]*' "$PKG/zz_seed_demo_test.go" | sed 's/func //' | paste -sd'|')
echo "== demo on clean tree (expect PASS)"; go test -vet=off -count=1 -run "^($RUNPAT)\$" ./$PKG/ > /tmp/cs_${SID}_clean.log 2>&1; C=$?; tail -3 /tmp/cs_${SID}_clean.log
git apply "$MD/patch.diff" || { echo "PATCH DOES NOT APPLY"; exit 3; }
echo "== demo with mutant (expect FAIL)"; go test -vet=off -count=1 -run "^($RUNPAT)\$" ./$PKG/ > /tmp/cs_${SID}_mut.log 2>&1; M=$?; tail -5 /tmp/cs_${SID}_mut.log
rm -f "$PKG/zz_seed_demo_test.go"
echo "== suite with mutant (expect PASS)"; go build ./... && iso go test -vet=off -count=1 -timeout 20m ./... > /tmp/cs_${SID}_suite.log 2>&1; S=$?
# the cluster tests are timing sensitive under machine load: retry failing packages alone (up to 3 times)
for try in 1 2 3; do
  [ $S -eq 0 ] && break
  FAILED=$(grep '^FAIL\s' /tmp/cs_${SID}_suite.log | awk '{print $2}' | grep hollywood | sort -u)
  [ -z "$FAILED" ] && break
  echo "retry $try: $FAILED"; sleep 5
  iso go test -vet=off -count=1 -timeout 20m $FAILED > /tmp/cs_${SID}_suite.log 2>&1; S=$?
done
grep -v "no test files" /tmp/cs_${SID}_suite.log | tail -4
git checkout -q -- . ; git clean -fdq -e _out
echo "clean_demo_rc=$C mutant_demo_rc=$M suite_rc=$S"
if [ $C -eq 0 ] && [ $M -ne 0 ] && [ $S -eq 0 ]; then
  D=/verif/seeded/$SID; mkdir -p $D; cp "$MD/patch.diff" $D/patch.diff; cp "$DEMO" $D/demo_test.go; [ -f "$MD/notes.md" ] && cp "$MD/notes.md" $D/notes.md
  echo "CONFIRMED -> $D"
else
  echo "NOT CONFIRMED"
fi
